#!/usr/bin/env python3
"""tools/seedtest.py <mutant_dir> <seed_id> <CHECK>[,<CHECK>...] [--tier quick]
Evaluate a seeded change: (1) in a scratch worktree of /repo: apply, full test suite must pass, demo must fail; revert, demo must pass;
(2) run the named checks against that worktree (VERIF_REPO) with evidence redirected; (3) record everything in /verif/seeded/<seed_id>/meta.json.
The scratch worktree and its build output are removed at the end."""
import sys, os, subprocess, json, shutil, time, re
mdir, sid, checks = sys.argv[1], sys.argv[2], sys.argv[3].split(',')
tier = 'quick'
demo_cmd = 'cargo test --offline --test demo'
for i, a_ in enumerate(sys.argv):
    if a_ == '--tier': tier = sys.argv[i + 1]
    if a_ == '--demo-features': demo_cmd = f'cargo +nightly test --offline --features {sys.argv[i + 1]} --test demo'
VERIF = os.path.dirname(os.path.dirname(os.path.abspath(__file__)))
wt = f'/tmp/wt/eval-{sid}'
def sh(cmd, cwd=None, env=None, timeout=3600):
    r = subprocess.run(cmd, shell=True, cwd=cwd, env=env, capture_output=True, text=True, timeout=timeout)
    return r.returncode, r.stdout + r.stderr
env = dict(os.environ, CARGO_NET_OFFLINE='true')
sh(f'git -C /repo worktree remove --force {wt}'); shutil.rmtree(wt, ignore_errors=True)
rc, out = sh(f'git -C /repo worktree add -q --detach {wt} HEAD'); assert rc == 0, out
meta = {'seed_id': sid, 'source': mdir, 'repo_head': sh('git -C /repo rev-parse --short HEAD')[1].strip(), 'checks': {}}
try:
    patch = os.path.join(mdir, 'patch.diff')
    rc, out = sh(f'git apply {patch}', cwd=wt); meta['applies'] = rc == 0
    if rc != 0: meta['apply_error'] = out[-500:]; raise SystemExit
    rc, out = sh('cargo test --workspace --no-fail-fast --offline 2>&1 | grep -E "^test result"', cwd=wt + '/jmespath', env=env)
    res = re.findall(r'(\d+) passed; (\d+) failed', out)
    meta['suite_with_change'] = res; meta['suite_green'] = bool(res) and all(f == '0' for _, f in res) and sum(int(p) for p, _ in res) >= 927
    cli = os.path.exists(os.path.join(mdir, 'demo.sh'))          # a change to the jp command-line tool: the demonstration is a script run against the built binary
    def demo_cli():
        rc, out = sh(f'VERIF_REPO={wt} python3 -c "import sys; sys.path.insert(0, \'{VERIF}\'); from vf import build; print(build.cli_binary(\'dev\'))"', env=env)
        binp = out.strip().split('\n')[-1]
        if rc != 0 or not os.path.exists(binp): return None, out[-300:]
        rc, out = sh(f'bash {os.path.join(mdir, "demo.sh")} {binp}', env=env, timeout=300)
        return rc, out[-400:]
    if cli:
        rc, out = demo_cli(); meta['demo_cmd'] = 'bash demo.sh <jp built from the tree>'; meta['demo_fails_with_change'] = rc == 1; meta['demo_output_with_change'] = out
    else:
        shutil.copy(os.path.join(mdir, 'demo.rs'), wt + '/jmespath/tests/demo.rs')
        rc, out = sh(demo_cmd + ' 2>&1 | tail -5', cwd=wt + '/jmespath', env=env)
        meta['demo_cmd'] = demo_cmd
        meta['demo_fails_with_change'] = 'FAILED' in out or 'failed' in out
    # checks against the changed tree
    for c in checks:
        t0 = time.time()
        os.remove(wt + '/jmespath/tests/demo.rs') if os.path.exists(wt + '/jmespath/tests/demo.rs') else None
        e2 = dict(env, VERIF_REPO=wt, VERIF_EVIDENCE_DIR=f'/var/tmp/jmverif-ev-{sid}', VERIF_TIER=tier)
        os.makedirs(e2['VERIF_EVIDENCE_DIR'], exist_ok=True)
        rc, out = sh(f'./check {c} --tier {tier}', cwd=VERIF, env=e2, timeout=7200)
        vio = [l for l in out.split('\n') if l.startswith('VIOLATION')]
        detail = [l.strip() for l in out.split('\n') if l.startswith('  ') and ':' in l][:6]
        inc = [l for l in out.split('\n') if l.startswith('INCONCLUSIVE')][:5]
        meta['checks'][c] = {'exit': rc, 'violations': vio[:6], 'detail': detail, 'inconclusive': inc, 'wall_s': round(time.time() - t0, 1), 'last': out.strip().split('\n')[-1][:300]}
    if cli:
        sh('git checkout -- .', cwd=wt)
        rc, out = demo_cli(); meta['demo_passes_without_change'] = rc == 0
    else:
        shutil.copy(os.path.join(mdir, 'demo.rs'), wt + '/jmespath/tests/demo.rs')
        sh('git checkout -- .', cwd=wt)
        rc, out = sh(demo_cmd + ' 2>&1 | tail -5', cwd=wt + '/jmespath', env=env)
        meta['demo_passes_without_change'] = 'test result: ok' in out
finally:
    sh(f'git -C /repo worktree remove --force {wt}'); shutil.rmtree(wt, ignore_errors=True)
    for d in os.listdir('/var/tmp'):
        if d.startswith('jmverif-replay-') or d.startswith('jmverif-kani-') or d.startswith('jmverif-cli-') or d == f'jmverif-ev-{sid}':
            import hashlib
            if d == f'jmverif-ev-{sid}' or d.endswith(hashlib.sha1(wt.encode()).hexdigest()[:10]): shutil.rmtree('/var/tmp/' + d, ignore_errors=True)
    dst = os.path.join(VERIF, 'seeded', sid); os.makedirs(dst, exist_ok=True)
    for f in ('patch.diff', 'demo.rs', 'demo.sh', 'notes.md'):
        if os.path.exists(os.path.join(mdir, f)): shutil.copy(os.path.join(mdir, f), os.path.join(dst, f))
    meta['detected_by'] = [c for c, r in meta['checks'].items() if r['exit'] == 1 and r['violations']]
    json.dump(meta, open(os.path.join(dst, 'meta.json'), 'w'), indent=1)
    print(json.dumps({k: meta.get(k) for k in ('seed_id', 'applies', 'suite_green', 'demo_fails_with_change', 'demo_passes_without_change', 'detected_by')}))
    for c, r in meta['checks'].items(): print(' ', c, r['exit'], r['violations'][:2], r['detail'][:2], r['inconclusive'][:2], r['wall_s'])
