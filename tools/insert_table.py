#!/usr/bin/env python3
"""regenerates the table of seeded changes in DESIGN.md §12 (between the SEEDED-TABLE markers) from seeded/*/meta.json"""
import subprocess, os, re
root = os.path.dirname(os.path.dirname(os.path.abspath(__file__)))
tbl = subprocess.run(['python3', os.path.join(root, 'tools', 'seeded_table.py')], capture_output=True, text=True).stdout
p = os.path.join(root, 'DESIGN.md'); s = open(p).read()
a, b = '<!-- SEEDED-TABLE-BEGIN -->', '<!-- SEEDED-TABLE-END -->'
assert a in s and b in s
s = s[:s.index(a) + len(a)] + '\n' + tbl + s[s.index(b):]
open(p, 'w').write(s)
print('rows:', tbl.count('\n') - 2)
