#!/usr/bin/env python3
"""prints the markdown table of seeded changes and which checks report them (from /verif/seeded/*/meta.json)"""
import json, glob, os
rows = []
for p in sorted(glob.glob(os.path.join(os.path.dirname(os.path.dirname(os.path.abspath(__file__))), 'seeded', '*', 'meta.json'))):
    m = json.load(open(p)); sid = m['seed_id']
    notes = ''
    np_ = os.path.join(os.path.dirname(p), 'notes.md')
    if os.path.exists(np_):
        txt = open(np_).read().strip().split('\n')
        notes = ' '.join(l.strip('# -*').strip() for l in txt[:3])[:170]
    det = ', '.join(m.get('detected_by') or []) or '—'
    ran = ', '.join(f"{c}:{'VIOLATION' if r['exit'] == 1 and r['violations'] else ('inconclusive' if r['inconclusive'] else 'pass')}" for c, r in m.get('checks', {}).items())
    ok = m.get('applies') and m.get('suite_green') and m.get('demo_fails_with_change') and m.get('demo_passes_without_change')
    rows.append(f"| {sid} | {notes} | {'yes' if ok else 'NO: ' + str({k: m.get(k) for k in ('applies', 'suite_green', 'demo_fails_with_change', 'demo_passes_without_change')})} | {ran} | **{det}** |")
print('| seeded change | what it is / what it needs | confirmed (applies, suite green, demo fails/passes) | checks run | detected by |')
print('|---|---|---|---|---|')
print('\n'.join(rows))
