#!/usr/bin/env python3-vt
"""translator validation: push the compliance suite through the engine (concrete inputs, one path each)"""
import sys, time, json, glob, os, math, collections
sys.path.insert(0, '/tmp/probe')
import mirsym1 as M
import mirsym1_models as MM
from mirsym1 import *
from run1 import load, show_ast

def mk_runtime(ex):
    rt = ex.call('Runtime::new', [])
    cell = Cell(rt)
    ex.call('Runtime::register_builtin_functions', [Ptr(cell)])
    return cell

def search(ex, expr, doc):
    r = ex.call('parse', [Ptr(Cell(rstr(expr)))])
    if r.variant == 'Err': return ('compile-err', r.fields[0].v)
    ast = r.fields[0].v
    rtc = mk_runtime(ex)
    ctx = ex.call('Context::new', [Ptr(Cell(rstr(expr))), Ptr(rtc)])
    data = Ptr(Cell(MM.py_to_variable(doc)), 'rc')
    out = ex.call('interpret', [Ptr(Cell(data)), Ptr(Cell(ast)), Ptr(Cell(ctx))])
    if out.variant == 'Err': return ('err', out.fields[0].v)
    return ('ok', MM.variable_to_py(ex, out.fields[0].v))

def reason_kind(e):
    r = e.fields[4].v   # JmespathError.reason (field order: offset,line,column,expression,reason)
    if r.variant == 'Parse': return 'syntax'
    k = r.fields[0].v.variant
    return {'InvalidSlice': 'invalid-value', 'TooManyArguments': 'invalid-arity', 'NotEnoughArguments': 'invalid-arity', 'UnknownFunction': 'unknown-function', 'InvalidType': 'invalid-type', 'InvalidReturnType': 'invalid-type'}[k]

def json_eq(a, b):
    if isinstance(a, bool) or isinstance(b, bool): return a is b
    if isinstance(a, (int, float)) and isinstance(b, (int, float)): return float(a) == float(b) or abs(float(a) - float(b)) <= 1e-9 * max(abs(a), abs(b))
    if type(a) != type(b): return False
    if isinstance(a, list): return len(a) == len(b) and all(json_eq(x, y) for x, y in zip(a, b))
    if isinstance(a, dict): return set(a) == set(b) and all(json_eq(a[k], b[k]) for k in a)
    return a == b

if __name__ == '__main__':
    prog = load(); eng = Engine(prog)
    files = sorted(glob.glob('/repo/jmespath/tests/compliance/*.json'))
    only = sys.argv[1:] 
    tot = collections.Counter(); unsup = collections.Counter(); bad = []
    t0 = time.time()
    for f in files:
        name = os.path.basename(f)
        if only and name not in only: continue
        if name == 'benchmarks.json': continue
        for suite in json.load(open(f)):
            doc = suite['given']
            for case in suite['cases']:
                expr = case['expression']
                res = {}
                def body(ex): return search(ex, expr, doc)
                def on_path(ex, r): res['r'] = r; res['steps'] = ex.steps
                try:
                    n = eng.explore(body, on_path)
                except Unsupported as e:
                    tot['unsupported'] += 1; unsup[str(e).split('   [in')[0][:90]] += 1; continue
                except Exception as e:
                    tot['crash'] += 1; unsup['CRASH ' + repr(e)[:100]] += 1; continue
                kind, val = res['r']
                if kind != 'ok': tot['enginepanic'] += 1; bad.append((name, expr, res['r'])); continue
                k2, v2 = val
                if 'error' in case:
                    got = reason_kind(v2) if k2 in ('err', 'compile-err') else 'no-error'
                    if got == case['error']: tot['pass'] += 1
                    else: tot['fail'] += 1; bad.append((name, expr, 'want error ' + case['error'], got))
                elif 'result' in case:
                    if k2 == 'ok' and json_eq(v2, case['result']): tot['pass'] += 1
                    else: tot['fail'] += 1; bad.append((name, expr, case['result'], (k2, v2 if k2 == 'ok' else show_ast(v2))))
                else: tot['skip'] += 1
    print(dict(tot), 'wall', round(time.time() - t0, 1))
    for k, n in unsup.most_common(40): print('  UNSUP', n, k)
    for b in bad[:25]: print('  BAD', str(b)[:300])
