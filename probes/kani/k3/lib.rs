#[repr(u8)]
pub enum T {
    Leaf { offset: usize, v: i32 },
    Name { offset: usize, name: String },
    Add { offset: usize, l: Box<T>, r: Box<T> },
    Neg { offset: usize, n: Box<T> },
    List { offset: usize, xs: Vec<T> },
}
pub fn eval(t: &T) -> i32 {
    match *t {
        T::Leaf { v, .. } => v,
        T::Name { ref name, .. } => name.len() as i32,
        T::Add { ref l, ref r, .. } => eval(l).wrapping_add(eval(r)),
        T::Neg { ref n, .. } => eval(n).wrapping_neg(),
        T::List { ref xs, .. } => { let mut s = 0i32; for x in xs { s = s.wrapping_add(eval(x)); } s }
    }
}
#[cfg(kani)]
mod proofs {
    use super::*;
    #[kani::proof]
    #[kani::unwind(6)]
    fn concrete_tree() {
        let x: i32 = kani::any();
        let t = T::Add { offset: 0, l: Box::new(T::Neg { offset: 1, n: Box::new(T::Leaf { offset: 2, v: x }) }), r: Box::new(T::Leaf { offset: 3, v: 1 }) };
        assert_eq!(eval(&t), x.wrapping_neg().wrapping_add(1));
        std::mem::forget(t);
    }

    #[kani::proof]
    #[kani::unwind(6)]
    fn concrete_tree2() {
        let t = T::Add { offset: 0, l: Box::new(T::Neg { offset: 1, n: Box::new(T::Leaf { offset: 2, v: 5 }) }), r: Box::new(T::Leaf { offset: 3, v: 1 }) };
        assert_eq!(eval(&t), -4);
        std::mem::forget(t);
    }
    #[kani::proof]
    #[kani::unwind(6)]
    fn concrete_tree3() {
        let t = T::Add { offset: 0, l: Box::new(T::Neg { offset: 1, n: Box::new(T::Name { offset: 2, name: "ab".to_string() }) }), r: Box::new(T::Leaf { offset: 3, v: 1 }) };
        assert_eq!(eval(&t), -1);
        std::mem::forget(t);
    }
}
