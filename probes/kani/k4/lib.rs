#![cfg_attr(kani, feature(allocator_api))]
#[cfg(kani)]
mod proofs {
    use jmespath::{Variable, Rcvar, JmespathError, ErrorReason};
    use jmespath::verif::*;

    fn rc_drop_slow_stub<T: ?Sized, A: std::alloc::Allocator>(_rc: &mut std::rc::Rc<T, A>) {}
    fn fmt_stub(_a: std::fmt::Arguments<'_>) -> String { String::new() }

    #[kani::proof]
    fn float_eq_sym() {
        let a: f64 = kani::any(); let b: f64 = kani::any();
        kani::assume(a.is_finite() && b.is_finite());
        assert!(float_eq_hook(a, a));
        assert_eq!(float_eq_hook(a, b), float_eq_hook(b, a));
    }

    #[kani::proof]
    fn float_eq_separated() {
        let a: f64 = kani::any(); let b: f64 = kani::any();
        kani::assume(a.is_finite() && b.is_finite());
        kani::assume(a >= 1.0 && b >= 2.0 * a);
        assert!(!float_eq_hook(a, b));
    }

    #[kani::proof]
    fn adjust_spec() {
        let len: i32 = kani::any(); let e: i32 = kani::any(); let step: i32 = kani::any();
        kani::assume(len > 0 && step != 0);
        let r = adjust_hook(len, e, step);
        // spec (JMESPath / CPython PySlice_AdjustIndices)
        let l = len as i64; let mut x = e as i64;
        let want = if x < 0 { x += l; if x < 0 { if step < 0 { -1 } else { 0 } } else { x } }
                   else if x >= l { if step < 0 { l - 1 } else { l } } else { x };
        assert_eq!(r as i64, want);
    }

    #[kani::proof]
    #[kani::unwind(6)]
    #[kani::stub(std::rc::Rc::drop_slow, rc_drop_slow_stub)]
    fn err_new_linecol() {
        let bytes: [u8; 4] = kani::any();
        let n: usize = kani::any();
        kani::assume(n <= 4);
        let s = match std::str::from_utf8(&bytes[..n]) { Ok(s) => s, Err(_) => { kani::assume(false); return; } };
        let off: usize = kani::any();
        kani::assume(off <= n && s.is_char_boundary(off));
        let e = JmespathError::new(s, off, ErrorReason::Parse(String::new()));
        // expected: line = number of '\n' in s[..off]; column = chars since last '\n'
        let mut line = 0usize; let mut col = 0usize;
        for (i, c) in s.char_indices() { if i >= off { break; } if c == '\n' { line += 1; col = 0; } else { col += 1; } }
        assert_eq!(e.line, line);
        assert_eq!(e.column, col);
        std::mem::forget(e);
    }

    #[kani::proof]
    #[kani::unwind(6)]
    #[kani::stub(std::rc::Rc::drop_slow, rc_drop_slow_stub)]
    #[kani::stub(alloc::fmt::format, fmt_stub)]
    fn tokenize3() {
        let bytes: [u8; 3] = kani::any();
        kani::assume(bytes[0] < 128 && bytes[1] < 128 && bytes[2] < 128);
        kani::assume(bytes[0] != b'"' && bytes[0] != b'`' && bytes[1] != b'"' && bytes[1] != b'`' && bytes[2] != b'"' && bytes[2] != b'`');
        let s = std::str::from_utf8(&bytes).unwrap();
        let r = tokenize(s);
        if let Ok(ref q) = r { assert!(q.len() >= 1 && q.len() <= 4); }
        std::mem::forget(r);
    }

    #[kani::proof]
    #[kani::unwind(6)]
    #[kani::stub(std::rc::Rc::drop_slow, rc_drop_slow_stub)]
    #[kani::stub(alloc::fmt::format, fmt_stub)]
    fn parse2() {
        let bytes: [u8; 2] = kani::any();
        kani::assume(bytes[0] < 128 && bytes[1] < 128);
        kani::assume(bytes[0] != b'"' && bytes[0] != b'`' && bytes[1] != b'"' && bytes[1] != b'`');
        let s = std::str::from_utf8(&bytes).unwrap();
        let r = jmespath::parse(s);
        std::mem::forget(r);
    }

    #[kani::proof]
    fn ser_u64() {
        let x: u64 = kani::any();
        let v = Variable::from_serializable(x);
        let j = serde_json::to_value(x).unwrap();
        match v { Ok(Variable::Number(ref n)) => { assert_eq!(n.as_u64(), Some(x)); assert_eq!(j.as_u64(), Some(x)); assert_eq!(n.is_f64(), false); } _ => assert!(false) }
        std::mem::forget(v); std::mem::forget(j);
    }
}
