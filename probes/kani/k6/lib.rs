#![cfg_attr(kani, feature(allocator_api))]
#[cfg(kani)]
mod proofs {
    use jmespath::Variable;
    fn rc_drop_slow_stub<T: ?Sized, A: std::alloc::Allocator>(_rc: &mut std::rc::Rc<T, A>) {}
    fn fmt_stub(_a: std::fmt::Arguments<'_>) -> String { String::new() }

    #[kani::proof]
    #[kani::stub(std::rc::Rc::drop_slow, rc_drop_slow_stub)]
    #[kani::stub(alloc::fmt::format, fmt_stub)]
    fn ser_u64_lean() {
        let x: u64 = kani::any();
        let v = Variable::from_serializable(x);
        match v {
            Ok(Variable::Number(ref n)) => { kani::assert(n.as_u64() == Some(x), "u64 kept"); kani::assert(!n.is_f64(), "integer"); }
            Ok(_) => kani::assert(false, "number expected"),
            Err(_) => kani::assert(false, "no error"),
        }
        std::mem::forget(v);
    }
    #[kani::proof]
    #[kani::stub(std::rc::Rc::drop_slow, rc_drop_slow_stub)]
    #[kani::stub(alloc::fmt::format, fmt_stub)]
    fn ser_i64_lean() {
        let x: i64 = kani::any();
        let v = Variable::from_serializable(x);
        match v {
            Ok(Variable::Number(ref n)) => { kani::assert(n.as_i64() == Some(x), "i64 kept"); kani::assert(!n.is_f64(), "integer"); }
            Ok(_) => kani::assert(false, "number expected"),
            Err(_) => kani::assert(false, "no error"),
        }
        std::mem::forget(v);
    }
}
