#[cfg(kani)]
mod proofs {
    use jmespath::Variable;
    use jmespath::Rcvar;

    #[kani::proof]
    #[kani::unwind(6)]
    fn slice_len3() {
        let arr: Vec<Rcvar> = vec![
            Rcvar::new(Variable::Null),
            Rcvar::new(Variable::Null),
            Rcvar::new(Variable::Null),
        ];
        let v = Variable::Array(arr);
        let start: Option<i32> = kani::any();
        let stop: Option<i32> = kani::any();
        let step: i32 = kani::any();
        kani::assume(step != 0);
        let r = v.slice(start, stop, step);
        assert!(r.is_some());
        std::mem::forget(r);
        std::mem::forget(v);
    }
}
