#![cfg_attr(kani, feature(allocator_api))]
#[cfg(kani)]
mod proofs {
    use jmespath::{Variable, Rcvar, ToJmespath};
    use jmespath::ast::Comparator;
    use serde_json::Number;

    fn rc_drop_slow_stub<T: ?Sized, A: std::alloc::Allocator>(_rc: &mut std::rc::Rc<T, A>) {}

    fn any_num() -> Number {
        match kani::any::<u8>() % 3 {
            0 => Number::from(kani::any::<u64>()),
            1 => Number::from(kani::any::<i64>()),
            _ => { let f: f64 = kani::any(); kani::assume(f.is_finite()); Number::from_f64(f).unwrap() }
        }
    }

    #[kani::proof]
    fn compare_numbers() {
        let a = Variable::Number(any_num());
        let b = Variable::Number(any_num());
        let eq = a.compare(&Comparator::Equal, &b);
        let ne = a.compare(&Comparator::NotEqual, &b);
        let lt = a.compare(&Comparator::LessThan, &b);
        let le = a.compare(&Comparator::LessThanEqual, &b);
        let gt = a.compare(&Comparator::GreaterThan, &b);
        let ge = a.compare(&Comparator::GreaterThanEqual, &b);
        assert!(eq.is_some() && ne.is_some() && lt.is_some() && le.is_some() && gt.is_some() && ge.is_some());
        assert_eq!(eq.unwrap(), !ne.unwrap());
        assert_eq!(eq, b.compare(&Comparator::Equal, &a));
        assert_eq!(le.unwrap(), lt.unwrap() || eq.unwrap());
        assert_eq!(ge.unwrap(), gt.unwrap() || eq.unwrap());
        assert!(!(lt.unwrap() && gt.unwrap()));
        let (x, y) = (a.as_number().unwrap(), b.as_number().unwrap());
        assert_eq!(lt.unwrap(), x < y);
        assert_eq!(gt.unwrap(), x > y);
        if x == y { assert!(eq.unwrap()); }
        std::mem::forget(a); std::mem::forget(b);
    }

    #[kani::proof]
    fn compare_mixed_scalars() {
        let a = match kani::any::<u8>() % 4 { 0 => Variable::Null, 1 => Variable::Bool(kani::any()), 2 => Variable::Number(any_num()), _ => Variable::Array(Vec::new()) };
        let b = match kani::any::<u8>() % 4 { 0 => Variable::Null, 1 => Variable::Bool(kani::any()), 2 => Variable::Number(any_num()), _ => Variable::Array(Vec::new()) };
        let both_num = a.is_number() && b.is_number();
        let lt = a.compare(&Comparator::LessThan, &b);
        assert_eq!(lt.is_some(), both_num);
        let eq = a.compare(&Comparator::Equal, &b).unwrap();
        if a.get_type() != b.get_type() { assert!(!eq); }
        std::mem::forget(a); std::mem::forget(b);
    }

    #[kani::proof]
    #[kani::stub(std::rc::Rc::drop_slow, rc_drop_slow_stub)]
    fn spec_vs_generic_u64() {
        let x: u64 = kani::any();
        let s: Rcvar = x.to_jmespath().unwrap();
        let g = Variable::from_serializable(x).unwrap();
        match (&*s, &g) { (Variable::Number(a), Variable::Number(b)) => { assert_eq!(a.as_u64(), b.as_u64()); assert_eq!(a.as_u64(), Some(x)); } _ => assert!(false) }
        std::mem::forget(s); std::mem::forget(g);
    }

    #[kani::proof]
    #[kani::stub(std::rc::Rc::drop_slow, rc_drop_slow_stub)]
    fn spec_vs_generic_i64() {
        let x: i64 = kani::any();
        let s: Rcvar = x.to_jmespath().unwrap();
        let g = Variable::from_serializable(x).unwrap();
        match (&*s, &g) { (Variable::Number(a), Variable::Number(b)) => { assert_eq!(a.as_i64(), b.as_i64()); assert_eq!(a.as_i64(), Some(x)); assert_eq!(a.is_u64(), b.is_u64()); } _ => assert!(false) }
        std::mem::forget(s); std::mem::forget(g);
    }
}
