#![cfg_attr(kani, feature(allocator_api))]
#[cfg(kani)]
mod proofs {
    use jmespath::{Variable, Rcvar, Context, Runtime};
    use jmespath::ast::Ast;
    use jmespath::verif::interpret;
    use serde_json::Number;
    use std::collections::BTreeMap;

    fn any_scalar() -> Variable {
        match kani::any::<u8>() % 5 {
            0 => Variable::Null,
            1 => Variable::Bool(kani::any()),
            2 => Variable::Number(Number::from(kani::any::<i8>())),
            3 => Variable::String(if kani::any() { String::new() } else { "a".to_string() }),
            _ => {
                let mut m = BTreeMap::new();
                if kani::any() { m.insert("a".to_string(), Rcvar::new(Variable::Bool(kani::any()))); }
                Variable::Object(m)
            }
        }
    }

    fn any_doc() -> Variable {
        if kani::any() {
            let n: usize = kani::any();
            kani::assume(n <= 2);
            let mut v = Vec::new();
            for _ in 0..n { v.push(Rcvar::new(any_scalar())); }
            Variable::Array(v)
        } else { any_scalar() }
    }

    fn rs_stub() -> std::collections::hash_map::RandomState {
        unsafe { std::mem::transmute::<(u64, u64), std::collections::hash_map::RandomState>((0, 0)) }
    }

    fn rc_drop_slow_stub<T: ?Sized, A: std::alloc::Allocator>(_rc: &mut std::rc::Rc<T, A>) {}

    // Projection(Identity, Field a): spec: non-array -> null; else elements' field a, nulls dropped
    #[kani::proof]
    #[kani::unwind(4)]
    #[kani::stub(std::collections::hash_map::RandomState::new, rs_stub)]
    #[kani::stub(std::rc::Rc::drop_slow, rc_drop_slow_stub)]
    fn projection_field() {
        let doc = Rcvar::new(any_doc());
        let ast = Ast::Projection { offset: 0, lhs: Box::new(Ast::Identity{offset:0}), rhs: Box::new(Ast::Field{offset:0, name: "a".to_string()}) };
        let rt = Runtime::new();
        let mut ctx = Context::new("", &rt);
        let r = interpret(&doc, &ast, &mut ctx);
        let r = match r { Ok(r) => r, Err(_) => { kani::assert(false, "no error"); return; } };
        match &*doc {
            Variable::Array(xs) => {
                let out = r.as_array();
                kani::assert(out.is_some(), "array out");
                let out = out.unwrap();
                let mut k = 0;
                for x in xs.iter() {
                    let f = x.get_field("a");
                    if !f.is_null() {
                        kani::assert(k < out.len(), "len");
                        kani::assert(out[k].as_boolean() == f.as_boolean(), "elem");
                        k += 1;
                    }
                }
                kani::assert(k == out.len(), "exact len");
            }
            _ => kani::assert(r.is_null(), "null on non-array"),
        }
        std::mem::forget(r); std::mem::forget(doc); std::mem::forget(ast); std::mem::forget(rt);
    }

    #[kani::proof]
    #[kani::unwind(4)]
    #[kani::stub(std::collections::hash_map::RandomState::new, rs_stub)]
    #[kani::stub(std::rc::Rc::drop_slow, rc_drop_slow_stub)]
    fn field_only() {
        let doc = Rcvar::new(any_doc());
        let ast = Ast::Field{offset:0, name: "a".to_string()};
        let rt = Runtime::new();
        let mut ctx = Context::new("", &rt);
        let r = interpret(&doc, &ast, &mut ctx);
        kani::assert(r.is_ok(), "ok");
        std::mem::forget(r); std::mem::forget(doc); std::mem::forget(ast); std::mem::forget(rt);
    }
}
