#!/usr/bin/env python3-vt
import sys, time, json, traceback
sys.path.insert(0, '/tmp/probe')
import mirsym1 as M
import mirsym1_models as MM
from mirsym1 import *

def load():
    import os
    decls = Decls(os.environ.get('JM_SRC', '/repo/jmespath'))
    prog = Program(open(os.environ.get('JM_MIR', '/tmp/probe/mir2.txt')).read(), decls)
    return prog

def show_ast(v, ind=0):
    v = MM.deref_all(v)
    if isinstance(v, Agg) and v.kind == 'enum':
        return f'{v.variant}(' + ', '.join(show_ast(c.v) for c in v.fields) + ')'
    if isinstance(v, VecV): return '[' + ', '.join(show_ast(c.v) for c in v.items) + ']'
    if isinstance(v, Agg): return f'{v.ty}{{' + ', '.join(show_ast(c.v) for c in v.fields) + '}'
    return repr(v)

if __name__ == '__main__':
    prog = load()
    print(len(prog.fns), 'fns', len(prog.by_key), 'keys', len(prog.closures), 'closures')
    eng = Engine(prog)
    for expr in sys.argv[1:]:
        def body(ex):
            return ex.call('parse', [Ptr(Cell(rstr(expr)))])
        def on_path(ex, r):
            print(expr, '=>', r[0], show_ast(r[1]) if r[0] == 'ok' else r[1], 'steps', ex.steps)
        try:
            eng.explore(body, on_path)
        except Unsupported as e:
            print(expr, '=> UNSUPPORTED', str(e)[:300])
