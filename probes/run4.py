#!/usr/bin/env python3-vt
"""symbolic token-queue probe for the parser (C03/C04 feasibility): N symbolic tokens + Eof"""
import sys, os, time, json, collections
sys.path.insert(0, '/tmp/probe')
import z3
import mirsym1 as M
import mirsym1_models as MM
from mirsym1 import *
from run1 import load, show_ast

class LazyTok:
    def __init__(s, ex, kinds, decls):
        s.kinds = kinds; s.decls = decls
        s.tagvar = ex.fresh('tok', 64)
        ex.assume(z3.Or(*[s.tagvar == decls.variant_index('Token', k) for k in kinds]))
    def __call__(s, ex, me, want=None):
        if want is None:
            lab = ex.choose([(k, s.tagvar == s.decls.variant_index('Token', k)) for k in s.kinds])
        else:
            lab = want; ex.assume(s.tagvar == s.decls.variant_index('Token', want))
        me.lazy = None; me.variant = lab
        if lab == 'Identifier': me.fields = [Cell(rstr('a'))]
        elif lab == 'QuotedIdentifier': me.fields = [Cell(rstr('q'))]
        elif lab == 'Number': me.fields = [Cell(Int(ex.fresh('num', 32), 'i32'))]
        elif lab == 'Literal': me.fields = [Cell(Ptr(Cell(mk_enum('Variable', 'Null', [])), 'rc'))]
        else: me.fields = []

def main():
    prog = load(); eng = Engine(prog)
    N = int(sys.argv[1]); LIMIT = float(sys.argv[2]) if len(sys.argv) > 2 else 120
    kinds = [v for v, _ in prog.decls.enums['Token'] if v != 'Eof']
    stats = collections.Counter(); t0 = time.time(); samples = []
    def body(ex):
        if time.time() - t0 > LIMIT: raise KeyboardInterrupt
        q = VecV()
        ex.toks = []
        for i in range(N):
            tok = Agg('enum', 'Token', None, [], lazy=LazyTok(ex, kinds, prog.decls))
            ex.toks.append(tok)
            q.items.append(Cell(Agg('tuple', None, None, [Cell(Int(i, 'usize')), Cell(tok)])))
        q.items.append(Cell(Agg('tuple', None, None, [Cell(Int(N, 'usize')), Cell(mk_enum('Token', 'Eof', []))])))
        p = ex.call('Parser::new', [q, Ptr(Cell(rstr('x' * N)))])
        return ex.call('Parser::parse', [Ptr(Cell(p))])
    def on_path(ex, r):
        stats[r[0]] += 1
        if r[0] == 'ok':
            stats[r[1].variant] += 1
            if r[1].variant == 'Ok' and len(samples) < 12:
                samples.append(([t.variant if t.lazy is None else '?' for t in ex.toks], show_ast(r[1].fields[0].v)[:150]))
    try: n = eng.explore(body, on_path)
    except KeyboardInterrupt: n = -sum(v for k, v in stats.items() if k in ('ok', 'panic', 'abort'))
    print(f'N={N}: paths={n} {dict(stats)} queries={eng.queries} solver_s={eng.qtime:.1f} wall={time.time() - t0:.1f}s')
    for s_ in samples: print('   ', s_)
main()
