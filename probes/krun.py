#!/usr/bin/env python3
"""krun.py <crate_dir> <harness> <timeout_s> [--loop N] [regex:N ...]  -- run kani with per-function recursion bounds"""
import sys,subprocess,json,glob,re,os,time
crate,harness,timeout=sys.argv[1],sys.argv[2],int(sys.argv[3])
rules=[a.rsplit(':',1) for a in sys.argv[4:]]
env=dict(os.environ,CARGO_NET_OFFLINE='true')
t0=time.time()
r=subprocess.run(['cargo','kani','-Z','stubbing','--only-codegen','--harness',harness],cwd=crate,env=env,capture_output=True,text=True)
if r.returncode!=0: print(r.stdout[-3000:],r.stderr[-3000:]); sys.exit(2)
maps=sorted(glob.glob(f'{crate}/target/kani/*/debug/build/*/*/out/*{harness}.pretty_name_map.json'),key=os.path.getmtime)
m=json.load(open(maps[-1]))
us=[]
for k,v in m.items():
    if not v or not k.startswith('_R'): continue
    for rx,n in rules:
        if re.search(rx,v):
            us.append(f'{k}:{n}'); break
print('codegen',round(time.time()-t0,1),'s; unwindset entries',len(us))
cmd=['cargo','kani','-Z','stubbing','-Z','unstable-options','--harness',harness,'--output-format','regular']
if us: cmd+=['--cbmc-args','--unwindset',','.join(us)]
t1=time.time()
try:
    r=subprocess.run(cmd,cwd=crate,env=env,capture_output=True,text=True,timeout=timeout)
    out=r.stdout+r.stderr
except subprocess.TimeoutExpired as e:
    out=(e.stdout or b'').decode() if isinstance(e.stdout,bytes) else (e.stdout or '')
    out+='\nTIMEOUT'
    subprocess.run(['pkill','-9','cbmc'])
i=out.find('VERIFICATION RESULT')
open("/tmp/probe/last.log","w").write(out); print(out[i:][:3000] if i>=0 else out[-600:])
print('total',round(time.time()-t1,1),'s')
