#!/usr/bin/env python3-vt
"""C01 probe: reference evaluator (written from the spec, over the engine's value representation, forking through the same
path executor) compared with the real `interpret` MIR on lazily initialised symbolic documents."""
import sys, os, time, json, collections
sys.path.insert(0, '/tmp/probe')
import z3
import mirsym1 as M, mirsym1_models as MM
from mirsym1 import *
from run1 import load, show_ast
from run2 import mk_runtime
import run3
from run3 import sym_variable, VIDX
run3.NUMS = [0, 1, 2, -1, 1.5]

NULL = lambda: mk_enum('Variable', 'Null', [])
def rc(v): return Ptr(Cell(v), 'rc')
def val(p): return MM.deref_all(p)

# ---- inspection helpers (fork through the executor; partial: only decide what is asked)
def tag_is(ex, v, name):
    v = val(v)
    if v.lazy is None: return v.variant == name
    lz = v.lazy
    if name not in lz.tags: return False
    if ex.choose([(True, lz.tagvar == VIDX[name]), (False, lz.tagvar != VIDX[name])]):
        lz(ex, v, want=name); return True
    return False
def truthy(ex, v):
    v = val(v)
    if tag_is(ex, v, 'Null'): return False
    if tag_is(ex, v, 'Bool'): return MM.pybool(ex, v.fields[0].v)
    if tag_is(ex, v, 'String'): return len(v.fields[0].v.chars) > 0
    if tag_is(ex, v, 'Array'): return len(v.fields[0].v.items) > 0
    if tag_is(ex, v, 'Object'): return len(v.fields[0].v.d) > 0
    return True      # numbers (0 is truthy), exprefs are not JSON
def is_null(ex, v): return tag_is(ex, v, 'Null')

# ---- the reference semantics (JMESPath specification), AST given as the engine's Ast value
def ref_eval(ex, node, data):
    node = val(node); k = node.variant; f = [c.v for c in node.fields]
    if k == 'Identity': return data
    if k == 'Literal': return f[1]
    if k == 'Field':
        name = f[1].concrete()
        if tag_is(ex, data, 'Object'):
            c = val(data).fields[0].v.d.get(name)
            if c is not None: return c.v
        return rc(NULL())
    if k == 'Index':
        i = f[1].concrete()
        if tag_is(ex, data, 'Array'):
            items = val(data).fields[0].v.items
            if i < 0: i += len(items)
            if 0 <= i < len(items): return items[i].v
        return rc(NULL())
    if k == 'Subexpr': return ref_eval(ex, f[2], ref_eval(ex, f[1], data))
    if k == 'Or':
        l = ref_eval(ex, f[1], data)
        return l if truthy(ex, l) else ref_eval(ex, f[2], data)
    if k == 'And':
        l = ref_eval(ex, f[1], data)
        return ref_eval(ex, f[2], data) if truthy(ex, l) else l
    if k == 'Not': return rc(mk_enum('Variable', 'Bool', [Bool(not truthy(ex, ref_eval(ex, f[1], data)))]))
    if k == 'Condition':
        return ref_eval(ex, f[2], data) if truthy(ex, ref_eval(ex, f[1], data)) else rc(NULL())
    if k == 'ObjectValues':
        s_ = ref_eval(ex, f[1], data)
        if not tag_is(ex, s_, 'Object'): return rc(NULL())
        mp = val(s_).fields[0].v
        return rc(mk_enum('Variable', 'Array', [VecV([Cell(mp.d[kk].v) for kk in sorted(mp.d, key=lambda x: x.encode())])]))
    if k == 'Projection':
        l = ref_eval(ex, f[1], data)
        if not tag_is(ex, l, 'Array'): return rc(NULL())
        out = []
        for c in val(l).fields[0].v.items:
            r = ref_eval(ex, f[2], c.v)
            if not is_null(ex, r): out.append(Cell(r))
        return rc(mk_enum('Variable', 'Array', [VecV(out)]))
    if k == 'Flatten':
        l = ref_eval(ex, f[1], data)
        if not tag_is(ex, l, 'Array'): return rc(NULL())
        out = []
        for c in val(l).fields[0].v.items:
            if tag_is(ex, c.v, 'Array'): out.extend(Cell(x.v) for x in val(c.v).fields[0].v.items)
            else: out.append(Cell(c.v))
        return rc(mk_enum('Variable', 'Array', [VecV(out)]))
    if k == 'MultiList':
        if is_null(ex, data): return rc(NULL())
        return rc(mk_enum('Variable', 'Array', [VecV([Cell(ref_eval(ex, e.v, data)) for e in f[1].items])]))
    if k == 'MultiHash':
        if is_null(ex, data): return rc(NULL())
        mp = MapV()
        for e in f[1].items:
            kv = e.v; mp.d[kv.fields[0].v.concrete()] = Cell(ref_eval(ex, kv.fields[1].v, data))
        return rc(mk_enum('Variable', 'Object', [mp]))
    if k == 'Slice':
        if not tag_is(ex, data, 'Array'): return rc(NULL())
        items = val(data).fields[0].v.items
        def o(x):
            x = val(x); return None if x.variant == 'None' else x.fields[0].v.concrete()
        step = f[3].concrete()
        py = [c for c in items][slice(o(f[1]), o(f[2]), step)]
        return rc(mk_enum('Variable', 'Array', [VecV([Cell(c.v) for c in py])]))
    raise Unsupported(f'oracle: node {k}')

def same(ex, a, b, path='$'):
    """structural comparison implementation-result vs oracle-result; returns None or a description of the difference"""
    a, b = val(a), val(b)
    if a is b: return None
    for name in ['Null', 'Bool', 'String', 'Number', 'Array', 'Object']:
        ta, tb = tag_is(ex, a, name), tag_is(ex, b, name)
        if ta != tb: return f'{path}: type differs ({name}: impl={ta} oracle={tb})'
        if ta: break
    else: return None
    if name == 'Null': return None
    if name == 'Bool':
        sat, _ = ex.eng.check(ex.pc + [a.fields[0].v.b != b.fields[0].v.b]); return f'{path}: bool differs' if sat else None
    if name == 'String': return None if a.fields[0].v.concrete() == b.fields[0].v.concrete() else f'{path}: string differs'
    if name == 'Number':
        x, y = a.fields[0].v, b.fields[0].v
        return None if (x.kind, MM.cval(x.val)) == (y.kind, MM.cval(y.val)) else f'{path}: number differs'
    if name == 'Array':
        xa, xb = a.fields[0].v.items, b.fields[0].v.items
        if len(xa) != len(xb): return f'{path}: length {len(xa)} vs {len(xb)}'
        for i, (p, q) in enumerate(zip(xa, xb)):
            d = same(ex, p.v, q.v, f'{path}[{i}]')
            if d: return d
        return None
    if name == 'Object':
        da, db = a.fields[0].v.d, b.fields[0].v.d
        if set(da) != set(db): return f'{path}: keys {sorted(da)} vs {sorted(db)}'
        for kk in da:
            d = same(ex, da[kk].v, db[kk].v, f'{path}.{kk}')
            if d: return d
        return None

def main():
    prog = load(); eng = Engine(prog)
    depth = int(sys.argv[1]); exprs = sys.argv[2:]
    tot = collections.Counter()
    for expr in exprs:
        ex0 = PathExec(eng, [])
        r = ex0.call('parse', [Ptr(Cell(rstr(expr)))]); assert r.variant == 'Ok', expr
        ast = r.fields[0].v; rtc = mk_runtime(ex0)
        stats = collections.Counter(); diffs = []; t0 = time.time(); q0 = eng.queries
        def body(ex):
            ctx = ex.call('Context::new', [Ptr(Cell(rstr(expr))), Ptr(rtc)])
            doc = sym_variable(ex, depth); ex.doc = doc
            data = Ptr(Cell(doc), 'rc')
            got = ex.call('interpret', [Ptr(Cell(data)), Ptr(Cell(ast)), Ptr(Cell(ctx))])
            if got.variant == 'Err': return 'impl-error'
            want = ref_eval(ex, ast, data)
            return same(ex, got.fields[0].v, want)
        def on_path(ex, r):
            stats[r[0]] += 1
            if r[0] == 'ok' and r[1] is not None:
                sat, m = eng.check(ex.pc); diffs.append((r[1], run3.concretize(ex, ex.doc, m)))
        n = eng.explore(body, on_path)
        print(f'{expr!r}: paths={n} agree={stats["ok"] - len(diffs)} DISAGREE={len(diffs)} other={ {k: v for k, v in stats.items() if k != "ok"} } queries={eng.queries - q0} wall={time.time() - t0:.1f}s')
        for d in diffs[:3]: print('     ', d)
main()
