#!/usr/bin/env python3-vt
"""symbolic-document probe: concrete expression (parsed by the real parser MIR), lazily initialised symbolic document,
all paths explored; a sample of path models is replayed natively and compared with the engine's result."""
import sys, os, time, json, subprocess, collections, math
sys.path.insert(0, '/tmp/probe')
import z3
import mirsym1 as M
import mirsym1_models as MM
from mirsym1 import *
from run1 import load
from run2 import mk_runtime, json_eq

A, KEYS, STRS = 2, ['a', 'b'], ['', 'a', 'b']
LIMIT = 40

VIDX = {'Null': 0, 'String': 1, 'Bool': 2, 'Number': 3, 'Array': 4, 'Object': 5, 'Expref': 6}
NUMS = None   # None: fully symbolic numbers; else list of python numbers to choose from
class LazyVar:
    def __init__(s, ex, depth):
        s.depth = depth
        s.tags = ['Null', 'String', 'Bool', 'Number'] + (['Array', 'Object'] if depth > 0 else [])
        s.tagvar = ex.fresh('tag', 64)
        ex.assume(z3.Or(*[s.tagvar == VIDX[t] for t in s.tags]))
    def __call__(s, ex, me, want=None):
        depth = s.depth
        if want is None:
            lab = ex.choose([(nm, s.tagvar == VIDX[nm]) for nm in s.tags])
        else:
            lab = want; ex.assume(s.tagvar == VIDX[want])
        me.lazy = None; me.variant = lab
        if lab == 'Null': me.fields = []
        elif lab == 'Bool': me.fields = [Cell(Bool(z3.Bool(f'b!{ex.nfresh}_{len(ex.decisions)}')))]
        elif lab == 'String':
            sv = ex.fresh('str', 8); k = ex.choose([(i, sv == i) for i in range(len(STRS))])
            me.fields = [Cell(rstr(STRS[k]))]
        elif lab == 'Number':
            if NUMS is not None:
                nv = ex.fresh('num', 8); k = ex.choose([(i, nv == i) for i in range(len(NUMS))])
                me.fields = [Cell(MM.py_to_variable(NUMS[k]).fields[0].v)]; return
            kv = ex.fresh('nk', 8); kind = ex.choose([(kk, kv == i) for i, kk in enumerate(['pos', 'neg', 'float'])])
            if kind == 'pos': me.fields = [Cell(NumberV('pos', Int(ex.fresh('u', 64), 'u64')))]
            elif kind == 'neg':
                x = ex.fresh('i', 64); ex.assume(x < 0); me.fields = [Cell(NumberV('neg', Int(x, 'i64')))]
            else:
                ex.nfresh += 1; f = z3.FP(f'f!{ex.nfresh}_{len(ex.decisions)}', z3.Float64())
                ex.assume(z3.Not(z3.Or(z3.fpIsNaN(f), z3.fpIsInf(f)))); me.fields = [Cell(NumberV('float', F64(f)))]
        elif lab == 'Array':
            lv = ex.fresh('len', 8); n = ex.choose([(i, lv == i) for i in range(A + 1)])
            me.fields = [Cell(VecV([Cell(Ptr(Cell(sym_variable(ex, depth - 1)), 'rc')) for _ in range(n)]))]
        elif lab == 'Object':
            mp = MapV()
            for k in KEYS:
                pv = ex.fresh('has_' + k, 8)
                if ex.choose([(1, pv == 1), (0, pv == 0)]): mp.d[k] = Cell(Ptr(Cell(sym_variable(ex, depth - 1)), 'rc'))
            me.fields = [Cell(mp)]
def sym_variable(ex, depth):
    return Agg('enum', 'Variable', None, [], lazy=LazyVar(ex, depth))

def concretize(ex, v, model):
    """document value -> Python JSON under the model; unmaterialised lazy parts -> null"""
    v = MM.deref_all(v)
    if v.lazy is not None: return None
    t = v.variant
    if t == 'Null': return None
    if t == 'Bool': return MM.cval(v.fields[0].v, model)
    if t == 'String': return v.fields[0].v.concrete()
    if t == 'Number': return MM.cval(v.fields[0].v.val, model)
    if t == 'Array': return [concretize(ex, c.v, model) for c in v.fields[0].v.items]
    if t == 'Object': return {k: concretize(ex, v.fields[0].v.d[k].v, model) for k in v.fields[0].v.keys()}

def main():
    prog = load(); eng = Engine(prog)
    exprs = sys.argv[2:] or ['a[?b > `1`].c']
    depth = int(sys.argv[1])
    global NUMS
    if os.environ.get('NUMS'): NUMS = json.loads(os.environ['NUMS'])
    native = subprocess.Popen(['/tmp/probe/n2/target/debug/n2'], stdin=subprocess.PIPE, stdout=subprocess.PIPE, text=True)
    for expr in exprs:
        ex0 = PathExec(eng, [])
        r = ex0.call('parse', [Ptr(Cell(rstr(expr)))])
        assert r.variant == 'Ok', r
        stats = collections.Counter(); mism = []; t0 = time.time(); q0 = eng.queries
        ast = r.fields[0].v
        rtc = mk_runtime(ex0)
        def body(ex):
            if time.time() - t0 > LIMIT: raise KeyboardInterrupt
            ctx = ex.call('Context::new', [Ptr(Cell(rstr(expr))), Ptr(rtc)])
            doc = sym_variable(ex, depth)
            ex.doc = doc
            data = Ptr(Cell(doc), 'rc')
            return ex.call('interpret', [Ptr(Cell(data)), Ptr(Cell(ast)), Ptr(Cell(ctx))])
        def on_path(ex, r):
            stats[r[0]] += 1
            if r[0] == 'abort': return
            n = sum(stats.values())
            if n % 7 != 0 and r[0] != 'panic': return        # replay a rotating subset natively
            lz = []
            def walk(v):
                v = MM.deref_all(v)
                if not isinstance(v, Agg): return
                if v.lazy is not None: lz.append(v.lazy.tagvar == 0); return
                if v.variant == 'Array':
                    for c in v.fields[0].v.items: walk(c.v)
                elif v.variant == 'Object':
                    for k in v.fields[0].v.d: walk(v.fields[0].v.d[k].v)
            walk(ex.doc)
            sat, model = eng.check(ex.pc + lz)
            if not sat: stats['replay-skip'] += 1; return
            doc = concretize(ex, ex.doc, model)
            native.stdin.write(json.dumps({'expr': expr, 'doc': doc}) + '\n'); native.stdin.flush()
            nat = json.loads(native.stdout.readline())
            stats['replayed'] += 1
            if r[0] == 'panic':
                if nat['kind'] != 'panic': mism.append((doc, 'engine panic', nat))
                return
            out = r[1]
            if out.variant == 'Err':
                if nat['kind'] != 'err': mism.append((doc, 'engine err', nat))
            else:
                ev = concretize(ex, out.fields[0].v, model)
                if nat['kind'] != 'ok' or not json_eq(ev, nat['value']): mism.append((doc, ev, nat))
        try: n = eng.explore(body, on_path)
        except KeyboardInterrupt: n = -sum(stats.values())
        print(f'{expr!r}: paths={n} {dict(stats)} queries={eng.queries - q0} wall={time.time() - t0:.1f}s mismatches={len(mism)}')
        for m_ in mism[:5]: print('   MISMATCH', m_)

if __name__ == '__main__':
    main()
