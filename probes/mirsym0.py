#!/usr/bin/env python3-vt
"""Throwaway prototype: parse rustc -Zunpretty=mir text, symbolically execute integer code with z3.
Targets: adjust_slice_endpoint, slice (with Vec/slice models)."""
import re, sys, time
import z3

# ---------------------------------------------------------------- parsing
class Fn:
    def __init__(s, name, params, ret, locals_, blocks):
        s.name, s.params, s.ret, s.locals, s.blocks = name, params, ret, locals_, blocks

def split_top(s, sep=','):
    out, depth, cur = [], 0, ''
    i = 0
    instr = False
    while i < len(s):
        c = s[i]
        if instr:
            cur += c
            if c == '\\': cur += s[i+1]; i += 1
            elif c == '"': instr = False
        elif c == '"': instr = True; cur += c
        elif c in '([{<': depth += 1; cur += c
        elif c in ')]}>':
            if c == '>' and i > 0 and s[i-1] in '-=': cur += c
            else: depth -= 1; cur += c
        elif c == sep and depth == 0: out.append(cur.strip()); cur = ''
        else: cur += c
        i += 1
    if cur.strip(): out.append(cur.strip())
    return out

def parse_mir(text):
    fns = {}
    for m in re.finditer(r'^fn (.+?)\((.*?)\) -> (.+?) \{\n(.*?)^\}\n', text, re.S | re.M):
        name, params, ret, body = m.groups()
        locals_ = {}
        for lm in re.finditer(r'^\s+let (?:mut )?(_\d+): (.+);$', body, re.M):
            locals_[lm.group(1)] = lm.group(2)
        ps = []
        for p in split_top(params):
            pm = re.match(r'(_\d+): (.+)$', p)
            if pm: ps.append(pm.group(1)); locals_[pm.group(1)] = pm.group(2)
        blocks = {}
        for bm in re.finditer(r'^    (bb\d+)(?: \(cleanup\))?: \{\n(.*?)^    \}', body, re.S | re.M):
            stmts = [l.strip() for l in bm.group(2).split('\n') if l.strip()]
            blocks[bm.group(1)] = stmts
        fns[name] = Fn(name, ps, ret, locals_, blocks)
    return fns

# ---------------------------------------------------------------- values
INT_BITS = {'i8': 8, 'i16': 16, 'i32': 32, 'i64': 64, 'isize': 64, 'u8': 8, 'u16': 16, 'u32': 32, 'u64': 64, 'usize': 64}
class IntV:
    def __init__(s, bv, ty): s.bv, s.ty = bv, ty
    @property
    def signed(s): return s.ty[0] == 'i'
    def __repr__(s): return f'{s.ty}:{z3.simplify(s.bv)}'
class BoolV:
    def __init__(s, b): s.b = b
class Tuple:
    def __init__(s, items): s.items = list(items)
class Enum:  # concrete variant, fields
    def __init__(s, ty, variant, fields): s.ty, s.variant, s.fields = ty, variant, list(fields)
class SymOpt:  # Option<i32> with symbolic tag
    def __init__(s, tag, payload): s.tag, s.payload = tag, payload
class Ref:
    def __init__(s, cell, path=()): s.cell, s.path = cell, path
class Cell:
    def __init__(s, v=None): s.v = v
class VecV:
    def __init__(s): s.items = []
class SliceV:  # symbolic-length slice of opaque elements
    def __init__(s, length, n_max): s.length, s.n_max = length, n_max
class Opaque:
    def __init__(s, tag): s.tag = tag
    def __repr__(s): return f'<{s.tag}>'

class Panic(Exception): pass
class Unsupported(Exception): pass

class State:
    def __init__(s, pc=None): s.pc = list(pc or [])
    def fork(s): return State(s.pc)

class Engine:
    def __init__(s, fns, max_paths=100000):
        s.fns = fns; s.solver = z3.Solver(); s.queries = 0; s.qtime = 0.0
        s.results = []  # (kind, pc, value)
    def feasible(s, pc):
        t = time.time(); s.solver.push(); s.solver.add(*pc); r = s.solver.check();
        m = s.solver.model() if r == z3.sat else None
        s.solver.pop(); s.queries += 1; s.qtime += time.time() - t
        if r == z3.unknown: raise Unsupported('solver unknown')
        return r == z3.sat, m

    # explore: depth-first over paths, re-executing from scratch with a decision prefix (simple, stateless)
    def run(s, fname, mkargs, on_result):
        stack = [[]]
        npaths = 0
        while stack:
            prefix = stack.pop()
            ex = PathExec(s, prefix)
            args = mkargs(ex)
            try:
                v = ex.call(fname, args)
                kind = 'ret'
            except Panic as p:
                v = str(p); kind = 'panic'
            npaths += 1
            on_result(kind, ex.pc, v, ex)
            for alt in ex.alternatives: stack.append(alt)
        return npaths

class PathExec:
    """Executes one path. Branch decisions follow `prefix`; beyond the prefix the first feasible branch is taken and
    the other feasible ones are recorded as alternatives."""
    def __init__(s, eng, prefix):
        s.eng, s.prefix, s.decisions, s.alternatives, s.pc = eng, prefix, [], [], []
        s.fresh = 0
    def sym(s, name, bits):
        return z3.BitVec(name, bits)
    def choose(s, conds):
        """conds: list of (label, z3 bool). returns chosen label."""
        k = len(s.decisions)
        if k < len(s.prefix):
            lab = s.prefix[k]
            c = dict(conds)[lab]
            s.pc.append(c); s.decisions.append(lab); return lab
        feas = []
        for lab, c in conds:
            if z3.is_true(z3.simplify(c)): feas = [(lab, c)]; break
            if z3.is_false(z3.simplify(c)): continue
            ok, _ = s.eng.feasible(s.pc + [c])
            if ok: feas.append((lab, c))
        if not feas: raise Unsupported('no feasible branch')
        for lab, c in feas[1:]:
            s.alternatives.append(s.decisions + [lab])
        lab, c = feas[0]
        s.pc.append(c); s.decisions.append(lab); return lab

    # ---- places
    def resolve(s, frame, place):
        """returns (getter, setter)"""
        place = place.strip()
        # strip outer parens
        while place.startswith('(') and matching(place, 0) == len(place) - 1:
            place = place[1:-1].strip()
        m = re.match(r'^_\d+$', place)
        if m:
            cell = frame.setdefault(place, Cell())
            return (lambda: cell.v), (lambda v: setattr(cell, 'v', v))
        if place.startswith('*'):
            g, _ = s.resolve(frame, place[1:])
            r = g()
            if not isinstance(r, Ref): raise Unsupported(f'deref of {r}')
            return s.ref_access(r)
        # field: X.N: ty   (after outer paren strip, pattern "(base).N: ty" or "base.N: ty")
        m = re.match(r'^(.*)\.(\d+): (.+)$', place, re.S)
        if m and balanced(m.group(1)):
            base, idx = m.group(1), int(m.group(2))
            g, st = s.resolve(frame, base)
            def get():
                b = g()
                if isinstance(b, Tuple): return b.items[idx]
                if isinstance(b, Enum): return b.fields[idx]
                if isinstance(b, SymOpt): return b.payload
                raise Unsupported(f'field of {b}')
            def set_(v):
                b = g()
                if isinstance(b, Tuple): b.items[idx] = v
                elif isinstance(b, Enum): b.fields[idx] = v
                else: raise Unsupported('field set')
            return get, set_
        m = re.match(r'^(.*) as (\w+)$', place, re.S)
        if m and balanced(m.group(1)):
            return s.resolve(frame, m.group(1))
        m = re.match(r'^(.*)\[(_\d+)\]$', place, re.S)
        if m:
            g, _ = s.resolve(frame, m.group(1)); ig, _ = s.resolve(frame, m.group(2))
            def get():
                b = g()
                if isinstance(b, SliceV): return Opaque(('elem', ig()))
                raise Unsupported('index')
            return get, None
        raise Unsupported(f'place {place}')
    def ref_access(s, r):
        if r.path == ():
            return (lambda: r.cell.v), (lambda v: setattr(r.cell, 'v', v))
        raise Unsupported('ref path')

    # ---- operands / rvalues
    def operand(s, frame, op):
        op = op.strip()
        if op.startswith('copy ') or op.startswith('move '):
            g, _ = s.resolve(frame, op[5:]); return g()
        if op.startswith('const '):
            return s.const(op[6:])
        raise Unsupported(f'operand {op}')
    def const(s, c):
        m = re.match(r'^(-?\d+)_(\w+)$', c)
        if m: return IntV(z3.BitVecVal(int(m.group(1)), INT_BITS[m.group(2)]), m.group(2))
        if c == 'true': return BoolV(z3.BoolVal(True))
        if c == 'false': return BoolV(z3.BoolVal(False))
        if c == '()': return Tuple([])
        raise Unsupported(f'const {c}')
    def rvalue(s, frame, rv, dst_ty):
        rv = rv.strip()
        m = re.match(r'^(Add|Sub|Mul)WithOverflow\((.*)\)$', rv)
        if m:
            a, b = [s.operand(frame, x) for x in split_top(m.group(2))]
            op = m.group(1)
            res = {'Add': a.bv + b.bv, 'Sub': a.bv - b.bv, 'Mul': a.bv * b.bv}[op]
            if op == 'Add': ovf = z3.Not(z3.And(z3.BVAddNoOverflow(a.bv, b.bv, a.signed), z3.BVAddNoUnderflow(a.bv, b.bv) if a.signed else True))
            elif op == 'Sub': ovf = z3.Not(z3.And(z3.BVSubNoOverflow(a.bv, b.bv) if a.signed else True, z3.BVSubNoUnderflow(a.bv, b.bv, a.signed)))
            else: ovf = z3.Not(z3.And(z3.BVMulNoOverflow(a.bv, b.bv, a.signed), z3.BVMulNoUnderflow(a.bv, b.bv) if a.signed else True))
            return Tuple([IntV(res, a.ty), BoolV(ovf)])
        m = re.match(r'^(Eq|Ne|Lt|Le|Gt|Ge)\((.*)\)$', rv)
        if m:
            a, b = [s.operand(frame, x) for x in split_top(m.group(2))]
            op = m.group(1)
            sg = a.signed
            f = {'Eq': lambda: a.bv == b.bv, 'Ne': lambda: a.bv != b.bv,
                 'Lt': lambda: a.bv < b.bv if sg else z3.ULT(a.bv, b.bv), 'Le': lambda: a.bv <= b.bv if sg else z3.ULE(a.bv, b.bv),
                 'Gt': lambda: a.bv > b.bv if sg else z3.UGT(a.bv, b.bv), 'Ge': lambda: a.bv >= b.bv if sg else z3.UGE(a.bv, b.bv)}[op]
            return BoolV(f())
        m = re.match(r'^discriminant\((.*)\)$', rv)
        if m:
            g, _ = s.resolve(frame, m.group(1)); v = g()
            if isinstance(v, SymOpt): return IntV(z3.ZeroExt(56, v.tag), 'isize')
            if isinstance(v, Enum): return IntV(z3.BitVecVal(v.variant, 64), 'isize')
            raise Unsupported('discriminant')
        m = re.match(r'^PtrMetadata\((.*)\)$', rv)
        if m:
            v = s.operand(frame, m.group(1))
            if isinstance(v, Ref): v = v.cell.v
            return IntV(v.length, 'usize')
        m = re.match(r'^(.*) as (\w+) \(IntToInt\)$', rv)
        if m:
            v = s.operand(frame, m.group(1)); ty = m.group(2); nb = INT_BITS[ty]; ob = v.bv.size()
            if nb == ob: bv = v.bv
            elif nb < ob: bv = z3.Extract(nb - 1, 0, v.bv)
            else: bv = z3.SignExt(nb - ob, v.bv) if v.signed else z3.ZeroExt(nb - ob, v.bv)
            return IntV(bv, ty)
        m = re.match(r'^&(mut )?(.*)$', rv)
        if m:
            place = m.group(2).strip()
            pm = re.match(r'^_\d+$', place)
            if pm: return Ref(frame.setdefault(place, Cell()))
            g, _ = s.resolve(frame, place)
            return Ref(Cell(g()))   # prototype: snapshot ref (ok for read-only elems)
        if rv.startswith(('copy ', 'move ', 'const ')): return s.operand(frame, rv)
        raise Unsupported(f'rvalue {rv}')

    # ---- calls
    def call(s, fname, args):
        if fname.startswith('Vec::<') and fname.endswith('::new'): return VecV()
        if fname.startswith('Vec::<') and fname.endswith('::push'):
            args[0].cell.v.items.append(args[1]); return Tuple([])
        if re.match(r'^<Rc<.*> as Clone>::clone$', fname):
            return args[0].cell.v
        fn = s.eng.fns.get(fname)
        if not fn: raise Unsupported(f'call {fname}')
        frame = {}
        for p, a in zip(fn.params, args): frame[p] = Cell(a)
        bb = 'bb0'
        steps = 0
        while True:
            for st in fn.blocks[bb]:
                steps += 1
                if steps > 100000: raise Unsupported('step limit')
                nxt = s.step(fn, frame, st)
                if nxt == 'RETURN': return frame['_0'].v
                if nxt: bb = nxt; break
            else:
                raise Unsupported('fallthrough')
    def step(s, fn, frame, st):
        if st.startswith(('StorageLive', 'StorageDead', 'nop', 'FakeRead', 'PlaceMention', 'Retag', 'Coverage')): return None
        if st == 'return;': return 'RETURN'
        m = re.match(r'^goto -> (bb\d+);$', st)
        if m: return m.group(1)
        m = re.match(r'^switchInt\((.*)\) -> \[(.*)\];$', st)
        if m:
            v = s.operand(frame, m.group(1))
            targets = []
            for t in split_top(m.group(2)):
                k, b = t.split(': ')
                targets.append((k, b))
            if isinstance(v, BoolV): bv = z3.If(v.b, z3.BitVecVal(1, 8), z3.BitVecVal(0, 8))
            else: bv = v.bv
            conds, others = [], []
            for k, b in targets:
                if k == 'otherwise': continue
                c = bv == z3.BitVecVal(int(k), bv.size()); conds.append((b + '#' + k, c)); others.append(z3.Not(c))
            for k, b in targets:
                if k == 'otherwise': conds.append((b + '#o', z3.And(*others) if others else z3.BoolVal(True)))
            lab = s.choose(conds)
            return lab.split('#')[0]
        m = re.match(r'^assert\((!?)(.*?), "(.*?)"(?:, .*?)?\) -> \[success: (bb\d+), unwind.*\];$', st)
        if m:
            neg, opnd, msg, succ = m.groups()
            v = s.operand(frame, opnd)
            ok = z3.Not(v.b) if neg else v.b
            lab = s.choose([('ok', ok), ('fail', z3.Not(ok))])
            if lab == 'fail': raise Panic(msg)
            return succ
        m = re.match(r'^(.+?) = (.*?)\((.*)\) -> \[return: (bb\d+), unwind.*\];$', st)
        if m and not re.match(r'^(Add|Sub|Mul)WithOverflow|^(Eq|Ne|Lt|Le|Gt|Ge)$|^discriminant$|^PtrMetadata$', m.group(2)):
            dst, callee, argstr, ret = m.groups()
            args = [s.operand(frame, a) for a in split_top(argstr)]
            r = s.call(callee.strip(), args)
            _, st_ = s.resolve(frame, dst); st_(r)
            return ret
        m = re.match(r'^(.+?) = (.*);$', st)
        if m:
            dst, rv = m.groups()
            v = s.rvalue(frame, rv, fn.locals.get(dst.strip()))
            _, st_ = s.resolve(frame, dst); st_(v)
            return None
        if st == 'unreachable;': raise Unsupported('reached unreachable')
        raise Unsupported(f'stmt {st}')

def matching(sx, i):
    d = 0
    for j in range(i, len(sx)):
        if sx[j] in '([': d += 1
        elif sx[j] in ')]':
            d -= 1
            if d == 0: return j
    return -1
def balanced(sx):
    d = 0
    for c in sx:
        if c in '([': d += 1
        elif c in ')]': d -= 1
        if d < 0: return False
    return d == 0

if __name__ == '__main__':
    fns = parse_mir(open(sys.argv[1]).read())
    print(len(fns), 'functions parsed')
    eng = Engine(fns)
    NMAX = int(sys.argv[2]) if len(sys.argv) > 2 else 4
    def mkargs(ex):
        length = z3.BitVec('len', 64)
        ex.pc.append(z3.ULE(length, NMAX))
        st_tag, sp_tag = z3.BitVec('start_tag', 8), z3.BitVec('stop_tag', 8)
        ex.pc += [z3.ULE(st_tag, 1), z3.ULE(sp_tag, 1)]
        step = z3.BitVec('step', 32)
        ex.pc.append(step != 0)
        return [Ref(Cell(SliceV(length, NMAX))), SymOpt(st_tag, IntV(z3.BitVec('start', 32), 'i32')), SymOpt(sp_tag, IntV(z3.BitVec('stop', 32), 'i32')), IntV(step, 'i32')]
    stats = {'ret': 0, 'panic': 0}
    panics = []
    def on_result(kind, pc, v, ex):
        stats[kind] += 1
        if kind == 'panic':
            ok, m = eng.feasible(pc)
            panics.append((v, {str(d): m[d] for d in m.decls()}))
    t = time.time()
    n = eng.run('slice', mkargs, on_result)
    print('paths', n, stats, 'queries', eng.queries, 'solver_s', round(eng.qtime, 2), 'wall', round(time.time() - t, 2))
    for p in panics[:5]: print('PANIC', p)
