#!/usr/bin/env python3-vt
"""Token-level CFG of the JMESPath ABNF + memoised recogniser (probe for the C03 oracle).
Terminals = token kinds of lexer.rs. Validated against the compliance suite using the engine's lexer (run1)."""
import sys, json, glob, functools
# nonterminal -> list of alternatives (each a tuple of symbols); terminals are capitalised token kinds
CMP = ['Eq', 'Ne', 'Lt', 'Lte', 'Gt', 'Gte']
G = {
 'expr': [('expr', 'Dot', 'subrhs'), ('expr', 'bracket'), ('bracket',), ('expr', 'cmp', 'expr'), ('expr', 'Or', 'expr'), ('expr', 'And', 'expr'),
          ('expr', 'Pipe', 'expr'), ('Not', 'expr'), ('Lparen', 'expr', 'Rparen'), ('ident',), ('Star',), ('mlist',), ('mhash',), ('Literal',),
          ('func',), ('At',)],
 'subrhs': [('ident',), ('mlist',), ('mhash',), ('func',), ('Star',)],
 'ident': [('Identifier',), ('QuotedIdentifier',)],
 'cmp': [(c,) for c in CMP],
 'mlist': [('Lbracket', 'exprs', 'Rbracket')],
 'exprs': [('expr',), ('expr', 'Comma', 'exprs')],
 'mhash': [('Lbrace', 'kvs', 'Rbrace')],
 'kvs': [('kv',), ('kv', 'Comma', 'kvs')],
 'kv': [('ident', 'Colon', 'expr')],
 'bracket': [('Lbracket', 'Number', 'Rbracket'), ('Lbracket', 'Star', 'Rbracket'), ('Lbracket', 'slice', 'Rbracket'), ('Flatten',), ('Filter', 'expr', 'Rbracket')],
 'slice': [('optnum', 'Colon', 'optnum'), ('optnum', 'Colon', 'optnum', 'Colon', 'optnum')],
 'optnum': [(), ('Number',)],
 'func': [('Identifier', 'Lparen', 'Rparen'), ('Identifier', 'Lparen', 'args', 'Rparen')],
 'args': [('arg',), ('arg', 'Comma', 'args')],
 'arg': [('expr',), ('Ampersand', 'expr')],
}
def accepts(tokens):
    toks = tuple(tokens); n = len(toks)
    import sys; sys.setrecursionlimit(10000)
    @functools.lru_cache(maxsize=None)
    def derives(sym, i, j):
        if sym not in G: return j == i + 1 and toks[i] == sym
        return any(seq(alt, i, j, sym) for alt in G[sym])
    inprog = set()
    @functools.lru_cache(maxsize=None)
    def seq(alt, i, j, head):
        if not alt: return i == j
        first, rest = alt[0], alt[1:]
        # left recursion guard: a left-recursive alternative must consume at least one token in the rest
        lo = i if (first in G and any(a == () for a in G[first])) else i + 1
        for k in range(lo, j + 1):
            if not rest and k != j: continue
            if first == head and k == j: continue          # expr -> expr ... with nothing after: impossible here
            key = (first, i, k)
            if first in G and key in inprog: continue
            if first in G: inprog.add(key)
            try: ok_ = derives(first, i, k)
            finally:
                if first in G: inprog.discard(key)
            if ok_ and seq(rest, k, j, None): return True
        return False
    return n > 0 and derives('expr', 0, n)

if __name__ == '__main__':
    sys.path.insert(0, '/tmp/probe')
    import mirsym1 as M, mirsym1_models as MM
    from mirsym1 import *
    from run1 import load
    prog = load(); eng = Engine(prog)
    def lex(expr):
        ex = PathExec(eng, [])
        r = ex.call('tokenize', [Ptr(Cell(rstr(expr)))])
        if r.variant == 'Err': return None
        return [c.v.fields[1].v.variant for c in r.fields[0].v.items][:-1]
    bad = []; n = 0
    for f in sorted(glob.glob('/repo/jmespath/tests/compliance/*.json')):
        for suite in json.load(open(f)):
            for case in suite['cases']:
                e = case['expression']; n += 1
                toks = lex(e)
                want_ok = case.get('error') != 'syntax'
                got_ok = toks is not None and accepts(toks)
                if want_ok != got_ok: bad.append((f[-16:], e, toks, 'suite says ' + ('valid' if want_ok else 'syntax error')))
    print(n, 'cases;', len(bad), 'disagreements between the CFG oracle and the suite')
    for b in bad[:30]: print('  ', b)
    for e in sys.argv[1:]:
        t = lex(e); print(repr(e), t, accepts(t) if t is not None else 'lex-error')
