use jmespath::{compile, Variable};
fn try_(e: &str, d: &str) {
    let r = std::panic::catch_unwind(|| {
        match compile(e) {
            Err(err) => format!("COMPILE-ERR {:?} off={} line={} col={}", err.reason, err.offset, err.line, err.column),
            Ok(x) => match x.search(Variable::from_json(d).unwrap()) { Ok(v) => format!("OK {}", v), Err(err) => format!("ERR {:?} expr={:?} off={} line={} col={}", err.reason, err.expression, err.offset, err.line, err.column) }
        }
    });
    println!("{:40} {:28} => {:?}", e, d, r.map_err(|_| "PANIC"));
}
fn main() {
    try_("[1::2147483647]", "[1,2,3]");
    try_("[a b]", "{\"a\":1,\"b\":2}");
    try_("[ ]", "[1]");
    try_("length(@ @)", "[1]");
    try_("{a:a b:b}", "{\"a\":1,\"b\":2}");
    try_("to_number('true')", "null");
    try_("to_number('[1]')", "null");
    try_("avg(@)", "[]");
    try_("sum(@)", "[1e308,1e308]");
    try_("`9e307` == `1.79e308`", "null");
    try_("`4503599627370497` == `4503599627370496`", "null");
    try_("\"üü\"\n~", "null");
    try_("sort_by(@, &to_array(@))", "[1,2]");
    try_("max_by(@, &abs(@)) ", "[1,\"a\"]");
    try_("a.[ ]", "{\"a\":1}");
    try_("a[ ]", "{\"a\":1}");
    try_("foo(", "null");
    try_("@.b", "{\"b\":1}");
    try_("a.b()", "{\"b\":1}");
    try_("(a)(@)", "1");
    try_("[-2147483647]", "[1]");
    try_("*.*[0", "[1]");
    try_("abs(`-9007199254740993`)", "null");
    try_("a[*] [0]", "{\"a\":[[1],[2]]}");
    try_("a[*][ b ]", "{\"a\":[{\"b\":1}]}");
}
