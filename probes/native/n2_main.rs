use jmespath::{compile, Variable};
use std::io::{self, BufRead, Write};
fn main() {
    std::panic::set_hook(Box::new(|_| {}));
    let stdin = io::stdin();
    let out = io::stdout();
    for line in stdin.lock().lines() {
        let line = line.unwrap();
        let v: serde_json::Value = serde_json::from_str(&line).unwrap();
        let e = v["expr"].as_str().unwrap().to_string();
        let d = serde_json::to_string(&v["doc"]).unwrap();
        let r = std::panic::catch_unwind(|| {
            match compile(&e) {
                Err(err) => serde_json::json!({"kind":"compile-err","offset":err.offset,"line":err.line,"column":err.column}),
                Ok(x) => match x.search(Variable::from_json(&d).unwrap()) {
                    Ok(v) => serde_json::json!({"kind":"ok","value": serde_json::to_value(&*v).unwrap()}),
                    Err(err) => serde_json::json!({"kind":"err","reason":format!("{:?}", err.reason),"offset":err.offset,"expression":err.expression}),
                }
            }
        });
        let j = match r { Ok(j) => j, Err(_) => serde_json::json!({"kind":"panic"}) };
        let mut o = out.lock();
        writeln!(o, "{}", j).unwrap();
        o.flush().unwrap();
    }
}
