#!/usr/bin/env python3-vt
"""symbolic-character probe for the lexer: L symbolic code points (quotes/backtick/digits/minus excluded here)"""
import sys, time, collections
sys.path.insert(0, '/tmp/probe')
import z3
import mirsym1 as M
import mirsym1_models as MM
from mirsym1 import *
from run1 import load, show_ast
prog = load(); eng = Engine(prog)
L = int(sys.argv[1]); stats = collections.Counter(); t0 = time.time(); samples = []
def body(ex):
    chars = []
    for i in range(L):
        c = z3.BitVec(f'c{i}', 32)
        ex.assume(z3.And(z3.ULE(c, 0x10FFFF), z3.Not(z3.And(z3.UGE(c, 0xD800), z3.ULE(c, 0xDFFF)))))
        for bad in '"\'`-0123456789': ex.assume(c != ord(bad))
        chars.append(Int(c, 'char'))
    ex.chars = chars
    return ex.call('tokenize', [Ptr(Cell(StrV(chars)))])
def on_path(ex, r):
    stats[r[0]] += 1
    if r[0] == 'ok':
        stats[r[1].variant] += 1
        if r[1].variant == 'Ok' and len(samples) < 10:
            sat, m = eng.check(ex.pc)
            txt = ''.join(chr(m.eval(c.bv, model_completion=True).as_long()) for c in ex.chars)
            samples.append((txt, [show_ast(c.v.fields[1].v) for c in r[1].fields[0].v.items]))
    else: samples.append(r)
try: n = eng.explore(body, on_path)
except Unsupported as e: print('UNSUPPORTED', str(e)[:300]); n = -1
print(f'L={L}: paths={n} {dict(stats)} queries={eng.queries} solver_s={eng.qtime:.1f} wall={time.time() - t0:.1f}s')
for s_ in samples[:10]: print('   ', str(s_)[:200])
