#!/usr/bin/env python3-vt
"""C03 probe: parser on N symbolic tokens; oracle = ABNF-as-CFG membership encoded as an SMT term over the token-kind
variables; per path the query  PC AND (accepted != member(kinds))  must be unsat."""
import sys, os, time, json, collections, functools
sys.path.insert(0, '/tmp/probe')
import z3
import mirsym1 as M, mirsym1_models as MM
from mirsym1 import *
from run1 import load, show_ast
from cfg import G
from run4 import LazyTok

def member_term(kinds, decls):
    """kinds: list of (python str | z3 BitVec tagvar). returns z3 Bool: token sequence derives 'expr'"""
    n = len(kinds)
    def is_t(i, name):
        k = kinds[i]
        if isinstance(k, str): return z3.BoolVal(k == name)
        return k == decls.variant_index('Token', name)
    @functools.lru_cache(maxsize=None)
    def d(sym, i, j):
        if sym not in G: return is_t(i, sym) if j == i + 1 else z3.BoolVal(False)
        return z3.simplify(z3.Or(*[seq(alt, i, j) for alt in G[sym]])) if G[sym] else z3.BoolVal(False)
    def nullable(sym): return sym in G and any(a == () for a in G[sym])
    @functools.lru_cache(maxsize=None)
    def seq(alt, i, j):
        if not alt: return z3.BoolVal(i == j)
        first, rest = alt[0], alt[1:]
        if not rest: return d(first, i, j) if (j > i or nullable(first)) else z3.BoolVal(False)
        minrest = sum(0 if nullable(x) else 1 for x in rest)
        lo = i if nullable(first) else i + 1
        terms = []
        for k in range(lo, j - minrest + 1):
            if k == j and first in G and first == 'expr' and False: continue
            a = d(first, i, k) if k > i or nullable(first) else z3.BoolVal(False)
            if z3.is_false(a): continue
            b = seq(rest, k, j)
            if z3.is_false(b): continue
            terms.append(z3.And(a, b))
        return z3.Or(*terms) if terms else z3.BoolVal(False)
    return d('expr', 0, n) if n else z3.BoolVal(False)

def main():
    prog = load(); eng = Engine(prog)
    N = int(sys.argv[1]); LIMIT = float(sys.argv[2]) if len(sys.argv) > 2 else 120
    kinds = [v for v, _ in prog.decls.enums['Token'] if v != 'Eof']
    names = [v for v, _ in prog.decls.enums['Token']]
    stats = collections.Counter(); t0 = time.time(); cex = collections.OrderedDict()
    def body(ex):
        if time.time() - t0 > LIMIT: raise KeyboardInterrupt
        q = VecV(); ex.toks = []
        for i in range(N):
            tok = Agg('enum', 'Token', None, [], lazy=LazyTok(ex, kinds, prog.decls))
            ex.toks.append((tok, tok.lazy.tagvar))
            q.items.append(Cell(Agg('tuple', None, None, [Cell(Int(i, 'usize')), Cell(tok)])))
        q.items.append(Cell(Agg('tuple', None, None, [Cell(Int(N, 'usize')), Cell(mk_enum('Token', 'Eof', []))])))
        p = ex.call('Parser::new', [q, Ptr(Cell(rstr('x' * N)))])
        return ex.call('Parser::parse', [Ptr(Cell(p))])
    def on_path(ex, r):
        stats[r[0]] += 1
        if r[0] != 'ok': return
        accepted = r[1].variant == 'Ok'
        ks = [tv for (_, tv) in ex.toks]
        mem = member_term(tuple(ks), prog.decls) if False else member_term_cached(ks)
        sat, m = eng.check(ex.pc + [mem != z3.BoolVal(accepted)])
        stats['oracle-queries'] += 1
        if sat:
            seqn = tuple(names[m.eval(k, model_completion=True).as_long()] for k in ks)
            cls = ('ACCEPTS-NON-SENTENCE' if accepted else 'REJECTS-SENTENCE')
            stats[cls] += 1
            cex.setdefault((cls, seqn), show_ast(r[1].fields[0].v)[:100] if accepted else None)
        else: stats['agree-proved'] += 1
    cache = {}
    def member_term_cached(ks):
        key = tuple(k.get_id() for k in ks)   # tag variables differ per path by name -> rebuild; structure identical
        return member_term(tuple(ks), prog.decls)
    try: n = eng.explore(body, on_path)
    except KeyboardInterrupt: n = -stats['ok']
    print(f'N={N}: paths={n} {dict(stats)} queries={eng.queries} solver_s={eng.qtime:.1f} wall={time.time() - t0:.1f}s')
    for (cls, seqn), ast in list(cex.items())[:40]: print('   ', cls, ' '.join(seqn), '=>', ast)
main()
