#!/usr/bin/env python3-vt
"""C09 probe: raw-string literal of symbolic content s (L code points): tokenize("'" + spell(s) + "'") == Literal(String(s))"""
import sys, time, collections
sys.path.insert(0, '/tmp/probe')
import z3
import mirsym1 as M, mirsym1_models as MM
from mirsym1 import *
from run1 import load, show_ast
prog = load(); eng = Engine(prog)
L = int(sys.argv[1]); RESTRICT = len(sys.argv) > 2
stats = collections.Counter(); t0 = time.time(); bad = []
def body(ex):
    cs = []
    for i in range(L):
        c = z3.BitVec(f'c{i}', 32)
        ex.assume(z3.And(z3.ULE(c, 0x10FFFF), z3.Not(z3.And(z3.UGE(c, 0xD800), z3.ULE(c, 0xDFFF)))))
        cs.append(c)
    if RESTRICT:      # spellable strings: no backslash directly before a quote, none at the end
        for i in range(L):
            nxt_is_quote = (cs[i + 1] == ord("'")) if i + 1 < L else z3.BoolVal(True)
            ex.assume(z3.Not(z3.And(cs[i] == ord('\\'), nxt_is_quote)))
    ex.cs = cs
    spelled = ["'"]
    for c in cs:
        if ex.branch_bool(Bool(c == ord("'"))): spelled += ['\\', "'"]
        else: spelled.append(Int(c, 'char'))
    spelled.append("'")
    return ex.call('tokenize', [Ptr(Cell(StrV(spelled)))])
def on_path(ex, r):
    stats[r[0]] += 1
    if r[0] != 'ok': return
    res = r[1]
    def witness(extra=()):
        sat, m = eng.check(ex.pc + list(extra))
        return ''.join(chr(m.eval(c, model_completion=True).as_long()) for c in ex.cs) if sat else None
    if res.variant == 'Err': stats['Err'] += 1; bad.append(('rejected', witness())); return
    toks = res.fields[0].v.items
    if len(toks) != 2: stats['wrong-count'] += 1; bad.append(('token count %d' % len(toks), witness())); return
    tok = toks[0].v.fields[1].v
    if tok.variant != 'Literal': bad.append(('not literal', witness())); return
    var = MM.deref_all(tok.fields[0].v)
    got = var.fields[0].v.chars
    if len(got) != L: stats['wrong-len'] += 1; bad.append(('length %d' % len(got), witness())); return
    diff = z3.Or(*[(g.bv if isinstance(g, Int) else z3.BitVecVal(ord(g), 32)) != c for g, c in zip(got, ex.cs)]) if L else z3.BoolVal(False)
    sat, m = eng.check(ex.pc + [diff])
    if sat: stats['differs'] += 1; bad.append(('content differs', witness([diff])))
    else: stats['equal-proved'] += 1
n = eng.explore(body, on_path)
print(f'L={L} restrict={RESTRICT}: paths={n} {dict(stats)} queries={eng.queries} solver_s={eng.qtime:.1f} wall={time.time() - t0:.1f}s')
for b in bad[:6]: print('   COUNTEREXAMPLE', b)
