"""C12 — errors are classified and located truthfully.
K: JmespathError::new over every UTF-8 string of <= 4 bytes (real std code in the formula).
M: JmespathError::new + Display on symbolic code-point strings; compile errors along rejecting parser/lexer paths; runtime error offsets."""
import z3, json, time
from mirsym.core import *
from mirsym import models as MM, sym as SY
from vf import explore as XP, par, kani as K
from vf.explore import Summary
from .common import *

PROG = None; SEED = 0

def utf8w(c): return z3.If(z3.ULT(c, 0x80), z3.BitVecVal(1, 64), z3.If(z3.ULT(c, 0x800), z3.BitVecVal(2, 64), z3.If(z3.ULT(c, 0x10000), z3.BitVecVal(3, 64), z3.BitVecVal(4, 64))))

def job_errnew(item):
    """JmespathError::new(expr, offset, _) with expr = L symbolic code points, offset = byte position of the k-th char boundary"""
    L, k, deadline = item
    prog = PROG; eng = Engine(prog); eng.deadline = deadline; S = Summary(); XP.init_decls(prog)
    def body(ex):
        chars = SY.sym_chars(ex, L); ex.u_chars = chars
        off = z3.BitVecVal(0, 64)
        for c in chars[:k]: off = off + utf8w(c.bv)
        ex.u_off = off
        reason = mk_enum('ErrorReason', 'Parse', [rstr('x')])
        e = ex.call('JmespathError::new', [Ptr(Cell(StrV(chars))), Int(z3.simplify(off), 'usize'), reason])
        return e
    def wit(ex, extra):
        sat, m = eng.check(ex.pc + extra)
        if not sat: return None
        s_ = ''.join(chr(mval(m, c.bv, False)) for c in ex.u_chars)
        return {'expr': s_, 'offset': mval(m, ex.u_off, False)}
    def on_path(ex, r):
        S['paths'] += 1; S['outcomes'][r[0]] += 1
        if r[0] == 'abort': return
        if r[0] == 'unsupported': S.inconclusive('errnew: ' + XP.short_unsupported(r[1])); return
        if r[0] == 'panic':
            w = wit(ex, [])
            if w: S.cand('errnew-panic', f'JmespathError::new panics: {r[1]}', w, dict(op='errnew', **w), expected='no panic')
            return
        e = r[1]
        line, col, offv = XP.err_field(e, 'line'), XP.err_field(e, 'column'), XP.err_field(e, 'offset')
        # expected, as z3 terms over the symbolic characters
        el = z3.BitVecVal(0, 64); ec = z3.BitVecVal(0, 64)
        for c in ex.u_chars[:k]:
            nl = c.bv == 10
            el = z3.If(nl, el + 1, el); ec = z3.If(nl, z3.BitVecVal(0, 64), ec + 1)
        bad = z3.Or(line.bv != el, col.bv != ec, offv.bv != ex.u_off)
        # ---- rendering: Display for JmespathError shows reason, coordinates, the expression and a caret under the column on the right line
        try:
            fm = MM.FormatterV(); f = prog.by_key.get(('Display', 'JmespathError', 'fmt'))
            ex.run_fn(f, [Ptr(Cell(e)), Ptr(Cell(fm))])
            sat0, m0 = eng.check(ex.pc)
            if sat0:
                txt = ''.join(c if isinstance(c, str) else chr(mval(m0, c.bv, False)) for c in fm.chars)
                expr_txt = ''.join(chr(mval(m0, c.bv, False)) for c in ex.u_chars)
                ln, cl = line.concrete(), col.concrete()
                if ln is None: ln = mval(m0, line.bv, False)
                if cl is None: cl = mval(m0, col.bv, False)
                head = f'Parse error: x (line {ln}, column {cl})\n'
                body_lines = (expr_txt if expr_txt.endswith('\n') or True else expr_txt).split('\n')
                want_lines = []
                placed = False
                for i, l_ in enumerate(body_lines):
                    want_lines.append(l_)
                    if i == ln and i < len(body_lines) - 1: want_lines.append(' ' * cl + '^'); placed = True
                want = head + '\n'.join(want_lines) + ('' if placed else '\n' + ' ' * cl + '^\n')
                if placed and not want.endswith('\n'): pass
                norm = lambda t: t.rstrip('\n')
                if norm(txt) != norm(want):
                    S.cand('c12:rendering', 'the rendered message does not show reason, coordinates and a caret under the reported column on the reported line', {'expr': expr_txt, 'offset': mval(m0, ex.u_off, False), 'rendered': txt, 'expected': want}, dict(op='errnew', expr=expr_txt, offset=mval(m0, ex.u_off, False)), expected=want)
                else: S['vacuity']['rendering agrees'] = True
        except Unsupported as u:
            S.inconclusive('rendering: ' + XP.short_unsupported(str(u)))
        w = wit(ex, [bad])
        if w is not None:
            S.cand('error-coordinates', 'line/column are not the zero-based line and character column of the byte offset', w, dict(op='errnew', **w), expected=None)
        else:
            S['vacuity']['errnew agrees'] = True
            if (S['paths'] + SEED) % 5 == 0:
                w2 = wit(ex, [])
                sat, m = eng.check(ex.pc)
                a = XP.worker_native().request(dict(op='errnew', **w2))
                # re-evaluate engine result under the same model as the witness is not guaranteed; compare against python expectation instead
                pre = w2['expr'].encode('utf-8')[:w2['offset']].decode('utf-8')
                if a.get('kind') == 'ok' and a['line'] == pre.count('\n') and a['column'] == len(pre.split('\n')[-1]): S['replayed'] += 1
                else: S['mismatches'].append({'harness': 'errnew', 'input': w2, 'native': a})
                S.sample({'harness': 'JmespathError::new', **w2, 'line': a.get('line'), 'column': a.get('column')}, cap=3)
    n, rest = eng.explore(body, on_path)
    if rest: S.inconclusive(f'errnew L={L} k={k}: deadline hit')
    S.absorb_engine(eng)
    return S

SLICE_EXPRS = ['a[::0]', 'a[::0].b', 'a[::0].b.c', 'a[1:2:0][0]', '[::0]', '[::0].a.b', 'a.b[::0] | c', 'a[*].b[::0].c', '[a[::0].b, c]', 'a[?b[::0].a]', 'length(a[::0].b)', 'a[::0][*].b', 'a[::0][?b]', 'a || b[:1:0].a.b']
def job_sliceoff(item):
    """an invalid-slice error points into the offending slice: offset within the brackets of the zero-step slice"""
    expr, deadline = item
    prog = PROG; eng = Engine(prog); eng.deadline = deadline; S = Summary(); XP.init_decls(prog)
    ex0 = PathExec(eng, []); rtc = XP.mk_runtime(ex0)
    r0 = XP.parse_expr(ex0, expr)
    if r0.variant != 'Ok': S.inconclusive(f'slice-offset: {expr!r} does not compile'); return S
    ast = r0.fields[0].v
    import re as _re
    m_ = _re.search(r'\[[^\[\]]*:0\]', expr); lb, rb = m_.start(), m_.end() - 1
    spec = SY.DocSpec(depth=2, A=1, keys=('a', 'b'), strs=('a',), nums=[1])
    def body(ex):
        doc = SY.sym_variable(ex, spec); ex.doc = doc
        return XP.interpret(ex, ast, SY.rc(doc), expr, rtc)
    def on_path(ex, r):
        S['paths'] += 1; S['outcomes'][r[0]] += 1
        if r[0] != 'ok':
            if r[0] == 'unsupported': S.inconclusive(f'slice-offset {expr!r}: ' + XP.short_unsupported(r[1]))
            return
        out = r[1]
        if out.variant != 'Err' or XP.reason_kind(out.fields[0].v) != 'invalid-slice': return
        off = XP.err_field(out.fields[0].v, 'offset').concrete()
        S['vacuity']['invalid slice reached'] = True
        if off is None or not (lb <= off <= rb):
            acc = []; SY.lazy_null_constraints(ex.doc, acc, 'Bool')
            sat, m = SY.check_pinned(eng, ex.pc, acc)
            if sat:
                d = SY.tagged(ex, ex.doc, m, 'Bool')
                S.cand('c12:slice-error-offset', f'{expr}: the invalid-slice error points at offset {off}, outside the offending slice [{lb}..{rb}]', {'expr': expr, 'doc': d}, {'op': 'search', 'expr': expr, 'doc': d}, expected={'offset_within': [lb, rb]})
        elif S['paths'] % 3 == 0: S.sample({'harness': 'slice error offset', 'expr': expr, 'offset': off}, cap=1)
    n, rest = eng.explore(body, on_path, max_paths=3000)
    S.absorb_engine(eng)
    return S

WS_EXPRS = [' abs(a)', 'abs(a) ', '  a | abs(@)  ', '\n  a |\n  abs(@)\n', '\tnosuch(a)', ' a[::0] ', ' length(a, b)\n', '\n\nsort_by(a, &b)', ' é | abs(a) ', 'abs (a)', 'nope\n  (@)', 'a | length  (@, @)', 'é.abs\t(@)']
def job_compiled(item):
    """errors of searches made through Runtime::compile + Expression::search (the public path): the error carries the ORIGINAL expression text and
    its offset is the opening parenthesis of the failing call / lies in the slice, in that text"""
    expr, deadline = item
    prog = PROG; eng = Engine(prog); eng.deadline = deadline; S = Summary(); XP.init_decls(prog)
    ex0 = PathExec(eng, []); rtc = XP.mk_runtime(ex0)
    spec = SY.DocSpec(depth=1, A=1, keys=('a', 'b'), strs=('a',), nums=[1])
    import re as _re
    def body(ex):
        c = ex.call('Runtime::compile', [Ptr(rtc), Ptr(Cell(rstr(expr)), 'ref')])
        if c.variant != 'Ok': return ('compile-err', c.fields[0].v)
        doc = SY.sym_variable(ex, spec); ex.doc = doc
        return ('searched', ex.call('Expression::search', [Ptr(Cell(c.fields[0].v)), SY.rc(doc)]))
    def on_path(ex, r):
        S['paths'] += 1; S['outcomes'][r[0]] += 1
        if r[0] != 'ok':
            if r[0] == 'unsupported': S.inconclusive(f'compiled {expr!r}: ' + XP.short_unsupported(r[1]))
            return
        kind, out = r[1]
        e = out if kind == 'compile-err' else (out.fields[0].v if out.variant == 'Err' else None)
        if e is None: return
        S['vacuity']['public-path error reached'] = True
        etext = XP.err_field(e, 'expression').concrete(); off = XP.err_field(e, 'offset').concrete()
        rk = XP.reason_kind(e)
        bad = None
        if etext != expr: bad = f'the error carries the expression {etext!r}, not the text that was compiled'
        elif off is None or off > len(expr.encode()): bad = f'offset {off} lies outside the expression'
        elif rk in ('unknown-function', 'not-enough-arguments', 'too-many-arguments', 'invalid-type', 'invalid-return-type'):
            b = expr.encode()
            if off >= len(b) or b[off:off + 1] != b'(': bad = f'runtime error offset {off} is not the opening parenthesis of a call'
        elif rk == 'invalid-slice':
            m_ = _re.search(r'\[[^\[\]]*:0\]', expr)
            if not (m_.start() <= len(expr[:0].encode()) + off <= m_.end()): bad = f'invalid-slice offset {off} outside the slice'
        ln, col = XP.err_field(e, 'line').concrete(), XP.err_field(e, 'column').concrete()
        if bad is None and off is not None:
            wl, wc = py_linecol(expr, off)
            if (ln, col) != (wl, wc): bad = f'line/column ({ln},{col}) are not those of offset {off} ({wl},{wc})'
        if bad:
            d = None
            if hasattr(ex, 'doc'):
                acc = []; SY.lazy_null_constraints(ex.doc, acc)
                sat, m = SY.check_pinned(eng, ex.pc, acc)
                if sat: d = SY.tagged(ex, ex.doc, m)
            S.cand('c12:public-path-error', f'{expr!r}: {bad}', {'expr': expr, 'doc': d}, {'op': 'search', 'expr': expr, 'doc': d}, expected={'expression': expr})
    n, rest = eng.explore(body, on_path, max_paths=2000)
    S.absorb_engine(eng)
    return S

def task(item):
    if item[0] == 'errnew': return job_errnew(item[1:])
    if item[0] == 'sliceoff': return job_sliceoff(item[1:])
    if item[0] == 'compiled': return job_compiled(item[1:])
    if item[0] == 'parse':
        from . import parsejob as PJ, grammar as GR
        _, first, n, dl = item
        return PJ.parser_job(PROG, [[first]] + [GR.TOKENS] * (n - 1), dl, seed=SEED, want_trees=False, label=f'N={n} first={first}')
    if item[0] == 'call':
        from . import funcjob as FJ
        _, name, lists, dl, mode = item
        return FJ.call_job(PROG, name, lists, dl, seed=SEED, mode=mode)
    if item[0] == 'num':
        from . import c02 as C02
        C02.PROG = PROG; C02.SEED = SEED
        return C02.job_numeric(item[1:])

def py_linecol(s, off):
    pre = s.encode('utf-8')[:off].decode('utf-8', errors='replace')
    return pre.count('\n'), len(pre.split('\n')[-1])

def confirm(c, nd, nr):
    if c['key'] == 'c12:token-position':
        from . import pubconfirm as PC
        return PC.confirm_token_position(c['witness']['expr'], nd)
    obs = {'dev': nd.request(c['request']), 'release': nr.request(c['request'])}
    if c['key'].endswith('panic'): return any(o.get('kind') in ('panic', 'abort', 'hang') for o in obs.values()), obs
    if c['key'] == 'c12:rendering':
        return any(o.get('kind') != 'ok' or o.get('display', '').rstrip('\n') != c['expected'].rstrip('\n') for o in obs.values()), obs
    if c['request']['op'] == 'errnew':
        l, col = py_linecol(c['request']['expr'], c['request']['offset'])
        c['expected'] = {'line': l, 'column': col}
        return any(o.get('kind') != 'ok' or (o['line'], o['column']) != (l, col) for o in obs.values()), obs
    d = obs['dev']
    if c['key'] in ('c12:runtime-error-as-parse', 'c12:nonfinite-result-as-parse'): return d.get('kind') == 'err' and d.get('reason_kind') == 'parse', obs
    if c['key'] == 'c12:compile-error-not-parse': return d.get('kind') == 'compile-err' and d.get('reason_kind') != 'parse', obs
    if c['key'] == 'c12:error-expression': return d.get('kind') in ('err', 'compile-err') and d.get('expression') != c['request']['expr'], obs
    if c['key'] == 'c12:public-path-error':
        def bad(o):
            if o.get('kind') not in ('err', 'compile-err'): return False
            e = c['request']['expr']
            if o.get('expression') != e: return True
            l_, c_ = py_linecol(e, o.get('offset', 0))
            if (o.get('line'), o.get('column')) != (l_, c_): return True
            if o.get('reason_kind') in ('unknown-function', 'not-enough-arguments', 'too-many-arguments', 'invalid-type', 'invalid-return-type'): return e.encode()[o['offset']:o['offset'] + 1] != b'('
            return False
        return any(bad(o) for o in obs.values()), obs
    if c['key'] == 'c12:slice-error-offset':
        lo, hi = c['expected']['offset_within']
        return d.get('kind') == 'err' and d.get('reason_kind') == 'invalid-slice' and not (lo <= d.get('offset', -1) <= hi), obs
    if c['key'] == 'c12:runtime-error-offset':
        # the failing call is the outermost call of the request expression unless the engine says it is the nested one: its '(' position
        e = c['request']['expr']; want = e.index('(')
        return d.get('kind') == 'err' and d.get('offset') != want and 'the failing call is at 7' in c['what'], obs
    if c['key'] in ('c12:compile-error-offset', 'c12:lexer-error-offset'):
        from . import pubconfirm as PC
        ref = PC.reference_compile(c['request']['expr'])
        if c['key'] == 'c12:lexer-error-offset': return ref[0] == 'err' and ref[1] is not None and d.get('kind') == 'compile-err' and d.get('offset') != ref[1], obs
        e = c['request']['expr']; off = d.get('offset')
        starts = set(); i = 0
        import re as _re
        for m_ in _re.finditer(r'\S+', e): starts.add(m_.start())
        starts.add(len(e))
        return d.get('kind') == 'compile-err' and (off is None or off > len(e.encode()) or off not in starts), obs
    return False, obs

def kani_candidates(run, results):
    for r in results:
        if not r['failed']: continue
        vals = r.get('values')
        nb = 4 if r['harness'] == 'c12_line_column' else 2
        if vals and len(vals) >= nb + 2:
            bs = bytes(v[0] for v in vals[:nb]); n = K.le(vals[nb]); off = K.le(vals[nb + 1])
            try: s_ = bs[:n].decode('utf-8')
            except Exception: s_ = None
            if s_ is not None:
                run.cands.append({'key': 'error-coordinates', 'what': 'Kani: ' + '; '.join(c['desc'] for c in r['failed']), 'witness': {'expr': s_, 'offset': off},
                                  'request': {'op': 'errnew', 'expr': s_, 'offset': off}, 'expected': None})
                continue
        run.note_inconclusive(f"kani {r['harness']} failed ({[c['desc'] for c in r['failed']]}) but no concrete values could be extracted")

def run(run):
    global PROG, SEED
    PROG = run.program(); XP.init_decls(PROG); SEED = run.seed
    run.native('dev')
    XP.run_translator_validation(run, PROG, every=8 if run.tier == 'quick' else 1)
    L = 4 if run.tier == 'quick' else 6
    run.bounds = {'JmespathError::new (M)': f'strings of exactly 1..{L} symbolic Unicode scalar values (all of Unicode per position), offset = every character boundary',
                  'JmespathError::new (K)': 'every UTF-8 string of <= 4 bytes and every char-boundary offset, real std code'}
    run.outside = ['strings longer than the bounds', 'offsets that are not on a character boundary (the property requires boundary offsets)']
    run.assumes = ['offset is a byte offset on a character boundary (as produced by the lexer: char_indices positions)']
    jobs = [('errnew', l, k, run.deadline) for l in range(1, L + 1) for k in range(l + 1)]
    # compile errors along every rejecting parser path (N <= 3 tokens) and lexer path; runtime errors of built-in calls
    from . import grammar as GR, funcjob as FJ, lexjob as LJ
    quick = run.tier == 'quick'
    N = 3 if quick else 4
    jobs += [('parse', k, n, run.deadline) for n in range(N, 0, -1) for k in GR.TOKENS]
    U = FJ.universes(2)
    for name in ('sort_by', 'max_by', 'min_by', 'map', 'abs', 'length', 'merge', 'not_null', 'join', 'avg', 'sum', 'to_number'):
        lists = U[name]
        if name in ('sort_by', 'max_by', 'min_by'): lists = [lists[0][::7] if quick else lists[0][::2], lists[1]]
        jobs.append(('call', name, lists, run.deadline, 'values'))
    jobs += [('call', name, [FJ.ANY] * n, run.deadline, 'table') for name in ('abs', 'contains', 'sort_by', 'nosuch', 'merge') for n in (0, 1, 2, 3)]
    jobs += [('call', 'sum', [[[1e308, 1e308], [1e308, -1e308], [1, 2]]], run.deadline, 'values'), ('call', 'avg', [[[1e308, 1e308, 1e308], [1]]], run.deadline, 'values')]
    jobs += [('sliceoff', e, run.deadline) for e in SLICE_EXPRS]
    jobs += [('compiled', e, run.deadline) for e in WS_EXPRS]
    run.bounds['compile errors'] = f'every rejecting path of Parser::parse on <= {N} symbolic tokens and of Lexer::tokenize on <= 2 symbolic code points (+ templates): reason is Parse, offset is the start of a token / the offending lexeme, the expression text is carried'
    run.bounds['runtime errors'] = 'built-in calls (by-functions with nested calls inside expression references, arity/type/unknown-function errors for a sample of functions x 11 type representatives): Runtime kind, expression text, offset = opening parenthesis of the failing call'
    run.bounds['rendering'] = 'Display for JmespathError executed from its MIR on every JmespathError::new path: reason, (line l, column c), expression, caret line'
    run_jobs(run, jobs, task, 'mirsym: JmespathError::new + Display on symbolic strings; rejecting parser paths; runtime errors of calls')
    D = ('digit',)
    import time as _t
    run.deadline = max(run.deadline, _t.time() + (60 if run.tier == 'quick' else 900))      # each phase gets its own slice of the budget
    LJ.run_sharded(run, PROG, [[None], [None, None], ['a', None, None], ["'", None, None], ['"', None, '"'], ['`', None, '`'], ['é', None, None], ['\n', None, None], ['a', '\n', 'é', None], ['-'] + [D] * 11, ['a', '[', '-'] + [D] * 11, ['é', '-', None], ['a', '=', None], ['a', '"', None], ['é', "'", None]], 'mirsym: lexer error positions on symbolic code points', keyprefix='c12x')
    run.cands = [c for c in run.cands if c['key'].startswith('c12:') or c['key'] in ('error-coordinates', 'errnew-panic')]
    res = K.run_harnesses(run, ['c12_line_column_small', 'c12_line_column'], timeout=420 if run.tier == 'quick' else 1800)
    kani_candidates(run, res)
    run.confirm_all(confirm)
