"""C12 — errors are classified and located truthfully.
K: JmespathError::new over every UTF-8 string of <= 4 bytes (real std code in the formula).
M: JmespathError::new + Display on symbolic code-point strings; compile errors along rejecting parser/lexer paths; runtime error offsets."""
import z3, json, time
from mirsym.core import *
from mirsym import models as MM, sym as SY
from vf import explore as XP, par, kani as K
from vf.explore import Summary
from .common import *

PROG = None; SEED = 0

def utf8w(c): return z3.If(z3.ULT(c, 0x80), z3.BitVecVal(1, 64), z3.If(z3.ULT(c, 0x800), z3.BitVecVal(2, 64), z3.If(z3.ULT(c, 0x10000), z3.BitVecVal(3, 64), z3.BitVecVal(4, 64))))

def job_errnew(item):
    """JmespathError::new(expr, offset, _) with expr = L symbolic code points, offset = byte position of the k-th char boundary"""
    L, k, deadline = item
    prog = PROG; eng = Engine(prog); eng.deadline = deadline; S = Summary(); XP.init_decls(prog)
    def body(ex):
        chars = SY.sym_chars(ex, L); ex.u_chars = chars
        off = z3.BitVecVal(0, 64)
        for c in chars[:k]: off = off + utf8w(c.bv)
        ex.u_off = off
        reason = mk_enum('ErrorReason', 'Parse', [rstr('x')])
        e = ex.call('JmespathError::new', [Ptr(Cell(StrV(chars))), Int(z3.simplify(off), 'usize'), reason])
        return e
    def wit(ex, extra):
        sat, m = eng.check(ex.pc + extra)
        if not sat: return None
        s_ = ''.join(chr(mval(m, c.bv, False)) for c in ex.u_chars)
        return {'expr': s_, 'offset': mval(m, ex.u_off, False)}
    def on_path(ex, r):
        S['paths'] += 1; S['outcomes'][r[0]] += 1
        if r[0] == 'abort': return
        if r[0] == 'unsupported': S.inconclusive('errnew: ' + XP.short_unsupported(r[1])); return
        if r[0] == 'panic':
            w = wit(ex, [])
            if w: S.cand('errnew-panic', f'JmespathError::new panics: {r[1]}', w, dict(op='errnew', **w), expected='no panic')
            return
        e = r[1]
        line, col, offv = XP.err_field(e, 'line'), XP.err_field(e, 'column'), XP.err_field(e, 'offset')
        # expected, as z3 terms over the symbolic characters
        el = z3.BitVecVal(0, 64); ec = z3.BitVecVal(0, 64)
        for c in ex.u_chars[:k]:
            nl = c.bv == 10
            el = z3.If(nl, el + 1, el); ec = z3.If(nl, z3.BitVecVal(0, 64), ec + 1)
        bad = z3.Or(line.bv != el, col.bv != ec, offv.bv != ex.u_off)
        w = wit(ex, [bad])
        if w is not None:
            S.cand('error-coordinates', 'line/column are not the zero-based line and character column of the byte offset', w, dict(op='errnew', **w), expected=None)
        else:
            S['vacuity']['errnew agrees'] = True
            if (S['paths'] + SEED) % 5 == 0:
                w2 = wit(ex, [])
                sat, m = eng.check(ex.pc)
                a = XP.worker_native().request(dict(op='errnew', **w2))
                # re-evaluate engine result under the same model as the witness is not guaranteed; compare against python expectation instead
                pre = w2['expr'].encode('utf-8')[:w2['offset']].decode('utf-8')
                if a.get('kind') == 'ok' and a['line'] == pre.count('\n') and a['column'] == len(pre.split('\n')[-1]): S['replayed'] += 1
                else: S['mismatches'].append({'harness': 'errnew', 'input': w2, 'native': a})
                S.sample({'harness': 'JmespathError::new', **w2, 'line': a.get('line'), 'column': a.get('column')}, cap=3)
    n, rest = eng.explore(body, on_path)
    if rest: S.inconclusive(f'errnew L={L} k={k}: deadline hit')
    S.absorb_engine(eng)
    return S

def task(item): return {'errnew': job_errnew}[item[0]](item[1:])

def py_linecol(s, off):
    pre = s.encode('utf-8')[:off].decode('utf-8', errors='replace')
    return pre.count('\n'), len(pre.split('\n')[-1])

def confirm(c, nd, nr):
    obs = {'dev': nd.request(c['request']), 'release': nr.request(c['request'])}
    if c['key'].endswith('panic'): return any(o.get('kind') in ('panic', 'abort', 'hang') for o in obs.values()), obs
    if c['request']['op'] == 'errnew':
        l, col = py_linecol(c['request']['expr'], c['request']['offset'])
        c['expected'] = {'line': l, 'column': col}
        return any(o.get('kind') != 'ok' or (o['line'], o['column']) != (l, col) for o in obs.values()), obs
    return False, obs

def kani_candidates(run, results):
    for r in results:
        if not r['failed']: continue
        vals = r.get('values')
        if r['harness'] == 'c12_line_column' and vals and len(vals) >= 6:
            bs = bytes(v[0] for v in vals[:4]); n = K.le(vals[4]); off = K.le(vals[5])
            try: s_ = bs[:n].decode('utf-8')
            except Exception: s_ = None
            if s_ is not None:
                run.cands.append({'key': 'error-coordinates', 'what': 'Kani: ' + '; '.join(c['desc'] for c in r['failed']), 'witness': {'expr': s_, 'offset': off},
                                  'request': {'op': 'errnew', 'expr': s_, 'offset': off}, 'expected': None})
                continue
        run.note_inconclusive(f"kani {r['harness']} failed ({[c['desc'] for c in r['failed']]}) but no concrete values could be extracted")

def run(run):
    global PROG, SEED
    PROG = run.program(); XP.init_decls(PROG); SEED = run.seed
    run.native('dev')
    XP.run_translator_validation(run, PROG, every=8 if run.tier == 'quick' else 1)
    L = 4 if run.tier == 'quick' else 6
    run.bounds = {'JmespathError::new (M)': f'strings of exactly 1..{L} symbolic Unicode scalar values (all of Unicode per position), offset = every character boundary',
                  'JmespathError::new (K)': 'every UTF-8 string of <= 4 bytes and every char-boundary offset, real std code'}
    run.outside = ['strings longer than the bounds', 'offsets that are not on a character boundary (the property requires boundary offsets)']
    run.assumes = ['offset is a byte offset on a character boundary (as produced by the lexer: char_indices positions)']
    jobs = [('errnew', l, k, run.deadline) for l in range(1, L + 1) for k in range(l + 1)]
    run_jobs(run, jobs, task, 'mirsym: JmespathError::new on symbolic strings')
    res = K.run_harnesses(run, ['c12_line_column'], timeout=600 if run.tier == 'quick' else 1800)
    kani_candidates(run, res)
    run.confirm_all(confirm)
