"""C13 — compile and search are pure: deterministic, history-independent, non-mutating (partial, see level_note).
One symbolic path executes a SEQUENCE of public calls sharing the global state of the path (statics incl. the lazily initialised
DEFAULT_RUNTIME, the runtime object): compile(s); search(d1); [an intervening compile+search on another expression / document, possibly
failing midway]; clone; search(d1) again -- first and last outcomes must be identical; the (frozen) input document must not be written."""
import z3, json, time
from mirsym.core import *
from mirsym import models as MM, sym as SY
from vf import explore as XP, par
from vf.explore import Summary
from .common import *
from . import evalref as ER, parsejob as PJ

PROG = None; SEED = 0
EXPRS = ['a', 'a.b', 'a[0]', 'a[*].b', 'a[]', 'a[?b]', 'a[1:]', '*', 'a || b', 'a == b', '[a, b]', '{x: a}', 'length(a)', 'sort(a)', 'sort_by(a, &b)', 'max_by(a, &b)', 'map(&b, a)', 'abs(a)', 'keys(@)', 'to_number(a)',
         'a[*].b | [0]', 'not_null(a, b)', 'nosuch(a)', 'a[::0]', 'avg(a)', 'merge(@, @)', 'reverse(a)', 'join(`","`, a)', 'contains(a, b)', 'type(a)']

def ast_offsets(prog, node):
    """the offset fields of a tree, in traversal order (canon() erases them)"""
    node = MM.deref_all(node); out = []
    def walk(v):
        v = MM.deref_all(v)
        if isinstance(v, Agg):
            if v.ty == 'Ast':
                try: out.append(PJ.ast_field(prog, v, 'offset').concrete())
                except Exception: pass
            for c in v.fields: walk(c.v)
        elif isinstance(v, VecV):
            for c in v.items: walk(c.v)
    walk(node)
    return out

def freeze(v):
    v = MM.deref_all(v)
    if isinstance(v, Agg):
        if v.lazy is not None: return
        for c in v.fields: c.frozen = True; freeze(c.v)
    elif isinstance(v, VecV):
        for c in v.items: c.frozen = True; freeze(c.v)
    elif isinstance(v, MapV):
        for k in v.d: v.d[k].frozen = True; freeze(v.d[k].v)

def float_variant(v):
    """a document that is loosely equal (1 == 1.0) but not identical: integers respelled as doubles; unmaterialised parts are shared"""
    v = MM.deref_all(v)
    if not isinstance(v, Agg) or v.lazy is not None: return v
    k = v.variant
    if k == 'Number':
        n = v.fields[0].v; c = MM.cval(n.val)
        if n.kind != 'float' and c is not None and abs(c) < 2 ** 53: return mk_enum('Variable', 'Number', [NumberV('float', F64(float(c)))])
        return v
    if k == 'Array': return mk_enum('Variable', 'Array', [VecV([Cell(Ptr(Cell(float_variant(c.v)), 'rc')) for c in v.fields[0].v.items])])
    if k == 'Object':
        mp = MapV()
        for kk in v.fields[0].v.d: mp.d[kk] = Cell(Ptr(Cell(float_variant(v.fields[0].v.d[kk].v)), 'rc'))
        return mk_enum('Variable', 'Object', [mp])
    return v

def job_seq(item):
    e1, e2, ddepth, deadline = item
    prog = PROG; eng = Engine(prog); eng.deadline = deadline; S = Summary(); XP.init_decls(prog)
    spec = SY.DocSpec(depth=ddepth, A=2, keys=('a', 'b'), strs=('', 'a'), nums=[0, 1, -1])
    def search(ex, expr_v, data):
        return ex.call('Expression::search', [Ptr(Cell(expr_v)), data])
    def body(ex):
        c1 = ex.call('compile', [Ptr(Cell(rstr(e1)))])
        if c1.variant != 'Ok': raise Unsupported('harness expression does not compile: ' + e1)
        x1 = c1.fields[0].v
        d1 = SY.sym_variable(ex, spec); ex.doc = d1; data1 = SY.rc(d1)
        r1 = search(ex, x1, data1)
        freeze(d1)                                   # everything materialised so far is now read-only
        # intervening history: another compilation and search (possibly failing midway), on a different document
        c2 = ex.call('compile', [Ptr(Cell(rstr(e2)))])
        # the outcome of compile() for e2 is the outcome of parsing e2 itself (parse is the stateless reference), whatever was compiled before
        p2 = ex.call('parse', [Ptr(Cell(rstr(e2)))])
        # ... and parse itself must still be the reference pipeline's answer for the text (a cache below the parser would corrupt both alike)
        from . import c01 as C01
        rv = C01.tree_vs_reference(prog, e2, p2)
        if rv is not None: return 'after other compilations the tree for ' + repr(e2) + ' is not the parse of its argument: ' + rv
        if c2.variant != p2.variant: return f'compile() after other compilations is {c2.variant} where the stateless parse is {p2.variant}: not the parse of its argument'
        if c2.variant == 'Err':
            if XP.reason_kind(c2.fields[0].v) != XP.reason_kind(p2.fields[0].v) or XP.err_field(c2.fields[0].v, 'offset').concrete() != XP.err_field(p2.fields[0].v, 'offset').concrete():
                return 'compile() after other compilations fails differently from the stateless parse: not the parse of its argument'
        if c2.variant == 'Ok':
            a2 = ex.call('Expression::as_ast', [Ptr(Cell(c2.fields[0].v))])
            if PJ.canon(prog, a2, {}) != PJ.canon(prog, p2.fields[0].v, {}) or ast_offsets(prog, a2) != ast_offsets(prog, p2.fields[0].v): return 'compile() after other compilations yields a tree that is not the parse of its argument'
            d2 = SY.sym_variable(ex, SY.DocSpec(depth=1, A=2, keys=('a', 'b'), strs=('', 'a'), nums=[0, 1])); ex.doc2 = d2
            r2 = search(ex, c2.fields[0].v, SY.rc(d2))
        # compiling the same string again yields the same tree
        c1b = ex.call('compile', [Ptr(Cell(rstr(e1)))])
        if c1b.variant != 'Ok': return 'second compilation of the same string fails'
        nm = {}
        t1 = PJ.canon(prog, ex.call('Expression::as_ast', [Ptr(Cell(x1))]), nm); t2 = PJ.canon(prog, ex.call('Expression::as_ast', [Ptr(Cell(c1b.fields[0].v))]), nm)
        if t1 != t2: return 'compiling the same string twice yields different trees'
        # a clone behaves like the original; the same search gives the same result
        x1c = ex.call('<Expression as Clone>::clone', [Ptr(Cell(x1))]) if prog.resolve('<Expression as Clone>::clone') else x1
        r3 = search(ex, x1c, data1)
        r4 = search(ex, c1b.fields[0].v, data1)
        ex.u_r = (r1, r3, r4)
        for name, rr in (('cloned expression after other calls', r3), ('freshly compiled expression after other calls', r4)):
            if r1.variant != rr.variant: return f'{name}: outcome class differs (first {r1.variant}, then {rr.variant})'
            if r1.variant == 'Err':
                if XP.reason_kind(r1.fields[0].v) != XP.reason_kind(rr.fields[0].v): return f'{name}: error kind differs'
                if XP.err_field(r1.fields[0].v, 'offset').concrete() != XP.err_field(rr.fields[0].v, 'offset').concrete(): return f'{name}: error offset differs'
            else:
                d = ER.same(ex, r1.fields[0].v, rr.fields[0].v)
                if d: return f'{name}: {d}'
        return None
    def on_path(ex, r):
        S['paths'] += 1; S['outcomes'][r[0]] += 1
        if r[0] == 'abort': return
        if r[0] == 'unsupported': S.inconclusive(f'sequence ({e1!r},{e2!r}): ' + XP.short_unsupported(r[1])); return
        acc = []; SY.lazy_null_constraints(ex.doc, acc)
        if hasattr(ex, 'doc2'): SY.lazy_null_constraints(ex.doc2, acc)
        sat, m = SY.check_pinned(eng, ex.pc, acc)
        if not sat: return
        d1 = SY.tagged(ex, ex.doc, m); d2 = SY.tagged(ex, ex.doc2, m) if hasattr(ex, 'doc2') else None
        req = {'op': 'seq', 'reqs': [{'op': 'search_default', 'expr': e1, 'doc': d1}, {'op': 'search_default', 'expr': e2, 'doc': d2}, {'op': 'search_default', 'expr': e1, 'doc': d1}]}
        if r[0] == 'panic':
            key = 'c13:input-mutated' if 'FROZEN' in str(r[1]) else 'c05:search-panic'
            S.cand(key, f'{r[1]}', {'e1': e1, 'e2': e2, 'd1': d1, 'd2': d2}, req, expected='no write to the input / no panic'); return
        if r[1] is not None:
            S.cand('c13:history-dependent', r[1], {'e1': e1, 'e2': e2, 'd1': d1, 'd2': d2}, req, expected='first and last outcome identical'); return
        S['vacuity']['sequence agrees'] = True
        if (S['paths'] + SEED) % 13 == 0:
            a = XP.worker_native().request(req)
            if isinstance(a, list) and len(a) == 3 and json.dumps(a[0], sort_keys=True) == json.dumps(a[2], sort_keys=True): S['replayed'] += 1
            else: S['mismatches'].append({'harness': 'sequence', 'req': req, 'native': a})
            S.sample({'harness': 'call sequence', 'e1': e1, 'e2': e2, 'd1': d1}, cap=1)
    n, rest = eng.explore(body, on_path, max_paths=3000)
    if rest: S.inconclusive(f'sequence ({e1!r},{e2!r}): cap/deadline after {n} paths')
    S.absorb_engine(eng)
    return S

def job_variant(item):
    """a re-used expression on a document that is loosely equal to the previous one (1 vs 1.0, i.e. `==` holds) behaves like a freshly compiled one"""
    e1, ddepth, deadline = item
    prog = PROG; eng = Engine(prog); eng.deadline = deadline; S = Summary(); XP.init_decls(prog)
    spec = SY.DocSpec(depth=ddepth, A=2, keys=('a', 'b'), strs=('', 'a'), nums=[0, 1, -1])
    def body(ex):
        c1 = ex.call('compile', [Ptr(Cell(rstr(e1)))])
        if c1.variant != 'Ok': raise Unsupported('harness expression does not compile: ' + e1)
        x1 = c1.fields[0].v
        d1 = SY.sym_variable(ex, spec); ex.doc = d1
        r1 = ex.call('Expression::search', [Ptr(Cell(x1)), SY.rc(d1)])
        dv = SY.rc(float_variant(d1)); ex.u_dv = dv
        used = ex.call('Expression::search', [Ptr(Cell(x1)), dv])
        fresh = ex.call('Expression::search', [Ptr(Cell(ex.call('compile', [Ptr(Cell(rstr(e1)))]).fields[0].v)), dv])
        if used.variant != fresh.variant: return 'outcome class differs from a fresh expression'
        if used.variant == 'Ok': return ER.same(ex, used.fields[0].v, fresh.fields[0].v)
        return None
    def on_path(ex, r):
        S['paths'] += 1; S['outcomes'][r[0]] += 1
        if r[0] == 'unsupported': S.inconclusive(f'variant {e1!r}: ' + XP.short_unsupported(r[1])); return
        if r[0] != 'ok' or r[1] is None:
            if r[0] == 'ok': S['vacuity']['variant agrees'] = True
            return
        acc = []; SY.lazy_null_constraints(ex.doc, acc)
        sat, m = SY.check_pinned(eng, ex.pc, acc)
        if not sat: return
        d1 = SY.tagged(ex, ex.doc, m); dv = SY.tagged(ex, ex.u_dv, m)
        S.cand('c13:reuse-differs', f'{e1}: a re-used expression on a loosely-equal document: {r[1]}', {'e1': e1, 'd1': d1, 'dv': dv},
               {'op': 'reuse', 'expr': e1, 'docs': [d1, dv]}, expected='same as a fresh expression')
    n, rest = eng.explore(body, on_path, max_paths=3000)
    if rest: S.inconclusive(f'variant {e1!r}: cap/deadline after {n} paths')
    S.absorb_engine(eng)
    return S

def hidden_state(ex):
    """printable snapshot of everything that outlives a call on this path: statics and thread-locals"""
    out = {}
    for k, c in getattr(ex, 'statics', {}).items(): out['static ' + k] = repr(c.v)[:4000]
    for k, c in getattr(ex, 'tls', {}).items(): out['thread_local ' + k] = repr(c.v)[:4000]
    return out

def job_reuse(item):
    """one compiled expression (and a clone taken after its first use) searched on document A and then on an INDEPENDENT document B behaves on B like a freshly
    compiled expression -- whatever A was (null and falsy roots included)"""
    e1, deadline = item
    prog = PROG; eng = Engine(prog); eng.deadline = deadline; S = Summary(); XP.init_decls(prog)
    spec = SY.DocSpec(depth=1, A=2, keys=('a', 'b'), strs=('', 'a'), nums=[0, 1])
    def body(ex):
        c1 = ex.call('compile', [Ptr(Cell(rstr(e1)))])
        if c1.variant != 'Ok': raise Unsupported('harness expression does not compile: ' + e1)
        x1 = c1.fields[0].v
        dA = SY.sym_variable(ex, spec); ex.doc = dA
        dB = SY.sym_variable(ex, spec); ex.doc2 = dB
        ex.call('Expression::search', [Ptr(Cell(x1)), SY.rc(dA)])
        x1c = ex.call('<Expression as Clone>::clone', [Ptr(Cell(x1))]) if prog.resolve('<Expression as Clone>::clone') else x1
        used = ex.call('Expression::search', [Ptr(Cell(x1)), SY.rc(dB)])
        usedc = ex.call('Expression::search', [Ptr(Cell(x1c)), SY.rc(dB)])
        fresh = ex.call('Expression::search', [Ptr(Cell(ex.call('compile', [Ptr(Cell(rstr(e1)))]).fields[0].v)), SY.rc(dB)])
        for nm, u in (('re-used expression', used), ('clone of a used expression', usedc)):
            if u.variant != fresh.variant: return f'{nm}: outcome class differs from a fresh expression'
            if u.variant == 'Ok':
                d = ER.same(ex, u.fields[0].v, fresh.fields[0].v)
                if d: return f'{nm}: {d}'
        # state that outlives a call (statics, thread-locals) may be initialised by a first use, but identical searches must leave it alone afterwards:
        # a value that keeps moving (a counter that is not restored on an error path, a pool that is not cleared) eventually changes a later call
        s1 = hidden_state(ex); ex.call('Expression::search', [Ptr(Cell(x1)), SY.rc(dB)]); s2 = hidden_state(ex)
        ex.call('Expression::search', [Ptr(Cell(x1)), SY.rc(dB)]); s3 = hidden_state(ex)
        if s2 != s3 or s1 != s2:
            diff = [k for k in s3 if s2.get(k) != s3.get(k) or s1.get(k) != s2.get(k)]
            ex.u_state = True
            return f'state that outlives the call keeps changing under identical searches: {diff[:3]} ({str(s2.get(diff[0]))[:60]} -> {str(s3.get(diff[0]))[:60]})'
        return None
    def on_path(ex, r):
        S['paths'] += 1; S['outcomes'][r[0]] += 1
        if r[0] == 'unsupported': S.inconclusive(f'reuse {e1!r}: ' + XP.short_unsupported(r[1])); return
        if r[0] != 'ok' or r[1] is None:
            if r[0] == 'ok': S['vacuity']['reuse agrees'] = True
            return
        acc = []; SY.lazy_null_constraints(ex.doc, acc); SY.lazy_null_constraints(ex.doc2, acc)
        sat, m = SY.check_pinned(eng, ex.pc, acc)
        if not sat: return
        dA = SY.tagged(ex, ex.doc, m); dB = SY.tagged(ex, ex.doc2, m)
        if getattr(ex, 'u_state', False):
            S.cand('c13:hidden-state-drifts', f'{e1}: {r[1]}', {'e1': e1, 'doc': dB}, {'op': 'repeat', 'expr': e1, 'doc': dB, 'n': 3000}, expected='the 3000th identical search behaves like the first'); return
        S.cand('c13:reuse-differs', f'{e1}: searched on one document and then on another: {r[1]}', {'e1': e1, 'd1': dA, 'dv': dB},
               {'op': 'reuse', 'expr': e1, 'docs': [dA, dB]}, expected='same as a fresh expression')
    n, rest = eng.explore(body, on_path, max_paths=3000)
    if rest: S.inconclusive(f'reuse {e1!r}: cap/deadline after {n} paths')
    S.absorb_engine(eng)
    return S

def job_dropped(item):
    """compile(e1), search, DROP the expression, compile(e2), search: the second result is the function specification's, whatever the first expression was. Objects of a
    dropped expression may be re-allocated at the same addresses (addresses are symbolic words, distinct only among live objects), so state keyed by an address is exposed."""
    e1, e2, deadline = item
    from . import funcs as F, funcjob as FJ
    import re as _re
    prog = PROG; eng = Engine(prog); eng.deadline = deadline; S = Summary(); XP.init_decls(prog)
    DOC = [{'a': 2, 'b': 1}, {'a': 1, 'b': 2}]
    def expected(e):
        m_ = _re.fullmatch(r'(\w+)\((@|&\w+), (@|&\w+)\)', e)
        vals = [DOC if t == '@' else ('expref', t) for t in m_.group(2, 3)]
        return F.spec(m_.group(1), vals)[:2]
    def body(ex):
        doc = lambda: Ptr(Cell(MM.py_to_variable(DOC)), 'rc')
        c1 = ex.call('compile', [Ptr(Cell(rstr(e1)))]); x1 = Cell(c1.fields[0].v)
        ex.call('Expression::search', [Ptr(x1), doc()])
        ex.drop_value(x1, 0); x1.v = None                          # the first expression is gone; its memory may be handed out again
        c2 = ex.call('compile', [Ptr(Cell(rstr(e2)))])
        r = ex.call('Expression::search', [Ptr(Cell(c2.fields[0].v)), doc()])
        k, want = expected(e2)
        if r.variant != 'Ok': return None if k == 'err' else f'{e2} after {e1} was compiled, searched and dropped: fails'
        got = MM.variable_to_py(ex, r.fields[0].v)
        return None if (k == 'ok' and FJ.result_matches(got, want)) else f'{e2} after {e1} was compiled, searched and dropped: returns {got!r}, specification {want!r}'
    def on_path(ex, r):
        S['paths'] += 1; S['outcomes'][r[0]] += 1
        if r[0] == 'unsupported': S.inconclusive(f'dropped ({e1!r},{e2!r}): ' + XP.short_unsupported(r[1])); return
        if r[0] != 'ok': return
        if r[1] is None: S['vacuity']['dropped agrees'] = True; return
        d = FJ.tag_py(DOC)
        S.cand('c13:history-dependent', r[1], {'e1': e1, 'e2': e2, 'd1': d, 'd2': d},
               {'op': 'seq', 'reqs': [{'op': 'search_default', 'expr': e2, 'doc': d}, {'op': 'search_default', 'expr': e1, 'doc': d}, {'op': 'search_default', 'expr': e2, 'doc': d}]}, expected='first and last outcome identical')
    n, rest = eng.explore(body, on_path, max_paths=500)
    if rest: S.inconclusive(f'dropped ({e1!r},{e2!r}): cap/deadline after {n} paths')
    S.absorb_engine(eng)
    return S

REUSE = ['[`1`, `2`]', '{a: `1`}', '`1`', "'x'", 'a', '[a, b]', '@', 'length(@)', 'a || `1`', '[?a]', '*', 'a == b', '!@', 'type(@)', '[0]', '[::-1]', 'not_null(a, b)', '{x: a, y: @}', '[abs(a), a]', 'a[*].abs(@)', 'abs(a) == b']

def task(item):
    return {'variant': job_variant, 'reuse': job_reuse, 'dropped': job_dropped}.get(item[0], job_seq)(item[1:])

def confirm(c, nd, nr):
    if c['key'] == 'c13:hidden-state-drifts':
        obs = {'dev': nd.request(c['request']), 'release': nr.request(c['request'])}
        return any(o.get('kind') != 'ok' or not o.get('stable') for o in obs.values()), obs
    if c['key'] == 'c13:reuse-differs':
        obs = {'dev': nd.request(c['request']), 'release': nr.request(c['request'])}
        return any(o.get('kind') != 'ok' or not o.get('equal') for o in obs.values()), obs
    if 'compiled, searched and dropped' in (c.get('what') or ''):
        # the outcome of (e2, doc) after (e1, doc) ran and was dropped in the same process vs in a fresh process
        from vf import native as nat
        w = c['witness']; out = {}
        for prof in ('dev', 'release'):
            a = nat.Native(prof); b = nat.Native(prof)
            after = a.request({'op': 'seq', 'reqs': [{'op': 'search_default', 'expr': w['e1'], 'doc': w['d1']}, {'op': 'search_default', 'expr': w['e2'], 'doc': w['d2']}]})
            fresh = b.request({'op': 'search_default', 'expr': w['e2'], 'doc': w['d2']})
            a.close(); b.close(); out[prof] = {'after_e1': after[1] if isinstance(after, list) and len(after) > 1 else after, 'fresh': fresh}
        return any(json.dumps(o['after_e1'], sort_keys=True) != json.dumps(o['fresh'], sort_keys=True) for o in out.values()), out
    if 'not the parse of its argument' in (c.get('what') or ''):
        # history dependence of compile(): the tree for e2 after e1 was compiled vs in a fresh process (thread-local / static caches start empty)
        from vf import native as nat
        w = c['witness']; out = {}
        for prof in ('dev', 'release'):
            a = nat.Native(prof); b = nat.Native(prof)
            after = a.request({'op': 'seq', 'reqs': [{'op': 'search_default', 'expr': w['e1'], 'doc': w['d1']}, {'op': 'compile_default', 'expr': w['e2']}]}); fresh = b.request({'op': 'compile_default', 'expr': w['e2']})
            a.close(); b.close(); out[prof] = {'after_e1': after[1] if isinstance(after, list) else after, 'fresh': fresh}
        return any(o['after_e1'] != o['fresh'] for o in out.values()), out
    obs = {}
    for prof, n in (('dev', nd), ('release', nr)): obs[prof] = n.request(c['request'])
    def bad(a):
        if not isinstance(a, list) or len(a) != 3: return True
        if any(x.get('kind') in ('panic', 'abort', 'hang') for x in a): return True
        x, z = dict(a[0]), dict(a[2])
        return json.dumps(x, sort_keys=True) != json.dumps(z, sort_keys=True) or not a[0].get('doc_unchanged', True)
    return any(bad(o) for o in obs.values()), obs

def run(run):
    global PROG, SEED
    PROG = run.program(); XP.init_decls(PROG); SEED = run.seed
    run.native('dev')
    XP.run_translator_validation(run, PROG, every=8 if run.tier == 'quick' else 1)
    quick = run.tier == 'quick'; dl = run.deadline
    n1 = 8 if quick else len(EXPRS)
    e1s = ([EXPRS[(i * 3 + run.seed) % len(EXPRS)] for i in range(n1)] if quick else EXPRS) + ["a == 'x y'", 'a  ||  b']
    # intervening calls: failing at the call, failing in the SECOND argument after the first was evaluated, failing inside an expression reference, succeeding
    e2s = ['nosuch(a)', 'not_null(a, abs(b))', 'sort_by(a, &abs(@))', 'a[::0]', 'a[*].b', 'contains(a, nosuch(b))', "a == 'x  y'", 'a || b'] if quick else ['nosuch(a)', 'not_null(a, abs(b))', 'sort_by(a, &abs(@))', 'a[::0]', 'a[*].b', 'contains(a, nosuch(b))', 'abs(a)', 'max_by(a, &b)', 'map(&b, a)', '[a b', 'a.b', 'merge(@, abs(a))', "a == 'x  y'", 'a || b', "a == 'x y'"]
    jobs = [('seq', e1, e2, 1 if '==' in e1 or 'contains' in e1 else 2, dl) for e1 in e1s for e2 in e2s]
    # the same text with different surrounding whitespace / a no-break space (not JMESPath whitespace): compile() must still be the parse of ITS argument
    ws = [e1s[i % len(e1s)] for i in range(run.seed, run.seed + (3 if quick else len(e1s)))] + ['a.b']
    jobs += [('seq', e1, v, 1, dl) for e1 in dict.fromkeys(ws) for v in (' ' + e1, e1 + ' ', '\u00a0' + e1, '\n  ' + e1 + '\n')]
    # the same body under different delimiters in two compilations: a text-keyed cache below the parser (lexer level) must not confuse them
    jobs += [('seq', e1, e2, 1, dl) for e1, e2 in (('"1"', '`1`'), ('`1`', '"1"'), ('`true`', '"true"'), ('"null"', '`null`'), ("'1'", '`1`'), ('`"a"`', '"a"'), ("a == '1'", 'a == `1`'))]
    jobs += [('dropped', a_, b_, dl) for a_, b_ in (('sort_by(@, &a)', 'sort_by(@, &b)'), ('map(&a, @)', 'map(&b, @)'), ('max_by(@, &b)', 'max_by(@, &a)'), ('sort_by(@, &b)', 'min_by(@, &a)'))]
    jobs += [('reuse', e, dl) for e in (REUSE[:10] + REUSE[-3:] if quick else REUSE)]
    jobs += [('variant', e, 1 if '==' in e else 2, dl) for e in (['a', 'a[0]', 'to_string(a)', 'a[*].b', '@', 'type(a)', '[a, b]', 'a || b'] if quick else EXPRS)]
    run.bounds = {'call sequences': f'compile(e1); search(d1); compile(e2); search(d2) [may fail midway]; compile(e1) again; clone; search(d1) twice -- for {len(e1s)} x {len(e2s)} expression pairs (core forms and built-ins), '
                                    'documents d1 depth 2 / d2 depth 1 lazily symbolic; through the crate-level compile() (DEFAULT_RUNTIME lazy static, initialised on the path) and Expression::search',
                  'state model': 'statics are per-path persistent cells (initialiser MIR run once), the runtime is shared by all calls of the path, input document cells are frozen after the first search'}
    run.outside = ['state hidden behind std types the engine does not model (reference counts: Rc::get_mut / make_mut / strong_count; thread_local!): such code makes the run INCONCLUSIVE, not green', 'more than one intervening call (re-use: two documents)', 'thread interleavings (C16, not applicable)']
    run.assumes = ['safe Rust cannot write through &/Rc without interior mutability; writes into frozen cells by MIR statements are detected, writes by unmodelled std calls are reported as unsupported']
    run_jobs(run, jobs, task, 'mirsym: sequences of public calls on one path (shared statics/runtime), first vs last outcome')
    run.cands = [c for c in run.cands if c['key'].startswith(('c13:', 'c05:'))]
    run.confirm_all(confirm)
