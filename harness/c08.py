"""C08 — JSON passes through unchanged (partial: the crate's own conversion code on every 64-bit scalar, Kani)."""
from .kscalar import run_kani_only
def run(run):
    run_kani_only(run, ['c08_value_roundtrip_scalars', 'c08_deserialize_visitor_scalars'],
        bounds={'scalars': 'every serde_json::Number (any u64, any i64, any finite f64), null, booleans: TryFrom<&Value>, TryFrom<Value>, Serialize for Variable (to_value) and the Deserialize visitor (from_value) keep the exact Number '
                           '(integer stays integer, u64 > i64::MAX stays unsigned, double bit-identical)'},
        outside=['the text legs (decimal -> double accuracy, escape decoding, number printing) are executed by serde_json/ryu, whose parsing loops over symbolic bytes exceed what CBMC discharges here: no harness covers "all JSON texts"',
                 'containers, strings, duplicate keys: the identity query on containers is decided symbolically by C01 (`@`), the conversions of containers are not claimed'],
        assumes=['Rc::drop_slow and fmt::format are stubbed'], keyprefix='c08')
