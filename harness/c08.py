"""C08 — JSON passes through unchanged.
K: the crate's conversion code on every 64-bit scalar (real serde_json).
M: text -> Variable::from_json (the crate's Deserialize visitor, driven by the JSON reader model) -> search('@') -> to_string (the crate's
Serialize impl, driven by the JSON writer model) -> re-read: the value must equal the value the input text denotes (last duplicate key wins,
order/nesting kept, strings code point by code point, integers exact, doubles bit-identical)."""
import z3, json, time
from mirsym.core import *
from mirsym import models as MM, sym as SY, jsonmodel as JM
from vf import explore as XP, par
from vf.explore import Summary
from .common import *
from . import lexjob as LJ, pubconfirm as PC
from .kscalar import run_kani_only

PROG = None; SEED = 0
NUMS = ['0', '-0', '1', '-1', '1.0', '1.5', '-1.5e3', '1e2', '18446744073709551615', '18446744073709551616', '-9223372036854775808', '-9223372036854775809', '9007199254740993', '1e308', '5e-324', '0.1', '1E-2', '123456789012345678']
SCALARS = NUMS + ['null', 'true', 'false', '""', '"a"', '"\\u00e9"', '"\\ud834\\udd1e"', '"\\\\"', '"\\""', '"é𝄞"', '[]', '{}', '[null]', '{"z":[]}']
TEMPLATES = [['X'], ['[', 'X', ',', 'Y', ']'], ['{"a":', 'X', ',"a":', 'Y', '}'], ['{"b":', 'X', ',"a":', 'Y', '}'], ['{"a":', 'X', ',"b":', 'Y', ',"a":null}'], ['[[', 'X', '],{"k":', 'Y', '}]'],
             [' [ ', 'X', ' , ', 'Y', ' ] '], ['{"é":', 'X', ',"":', 'Y', '}'], ['"', 'C', 'C', '"'], ['["', 'C', '",', 'X', ']'], ['{"k":"', 'C', 'C', '"}']]

# thorough: three levels of nesting, three holes, three symbolic characters, a symbolic character in a member name position is not supported by the map model (concrete keys)
DEEP_TEMPLATES = [['{"a":{"b":[', 'X', ',{"c":', 'Y', '}]}}'], ['[[[', 'X', ']],[', 'Y', ',', 'X', ']]'], ['{"a":', 'X', ',"b":', 'Y', ',"c":', 'X', '}'], ['"', 'C', 'C', 'C', '"'], ['["', 'C', '","', 'C', '"]'],
                  ['{"k":["', 'C', '",', 'X', '],"k":', 'Y', '}'], ['\t[\n', 'X', '\r\n,', 'Y', ' ]\n'], ['{"a":{"a":', 'X', '},"a":{"a":', 'Y', '}}']]

def job_rt(item):
    tpl, deadline = item
    prog = PROG; eng = Engine(prog); eng.deadline = deadline; S = Summary(); XP.init_decls(prog)
    ex0 = PathExec(eng, []); rtc = XP.mk_runtime(ex0)
    rp = XP.parse_expr(ex0, '@'); ident = rp.fields[0].v
    from .funcjob import choose_from
    def body(ex):
        chars = []
        for part in tpl:
            if part in ('X', 'Y'): chars.extend(choose_from(ex, 'scalar', SCALARS))
            elif part == 'C': chars.extend(SY.sym_chars(ex, 1))
            else: chars.extend(part)
        ex.u_chars = chars
        r = ex.call('Variable::from_json', [Ptr(Cell(StrV(list(chars))), 'ref')])
        k, want = JM.parse_json(ex, chars)
        ex.u_want = (k, want)
        if r.variant != 'Ok': return None if k == 'err' else 'a valid JSON text is rejected'
        if k == 'err': return 'an invalid JSON text is accepted'
        data = Ptr(Cell(r.fields[0].v), 'rc')
        out = XP.interpret(ex, ident, data, '@', rtc)
        if out.variant != 'Ok': return 'the identity query fails'
        txt = ex.call('<Variable as ToString>::to_string', [Ptr(out.fields[0].v.cell, 'ref')])
        ex.u_out = txt.chars
        k2, back = JM.parse_json(ex, txt.chars)
        if k2 == 'err': return 'the printed result is not valid JSON: ' + str(back)
        bad = LJ.var_bad(back, want)
        if bad is True: return 'the printed result denotes a different value than the input'
        if bad is not None:
            sat, _ = eng.check(ex.pc + [bad])
            if sat: ex.assume(bad); return 'the printed result denotes a different value than the input (for some characters)'
        return None
    def on_path(ex, r):
        S['paths'] += 1; S['outcomes'][r[0]] += 1
        if r[0] == 'abort': return
        if r[0] == 'unsupported': S.inconclusive(f'roundtrip {tpl}: ' + XP.short_unsupported(r[1])); return
        sat, m = eng.check(ex.pc)
        if not sat: return
        text = LJ.text_of(ex.u_chars, m)
        if r[0] == 'panic': S.cand('c05:json-panic', f'panics: {r[1]}', {'json': text}, {'op': 'json_identity', 'text': text}, expected='no panic'); return
        if r[1] is not None:
            S.cand('c08:roundtrip', r[1], {'json': text, 'printed': LJ.text_of(ex.u_out, m) if hasattr(ex, 'u_out') else None}, {'op': 'json_identity', 'text': text}, expected='printed JSON equal to the input'); return
        S['vacuity']['roundtrip agrees' if ex.u_want[0] == 'ok' else 'invalid text rejected'] = True
        if (S['paths'] + SEED) % 7 == 0:
            a = XP.worker_native().request({'op': 'json_identity', 'text': text})
            okk = (a.get('kind') == 'ok') == (ex.u_want[0] == 'ok') and (a.get('kind') != 'ok' or a.get('equal'))
            if okk: S['replayed'] += 1
            else: S['mismatches'].append({'harness': 'json roundtrip', 'text': text, 'native': a})
            S.sample({'harness': 'json roundtrip', 'json': text, 'printed': a.get('printed')}, cap=2)
    n, rest = eng.explore(body, on_path, max_paths=40000)
    if rest: S.inconclusive(f'roundtrip {tpl}: cap/deadline after {n} paths')
    S.absorb_engine(eng)
    return S

def task(item):
    if item[0] == 'rt': return job_rt(item[1:])
    from . import serdejob as SJ
    return SJ.conv_job(PROG, item[1], item[2], item[3], seed=SEED)

def confirm_m(c, nd, nr):
    obs = {'dev': nd.request(c['request']), 'release': nr.request(c['request'])}
    if c['key'].endswith('panic'): return any(o.get('kind') in ('panic', 'abort', 'hang') for o in obs.values()), obs
    return any(o.get('kind') != 'ok' or not o.get('equal') for o in obs.values()), obs

def run(run):
    global PROG, SEED
    PROG = run.program(); XP.init_decls(PROG); SEED = run.seed
    run.native('dev')
    XP.run_translator_validation(run, PROG, every=8 if run.tier == 'quick' else 1)
    tpls = TEMPLATES if run.tier == 'quick' else TEMPLATES + DEEP_TEMPLATES
    jobs = [('rt', t, run.deadline) for t in tpls] + [('conv', e, d, run.deadline) for e in ('try_from_ref', 'try_from_owned') for d in (1, 2)]
    run_jobs(run, jobs, task, 'mirsym: JSON text -> from_json (visitor MIR) -> @ -> to_string (Serialize MIR) -> re-read vs the denoted value')
    run.cands = [c for c in run.cands if c['key'].startswith('c08:') or c['key'].startswith('c05:')]
    run.confirm_all(confirm_m); run.cands = []
    run_kani_only(run, ['c08_value_roundtrip_scalars', 'c08_deserialize_visitor_scalars'],
        bounds={'scalars (K)': 'every serde_json::Number (any u64, any i64, any finite f64), null, booleans: TryFrom<&Value>, TryFrom<Value>, Serialize for Variable (to_value) and the Deserialize visitor (from_value) keep the exact Number '
                               '(integer stays integer, u64 > i64::MAX stays unsigned, double bit-identical)',
                'Value conversions (M)': 'Variable::try_from(&Value) and try_from(Value) on solver-chosen serde_json::Value trees (depth 1 with fully symbolic numbers, depth 2 structure): the result is the value itself (order, nesting, keys, exact numbers)',
                'documents (M)': f'{len(TEMPLATES)} (thorough: {len(TEMPLATES) + len(DEEP_TEMPLATES)}) document templates (arrays, nested containers, duplicate keys incl. three occurrences, non-ASCII and empty keys, surrounding whitespace) whose holes range over {len(SCALARS)} scalar/number spellings '
                                 '(integer limits of u64/i64 and one beyond, 2^53+1, subnormal, 1e308, -0, exponent forms, escapes, surrogate pairs) and symbolic Unicode scalar values inside strings'},
        outside=['decimal -> double accuracy and number printing are executed inside serde_json/ryu (modelled, not verified): the "15 significant digits / 2 ulp" part of the property is NOT claimed',
                 'documents outside the templates; Value trees deeper than 2 / wider than 2'],
        assumes=['mirsym/jsonmodel.py stands for serde_json\'s reader, models.tree_text for its writer (both differentially tested against native serde_json on every run of C09)', 'Rc::drop_slow and fmt::format are stubbed in the Kani harnesses'], keyprefix='c08')
