"""C18 — the jp command-line tool reports exactly what the library computes.
main() of jmespath-cli is executed from its MIR (regenerated from /repo/jmespath-cli on every run; its calls into the library resolve to the library's
MIR) against an environment made of nondeterministic stubs: the parsed command line is a symbolic configuration constrained by the clap
declaration (exactly one of EXPRESSION / --expr-file; optional --filename, --unquoted, --ast), File::open and the read_to_string calls may fail,
stdin / the files deliver the job's texts, stdout / stderr / exit are recorded as events.  The oracle is the property text over the library's own
answers (compile, Variable::from_json, search called on the same path).  Every reported difference -- and a sample of agreeing paths -- is replayed on the
real jp binary (real clap, real files, a directory in place of a file for read errors) against the library called in-process by the replay driver."""
import z3, json, os, subprocess, tempfile, shutil, time
from mirsym.core import *
from mirsym import models as MM, sym as SY
from mirsym.models import model_rx, model_override, ok, err, some, none, as_str, conc
from vf import explore as XP, par, build
from vf.explore import Summary
from .common import *
from .funcjob import choose_from
from . import serdejob as _SJ          # registers the data-model driver for values serialised into the crate's own Serializer

PROG = None; SEED = 0

class ProcessExit(Exception):
    def __init__(s, code): s.code = code

# ------------------------------------------------------------------------------------------ environment stubs
def cfgv(ex, key, options):
    """one dimension of the symbolic environment, decided (forked) the first time the program asks"""
    c = ex.__dict__.setdefault('u_cfg', {})
    if key not in c: c[key] = choose_from(ex, 'env' + str(len(c)), options)
    return c[key]
def ev(ex, *e): ex.__dict__.setdefault('u_events', []).append(e)

@model_rx(r'^(?:clap::)?(?:app::)?(?:args::)?(?:arg::)?(App|Arg)::(\w+)$')
def m_clap_builder(ex, a, m):
    if m.group(2) == 'get_matches':
        ex.u_matches_built = True
        return Agg('struct', 'ArgMatches', None, [])
    if m.group(2) in ('with_name', 'new'): return Agg('struct', 'Clap' + m.group(1), None, [Cell(a[0])])
    return a[0]
@model_rx(r'^(?:clap::)?(?:args::)?(?:arg_matches::)?ArgMatches::(value_of|is_present)$')
def m_clap_matches(ex, a, m):
    name = conc(ex, as_str(a[1]))
    # clap contract of the declaration in main(): `expression` (positional) and `expr-file` are both required and conflict with each other,
    # so exactly one of them is present when get_matches returns (otherwise clap itself prints usage and exits 1 before main continues)
    src = cfgv(ex, 'expr_src', ['arg', 'file'])
    if m.group(1) == 'is_present':
        if name in ('ast', 'unquoted'): return Bool(cfgv(ex, name, [False, True]))
        if name == 'expression': return Bool(src == 'arg')
        if name == 'expr-file': return Bool(src == 'file')
        if name == 'filename': return Bool(cfgv(ex, 'json_src', ['stdin', 'file']) == 'file')
        raise Unsupported('ArgMatches::is_present of an undeclared argument ' + name)
    if name == 'expression':
        if src != 'arg': return none()
        for c in ex.u_expr:          # a command-line argument cannot contain NUL
            if not isinstance(c, str): ex.assume(c.bv != 0)
        return some(Ptr(Cell(StrV(list(ex.u_expr))), 'ref'))
    if name == 'expr-file': return some(Ptr(Cell(rstr('E')), 'ref')) if src == 'file' else none()
    if name == 'filename': return some(Ptr(Cell(rstr('J')), 'ref')) if cfgv(ex, 'json_src', ['stdin', 'file']) == 'file' else none()
    if name in ('ast', 'unquoted'): return none()
    raise Unsupported('ArgMatches::value_of of an undeclared argument ' + name)

@model_rx(r'^(?:std::fs::)?File::open$')
def m_file_open(ex, a, m):
    path = conc(ex, as_str(a[0])); ev(ex, 'open', path)
    if cfgv(ex, 'open_fails:' + path, [False, True]): return err(Opaque(('io::Error', 'os')))
    return ok(Agg('struct', 'File', None, [Cell(rstr(path))]))
def _content(ex, path):
    return {'E': ex.u_expr, 'J': ex.u_json, 'stdin': ex.u_json}[path]
@model_rx(r'^<(?:std::fs::)?(File|Stdin) as (?:std::io::)?Read>::read_to_string$')
def m_read_to_string(ex, a, m):
    src = MM.deref_all(a[0])
    path = 'stdin' if m.group(1) == 'Stdin' else src.fields[0].v.concrete()
    ev(ex, 'read', path)
    k = cfgv(ex, 'read_fails:' + path, [False, 'os', 'data'])          # 'os': an error with an errno (EISDIR ...); 'data': one without (the stream is not valid UTF-8)
    if k: return err(Opaque(('io::Error', k)))
    txt = _content(ex, path); buf = a[1].cell.v
    buf.chars.extend(list(txt))
    return ok(Int(len(''.join(c if isinstance(c, str) else '?' for c in txt).encode('utf-8')), 'usize'))
@model_rx(r'^(?:std::io::)?(?:error::)?Error::(raw_os_error|kind)$')
def m_io_error_query(ex, a, m):
    e = MM.deref_all(a[0]) if isinstance(a[0], Ptr) else a[0]
    if not (isinstance(e, Opaque) and isinstance(e.tag, tuple) and e.tag[0] == 'io::Error'): raise Unsupported('io::Error query on a foreign value')
    if m.group(1) == 'raw_os_error': return some(Int(21, 'i32')) if e.tag[1] == 'os' else none()
    raise Unsupported('io::Error::kind')
@model_rx(r'^(?:std::io::)?(?:stdio::)?Stdin::lock$')
def m_stdin_lock(ex, a, m): return Agg('struct', 'StdinLock', None, [])
@model_rx(r'^<(?:std::io::)?StdinLock(?:<.*>)? as (?:std::io::)?BufRead>::lines$|^(?:std::io::)?(?:stdio::)?Stdin::lines$')
def m_stdin_lines(ex, a, m):
    """BufRead::lines over stdin: the text split at '\n' (a trailing '\r' removed from each line), or an error instead of the first line"""
    ev(ex, 'read', 'stdin')
    k = cfgv(ex, 'read_fails:stdin', [False, 'os', 'data'])
    if k: return IterV(iter([err(Opaque(('io::Error', k)))]))
    txt = list(_content(ex, 'stdin')); lines = [[]]
    for c in txt:
        if c == '\n': lines.append([])
        elif not isinstance(c, str): raise Unsupported('BufRead::lines over a symbolic character')
        else: lines[-1].append(c)
    if lines and not lines[-1]: lines.pop()
    return IterV(iter([ok(StrV(l[:-1] if l and l[-1] == '\r' else l)) for l in lines]))
@model_rx(r'^(?:std::io::)?(stdin|stdout|stderr)$')
def m_std_handles(ex, a, m): return Agg('struct', m.group(1).capitalize(), None, [])
@model_rx(r'^<(?:std::io::)?(Stderr|Stdout) as (?:std::io::)?Write>::write_fmt$')
def m_write_fmt(ex, a, m):
    ev(ex, m.group(1).lower(), MM.render_chars(ex, a[1])); return ok(UNIT)      # assumption: writing to the standard streams succeeds
@model_rx(r'^<(?:std::io::)?(Stderr|Stdout) as (?:std::io::)?Write>::(write|write_all)$')
def m_write(ex, a, m):
    v = MM.deref_all(a[1])
    cells = v.items if isinstance(v, (SliceRef, VecV)) else v.fields
    bs = bytes(c.v.concrete() for c in cells)
    ev(ex, m.group(1).lower(), list(bs.decode('utf-8')))
    return ok(Int(len(bs), 'usize')) if m.group(2) == 'write' else ok(UNIT)
@model_rx(r'^(?:std::io::)?(?:stdio::)?_print$')
def m_print(ex, a, m): ev(ex, 'stdout', MM.render_chars(ex, a[0]), list(getattr(ex, 'u_fmt_flags', []))); return UNIT
@model_rx(r'^(?:std::io::)?(?:stdio::)?_eprint$')
def m_eprint(ex, a, m): ev(ex, 'stderr', MM.render_chars(ex, a[0])); return UNIT
@model_rx(r'^(?:std::process::)?exit$')
def m_exit(ex, a, m): raise ProcessExit(a[0].concrete())
@model_rx(r'^(?:core::hint::|std::hint::)?must_use$')
def m_must_use(ex, a, m): return a[0]
@model_rx(r'^(?:serde_json::)?(?:ser::)?to_writer_pretty$')
def m_to_writer_pretty(ex, a, m):
    """serde_json::to_writer_pretty(&mut Stdout, &value): the crate's Serialize impl drives serde_json's PrettyFormatter (model: tree -> text, two-space indent)"""
    try: t = MM._ser_value(ex, a[1], MM.JsonSerV('text'))
    except MM.JsonSerErr as e: return e.r
    ev(ex, 'stdout', tree_pretty(ex, t, 0)); return ok(UNIT)

@model_rx(r'^(?:serde_json::)?(?:ser::)?(to_string_pretty|to_vec_pretty)$')
def m_to_string_pretty(ex, a, m):
    try: t = MM._ser_value(ex, a[0], MM.JsonSerV('text'))
    except MM.JsonSerErr as e: return e.r
    cs = tree_pretty(ex, t, 0)
    if m.group(1) == 'to_string_pretty': return ok(StrV(cs))
    return ok(VecV([Cell(Int(b, 'u8')) for b in text_of(cs).encode('utf-8')]))

def tree_pretty(ex, t, ind):
    k = t[0]
    if k in ('arr', 'obj'):
        items = t[1]
        if not items: return list('[]' if k == 'arr' else '{}')
        out = ['[' if k == 'arr' else '{']
        for i, x in enumerate(items):
            out += list((',' if i else '') + '\n' + '  ' * (ind + 1))
            if k == 'obj':
                out += MM.tree_text(ex, ('str', list(x[0]))) + [':', ' ']; x = x[1]
            out += tree_pretty(ex, x, ind + 1)
        return out + list('\n' + '  ' * ind) + [']' if k == 'arr' else '}']
    return MM.tree_text(ex, t)

def text_of(chars, model=None):
    return ''.join(c if isinstance(c, str) else chr(MM.cval(c, model) if MM.cval(c, model) is not None else 0xFFFD) for c in chars)
def same_chars(a, b):
    """two character lists denote the same text on this path: equal concrete characters, identical symbolic ones"""
    if len(a) != len(b): return False
    for x, y in zip(a, b):
        if x is y: continue
        cx = x if isinstance(x, str) else (chr(x.concrete()) if x.concrete() is not None else None)
        cy = y if isinstance(y, str) else (chr(y.concrete()) if y.concrete() is not None else None)
        if cx is None or cy is None:
            if not (cx is None and cy is None and z3.eq(z3.simplify(x.bv), z3.simplify(y.bv))): return False
        elif cx != cy: return False
    return True
def mk_text(ex, spec):
    """spec: str, or a list of str pieces and None (= one arbitrary Unicode scalar value)"""
    if isinstance(spec, str): return list(spec)
    out = []
    for p_ in spec:
        if p_ is None: out.append(SY.sym_chars(ex, 1)[0])
        else: out.extend(p_)
    return out

# ------------------------------------------------------------------------------------------ one (expression, JSON text) pair, symbolic environment
def cli_job(item):
    expr, jtxt, deadline = item
    prog = PROG; eng = Engine(prog); eng.deadline = deadline; S = Summary(); XP.init_decls(prog)
    def body(ex):
        ex.u_expr = mk_text(ex, expr); ex.u_json = mk_text(ex, jtxt); ex.u_events = []; ex.u_cfg = {}
        code = 0
        try: ex.call('main', [])
        except ProcessExit as e: code = e.code
        ex.u_code = code
        evs = ex.u_events
        out = [c for e in evs if e[0] == 'stdout' for c in e[1]]; errs = [c for e in evs if e[0] == 'stderr' for c in e[1]]
        reads = [e[1] for e in evs if e[0] in ('open', 'read')]
        ex.u_out = out
        def judge(cfg):
            # ---- what the property says, over the library's own answers
            def fail(why):
                ex.u_want = ('fail', why)
                if code == 0: return f'{why}: exit status 0'
                if out: return f'{why}: something is printed to stdout'
                if not errs: return f'{why}: nothing is printed to stderr'
                return None
            if cfg.get('expr_src') == 'file' and (cfg.get('open_fails:E') or cfg.get('read_fails:E')): return fail('expression file unreadable')
            c = ex.call('compile', [Ptr(Cell(StrV(list(ex.u_expr))))])
            if c.variant != 'Ok': return fail('expression does not compile')
            if cfg.get('ast'):
                want = MM._restore(ex, MM.fmt_debug(ex, ex.call('Expression::as_ast', [Ptr(Cell(c.fields[0].v))]), True)) + ['\n']          # {:#?}
                ex.u_want = ('ok', want)
                if any(r in ('J', 'stdin') for r in reads): return '--ast reads the input'
                if code != 0: return f'--ast: exit status {code}'
                if errs: return '--ast: something is printed to stderr'
                if not same_chars(out, want): return '--ast: stdout is not the debug rendering of the parse tree followed by a newline'
                pr = [e for e in evs if e[0] == 'stdout']
                if len(pr) != 1 or len(pr[0]) < 3 or pr[0][2] != [('debug', True)]: return '--ast: the tree is not printed with the pretty debug format {:#?}'
                return None
            src = 'J' if cfg.get('json_src') == 'file' else 'stdin'
            if (src == 'J' and cfg.get('open_fails:J')) or cfg.get('read_fails:' + src): return fail('input unreadable')
            v = ex.call('Variable::from_json', [Ptr(Cell(StrV(list(ex.u_json))))])
            if v.variant != 'Ok': return fail('input is not JSON')
            r = ex.call('Expression::search', [Ptr(Cell(c.fields[0].v)), Ptr(Cell(v.fields[0].v), 'rc')])
            if r.variant != 'Ok': return fail('search fails')
            res = MM.deref_all(r.fields[0].v)
            if cfg.get('unquoted') and res.variant == 'String': want = list(res.fields[0].v.chars) + ['\n']
            else: want = tree_pretty(ex, MM._ser_value(ex, res, MM.JsonSerV('text')), 0) + ['\n']
            ex.u_want = ('ok', want)
            if code != 0: return f'success: exit status {code}'
            if errs: return 'success: something is printed to stderr'
            if not same_chars(out, want): return 'success: stdout is not the ' + ('raw string' if cfg.get('unquoted') and res.variant == 'String' else 'pretty-printed JSON of the search result') + ' followed by a newline'
            return None
        # the path stands for every configuration that agrees with it on the dimensions the program consulted: a flag or source the program never asked
        # about may have either value, and the property must hold for each of them (an --ast that is looked at too late is found this way)
        import itertools
        free = [(k, vals) for k, vals in (('ast', [False, True]), ('unquoted', [False, True]), ('json_src', ['stdin', 'file'])) if k not in ex.u_cfg]
        for combo in itertools.product(*[v for _, v in free]):
            cfgc = dict(ex.u_cfg, **{k: x for (k, _), x in zip(free, combo)})
            verdict = judge(cfgc)
            if verdict is not None:
                ex.u_cfg_full = cfgc
                return verdict
        ex.u_cfg_full = dict(ex.u_cfg)
        return None
    def request(ex):
        cfg = getattr(ex, 'u_cfg_full', ex.u_cfg); m = None
        if not (isinstance(expr, str) and isinstance(jtxt, str)):
            sat, m = eng.check(ex.pc)
            if not sat: m = None
        ex.u_model = m
        return {'op': 'cli', 'expr': text_of(ex.u_expr, m), 'json': text_of(ex.u_json, m), 'expr_src': cfg.get('expr_src', 'arg'), 'json_src': cfg.get('json_src', 'stdin'), 'ast': bool(cfg.get('ast')), 'unquoted': bool(cfg.get('unquoted')),
                'faults': sorted((k if v is True or v == 'os' else k + ':data') for k, v in cfg.items() if v and ('fails' in k))}
    def on_path(ex, r):
        S['paths'] += 1; S['outcomes'][r[0]] += 1
        if r[0] == 'abort': return
        if r[0] == 'unsupported': S.inconclusive(f'jp {expr!r}: ' + XP.short_unsupported(r[1])); return
        req = request(ex)
        if r[0] == 'panic': S.cand('c18:panic', f'jp panics: {r[1]}', req, req, expected='no panic'); return
        if r[1] is not None: S.cand('c18:' + r[1].split(':')[0].replace(' ', '-'), r[1], req, req, expected=('fail' if ex.u_want[0] == 'fail' else text_of(ex.u_want[1], ex.u_model))); return
        S['vacuity']['jp ' + ex.u_want[0]] = True
        if ex.u_cfg.get('ast'): S['vacuity']['jp --ast'] = True
        if (S['paths'] + SEED) % 7 == 0:
            a = run_jp(req, 'dev')
            if a.get('skipped'): return
            good = (a['code'] == ex.u_code or (a['code'] != 0 and ex.u_code != 0)) and (bool(a['stderr']) == any(e[0] == 'stderr' for e in ex.u_events))
            good = good and a['stdout'] == text_of(ex.u_out, ex.u_model)
            if good: S['replayed'] += 1
            else: S['mismatches'].append({'harness': 'jp', 'req': req, 'engine': {'code': ex.u_code, 'stdout': text_of(ex.u_out, ex.u_model)}, 'native': a})
            S.sample({'harness': 'jp', **{k: req[k] for k in ('expr', 'json', 'expr_src', 'json_src', 'ast', 'unquoted', 'faults')}, 'exit': a['code'], 'stdout': a['stdout'][:80]}, cap=2)
    n, rest = eng.explore(body, on_path, max_paths=40000)
    if rest: S.inconclusive(f'jp {expr!r} {jtxt!r}: cap/deadline after {n} paths')
    S.absorb_engine(eng)
    return S

# ------------------------------------------------------------------------------------------ native: the real binary
JP = {}
def run_jp(req, profile='dev'):
    """run the real jp with the request's configuration: files in a scratch directory; an open fault = a path that does not exist, a read fault = a
    directory in place of the file (open succeeds, read fails with EISDIR; for stdin the directory's descriptor)"""
    if profile not in JP: JP[profile] = build.cli_binary(profile)
    if req['expr_src'] == 'arg' and '\0' in req['expr']: return {'code': None, 'stdout': '', 'stderr': '', 'skipped': 'NUL in a command-line argument'}
    d = tempfile.mkdtemp(prefix='jmverif-jp-', dir=os.environ.get('VERIF_SCRATCH') or '/var/tmp')
    try:
        def mk(name, txt, tag):
            p = os.path.join(d, name)
            if 'open_fails:' + tag in req['faults']: return p
            if 'read_fails:' + tag in req['faults']: os.mkdir(p); return p
            if 'read_fails:' + tag + ':data' in req['faults']: open(p, 'wb').write(b'\xff\xfe{'); return p          # not UTF-8: read_to_string fails without an errno
            open(p, 'w', encoding='utf-8').write(txt); return p
        args = [JP[profile]]
        if req['ast']: args.append('--ast')
        if req['unquoted']: args.append('-u')
        if req['json_src'] == 'file': args += ['-f', mk('input.json', req['json'], 'J')]
        if req['expr_src'] == 'file': args += ['-e', mk('expr.txt', req['expr'], 'E')]
        else: args += ['--', req['expr']]
        if 'read_fails:stdin:data' in req['faults']: r = subprocess.run(args, input=b'\xff\xfe{', capture_output=True, timeout=20)
        elif 'read_fails:stdin' in req['faults']:
            fd = os.open(d, os.O_RDONLY)
            try: r = subprocess.run(args, stdin=fd, capture_output=True, timeout=20)
            finally: os.close(fd)
        else: r = subprocess.run(args, input=req['json'].encode('utf-8'), capture_output=True, timeout=20)
        return {'code': r.returncode, 'stdout': r.stdout.decode('utf-8', 'replace'), 'stderr': r.stderr.decode('utf-8', 'replace')}
    except subprocess.TimeoutExpired: return {'code': -1, 'stdout': '', 'stderr': 'timeout'}
    finally: shutil.rmtree(d, ignore_errors=True)

def native_verdict(req, a, lib):
    """does the real jp (answer a) deviate from the property over the native library's answer (lib = replay driver's cli_oracle)?"""
    fails = any(f.startswith(('open_fails:E', 'read_fails:E')) for f in req['faults']) and req['expr_src'] == 'file'
    if not fails and lib.get('stage') == 'compile': fails = True
    if not fails and not req['ast']:
        src = 'J' if req['json_src'] == 'file' else 'stdin'
        if ('open_fails:J' in req['faults'] and src == 'J') or ('read_fails:' + src) in req['faults'] or ('read_fails:' + src + ':data') in req['faults']: fails = True
        elif lib.get('class') == 'fail': fails = True
    if a['code'] < 0 or a['code'] == 101 or 'panicked at' in a['stderr']: return 'jp panics / is killed'
    if fails:
        if a['code'] == 0: return 'failure with exit status 0'
        if a['stdout']: return 'failure prints to stdout'
        if not a['stderr']: return 'failure without a diagnosis on stderr'
        return None
    if a['code'] != 0: return f'success with exit status {a["code"]}'
    if a['stderr']: return 'success prints to stderr'
    if a['stdout'] != lib.get('stdout'): return 'stdout differs from what the library computes'
    return None

def confirm(c, nd, nr):
    req = c['request']; obs = {}; bad = False
    for prof, n in (('dev', nd), ('release', nr)):
        a = run_jp(req, prof)
        if a.get('skipped'): obs[prof] = a; continue
        # --ast does not depend on the input; the oracle op gets the same flags
        lib = n.request({'op': 'cli_oracle', 'expr': req['expr'], 'json': req['json'], 'unquoted': req['unquoted'], 'ast': req['ast']})
        v = native_verdict(req, a, lib); obs[prof] = {'jp': a, 'library': lib, 'verdict': v}
        bad = bad or v is not None
    return bad, obs

EXPRS = ['a', '@', 'a.b', 'a[0]', 'a[*].b', 'length(a)', 'a == `1`', '[a, b]', '{x: a}', 'keys(@)', "'lit'", '`"q\\"uote"`', 'a || `"é"`', 'to_string(a)', 'join(`", "`, a)', 'a[?b]', 'sort(a)', 'type(@)', 'not_null(a, `"dflt"`)',
         'a\n  .b\n', '\na', 'a |\n [0]', 'a\n', 'a\r\n',
         'a.', 'nosuch(a)', 'abs(a)', 'a[::0]', '', ' ', 'a ', '"unterminated', '`[1`', 'length(@, @)', '&a', 'to_number(a)', 'a | [0]', 'max_by(a, &b)']
JSONS = ['{"a": 1}', '{"a": "str"}', '{"a": "é \\" \\\\ \\n \\u0001 \\ud834\\udd1e"}', '{"a": [1, 2.5, -3, 1e100, 18446744073709551615, -9223372036854775808]}', '{"a": {"b": [true, false, null]}}', '{"a": [{"b": 1}, {"b": "x"}, {}]}', '"top"', '[]', '{}', 'null', '{"a": []}',
         '{"a": ["x", "y"]}', '', '{', '{"a": 1} trailing', '[1, 2', 'nul', '{"a": 1.0, "b": 1e-7}', ' {"a": "\\t"} \n', '1\n2\n', '[1\n2]', '{"a": "x\ny"}', '{"a":\r\n 1}\r\n', '{"a": tr\nue}']

def run(run):
    global PROG, SEED
    import time as _t
    PROG = build.load_cli_program(); XP.init_decls(PROG); SEED = run.seed
    run._progs[()] = PROG; run.engine_names.add('mirsym')
    run.native('dev'); build.cli_binary('dev')
    quick = run.tier == 'quick'; dl = run.deadline
    es, js = EXPRS, JSONS
    jobs = [(e, j, dl) for e in es for j in js]
    # texts with arbitrary characters: a string value / a member name / a raw-string literal / a whole one-character text
    SYM_J = [['{"a": "', None, '"}'], ['"', None, '"'], ['{"a": "x', None, None, '"}'], ['["', None, '", 1]']]
    SYM_E = [["'", None, "'"], ['`"', None, '"`'], ["'", None, None, "'"]]
    jobs += [(e, j, dl) for e in ('a', '@', 'to_string(@)', '[0]') for j in (SYM_J if not quick else SYM_J[:2])]
    jobs += [(e, j, dl) for e in (SYM_E if not quick else SYM_E[:2]) for j in ('{"a": "str"}',)]
    run.bounds = {'configurations': 'every command line the clap declaration admits: expression as argument or through --expr-file, input from stdin or --filename, --unquoted and --ast on/off; File::open and each read_to_string may fail',
                  'texts': f'{len(es)} expression texts (valid, invalid, failing at run time, with results of every JSON type) x {len(js)} input texts (valid incl. non-ASCII / escapes / 64-bit extremes / 1e100, invalid, empty, trailing characters); plus input texts and expressions containing one or two ARBITRARY Unicode scalar values (string value, member name, raw string, literal, whole text)',
                  'functions': 'main, show_result, read_file, get_json and their closures from the MIR of jmespath-cli, calling the library MIR'}
    run.outside = ['clap itself (argument syntax, --help/--version, usage errors for missing / conflicting arguments): represented by its declared contract', 'failing writes to stdout / stderr (closed pipes): println! panics in that case -- not modelled, stated',
                   'serde_json::to_writer_pretty is a model (two-space indentation over the tree the crate\'s Serialize impl emits), differentially tested against the real binary on every replay', 'inputs that are not valid UTF-8', 'code points that are unassigned in the Unicode tables of the host Python (their Debug escaping is decided by the toolchain\'s newer tables)']
    run.assumes = ['exactly one of EXPRESSION / --expr-file is present after get_matches (both are `required` and `conflicts_with` each other)', 'writes to the standard streams succeed', 'process::exit(n) ends the process with status n; returning from main ends it with 0']
    run_jobs(run, jobs, cli_job, 'mirsym: jp main() from MIR under a symbolic environment vs the property over the library\'s answers')
    run.cands = [c for c in run.cands if c['key'].startswith('c18:')]
    run.confirm_all(confirm)
