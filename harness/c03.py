"""C03 — compile accepts exactly the language.  (b) parser on symbolic token queues vs the ABNF as a CFG whose membership is an SMT
term (this file);  (a) lexer on symbolic code points vs a reference lexer (harness/lexjob.py)."""
import time, json, os
from mirsym.core import *
from mirsym import models as MM
from vf import explore as XP, par
from vf.explore import Summary
from .common import *
from . import grammar as GR, parsejob as PJ, lexjob as LJ

PROG = None; SEED = 0
ALL = GR.TOKENS
CONTEXTS = [
    (['Identifier', 'Dot'], []), (['Identifier', 'Filter'], ['Rbracket']), (['Identifier', 'Filter'], []), (['Identifier', 'Lparen'], ['Rparen']), (['Identifier', 'Lparen', 'Identifier', 'Comma'], ['Rparen']),
    (['Identifier', 'Lparen', 'Ampersand'], ['Rparen']), (['Lbracket', 'Identifier', 'Comma'], ['Rbracket']), (['Lbracket'], ['Rbracket']), (['Lbrace', 'Identifier', 'Colon'], ['Rbrace']),
    (['Lbrace'], ['Rbrace']), (['Lbrace', 'Identifier', 'Colon', 'Identifier', 'Comma'], ['Rbrace']), (['Identifier', 'Lbracket', 'Star', 'Rbracket'], []), (['Identifier', 'Lbracket', 'Star', 'Rbracket'], ['Pipe', 'Identifier']),
    (['Identifier', 'Pipe'], []), (['Not'], []), (['Ampersand'], []), (['Lparen'], ['Rparen']), (['Lparen'], ['Rparen', 'Dot', 'Identifier']), (['Identifier', 'Flatten'], []), (['Star'], []),
    (['Identifier', 'Dot', 'Star'], []), (['Identifier', 'Lbracket'], ['Rbracket']), (['Identifier', 'Lbracket', 'Number', 'Colon'], ['Rbracket']), (['Identifier', 'Eq'], []), (['Identifier', 'Or'], ['And', 'Identifier']),
    (['Identifier', 'Filter', 'Identifier', 'Eq'], ['Rbracket']), (['Filter'], ['Rbracket', 'Dot', 'Identifier']), (['Flatten'], []), (['At', 'Dot'], []), (['Literal'], []), (['QuotedIdentifier'], []),
    (['Identifier', 'Dot', 'Lbracket'], ['Rbracket']), (['Identifier', 'Dot', 'Lbrace'], ['Rbrace']), (['Identifier', 'Lparen', 'Identifier', 'Lparen'], ['Rparen', 'Rparen']),
    (['Identifier', 'Lbracket', 'Colon', 'Colon'], ['Rbracket']), (['Identifier', 'And', 'Not'], []), ([], ['Dot', 'Identifier']), ([], ['Lbracket', 'Number', 'Rbracket']), ([], ['Lparen', 'Rparen']), ([], ['Flatten']),
    # what may follow a dot / sit between the members of a hash, a list or an argument list (closers supplied)
    (['Identifier', 'Dot'], ['Rbracket']), (['Identifier', 'Dot'], ['Rbrace']), (['Identifier', 'Dot'], ['Rparen']), (['Identifier', 'Lbracket', 'Star', 'Rbracket', 'Dot'], ['Rbracket']),
    (['Lbrace', 'Identifier', 'Colon', 'Identifier'], ['Colon', 'Identifier', 'Rbrace']), (['Lbrace', 'Identifier', 'Colon', 'Identifier'], ['Identifier', 'Colon', 'Identifier', 'Rbrace']),
    (['Lbracket', 'Identifier'], ['Identifier', 'Rbracket']), (['Identifier', 'Lparen', 'Identifier'], ['Identifier', 'Rparen']), (['Identifier', 'Filter', 'Identifier'], ['Identifier', 'Rbracket']),
    (['Identifier', 'Lbracket', 'Number'], ['Number', 'Rbracket']), (['Identifier', 'Lbracket', 'Number', 'Colon', 'Number'], ['Rbracket']), (['Identifier', 'Flatten'], ['Flatten']), (['Identifier', 'Flatten', 'Flatten'], []),
]

def task(item):
    kind = item[0]
    if kind == 'full':
        _, first, n, deadline = item
        layout = [[first]] + [ALL] * (n - 1)
        return PJ.parser_job(PROG, layout, deadline, seed=SEED, want_trees=False, label=f'N={n} first={first}')
    if kind == 'win':
        _, pre, suf, w, deadline = item
        layout = list(pre) + [ALL] * w + list(suf)
        return PJ.parser_job(PROG, layout, deadline, seed=SEED, want_trees=False, label=f'window {pre}..{suf} w={w}')

def confirm(c, nd, nr):
    obs = {'dev': nd.request(c['request']), 'release': nr.request(c['request'])}
    d = obs['dev']
    if c['key'].endswith('panic'): return any(o.get('kind') in ('panic', 'abort', 'hang') for o in obs.values()), obs
    if c['key'].startswith('c03:lexer-'):
        # lexer-level differences are confirmed through the public API: the reference pipeline says what compile must do with the text alone and embedded
        # in sentence templates (a number token alone is never a sentence, `a[N]` is)
        from . import pubconfirm as PC, c09 as C09
        r = PC.confirm_literal_value(c['witness']['expr'], nd)
        if r is not None and r[0]: return True, r[1]
        return PC.confirm_text(c['witness']['expr'], nd, nr, open_exts=C09.OPEN_EXTS)
    if c['key'].startswith('c03:rejects'): return d.get('kind') == 'compile-err', obs
    if c['key'].startswith('c03:'): return d.get('kind') == 'ok', obs
    return False, obs

def validate_grammar(run, prog):
    """the oracle is checked against the repo's own suite: valid <=> not marked as a syntax error"""
    eng = Engine(prog); bad = []; n = 0
    for (name, si, ci, expr, doc, case) in XP.compliance_cases():
        ex = PathExec(eng, [])
        try: r = ex.call('tokenize', [Ptr(Cell(rstr(expr)))])
        except (Unsupported, Panic, PathAbort) as e: continue
        n += 1
        toks = None if r.variant == 'Err' else [c.v.fields[1].v.variant for c in r.fields[0].v.items][:-1]
        want_ok = case.get('error') != 'syntax'
        got_ok = toks is not None and GR.accepts(toks)
        if want_ok != got_ok: bad.append((expr, 'suite: ' + ('valid' if want_ok else 'syntax error')))
    run.extra['grammar_oracle_validation'] = {'compliance_expressions': n, 'disagreements': bad[:10]}
    if bad: run.note_inconclusive(f'grammar oracle disagrees with the compliance suite on {len(bad)} expressions, e.g. {bad[0]}')

def select(run, cands): return [c for c in cands if c['key'].startswith(('c03:', 'c05:'))]

def run(run):
    global PROG, SEED
    PROG = run.program(); XP.init_decls(PROG); SEED = run.seed
    run.native('dev')
    XP.run_translator_validation(run, PROG, every=8 if run.tier == 'quick' else 1)
    validate_grammar(run, PROG)
    quick = run.tier == 'quick'
    N = 4 if quick else 5; W = 2 if quick else 3
    run.bounds = {'parser': f'every token sequence of length <= {N} over all 28 token kinds (payloads: identifiers/literals distinct per position, numbers symbolic over the lexer range), '
                            f'plus {len(CONTEXTS)} concrete sentence contexts around a window of {W} fully symbolic tokens (sentences of up to {W + 6} tokens)',
                  'oracle': 'membership in the token-level CFG of the published ABNF as one SMT term per path (both directions), recorded deviations as grammar extensions'}
    run.outside = [f'token sequences longer than {N} that are not one of the listed contexts around a window', 'the lexical level is decided separately (lexer harness)']
    run.assumes = ['token-level reading of the ABNF with expression references only as function arguments', 'known deviations are keyed by grammar extension (known_findings.json), not by example']
    dl = run.deadline
    jobs = [('full', k, n, dl) for n in range(1, N + 1) for k in ALL] if not quick else [('full', k, N, dl) for k in ALL] + [('full', k, n, dl) for n in range(1, N) for k in ALL]
    jobs += [('win', pre, suf, W, dl) for pre, suf in CONTEXTS]
    if not quick: jobs += [('win', pre, suf, W - 1, dl) for pre, suf in CONTEXTS]
    run_jobs(run, jobs, task, f'mirsym: Parser::parse on symbolic token queues (N<={N}, windows of {W}) vs CFG membership in SMT')
    # ---- (a) lexer on symbolic code points vs the reference lexer
    D = ('digit',)
    specs = [[None], [None, None]]
    specs += [["'", None, "'"], ['"', None, '"'], ['`', None, '`'], ["'", None, None], ['"', None, None], ['`', None, None], ['a', None, None], [None, 'a', None], ['1', None, None], ['-', None, None],
              ['[', None, None], [None, None, '='], ['`', '"', None, '"', '`'], ['"', '\\', None, '"'], ["'", '\\', None, "'"], ['`', '\\', None, '`'],
              ['2', '1', '4', '7', '4', '8', '3', '6', D, D], ['-', '2', '1', '4', '7', '4', '8', '3', '6', D, D], [D, D, D, D, D, D, D, D, D, D, D], ['-', D, D, D], ['-', '9', D, D, D, D, D, D, D, D, D]]
    if not quick: specs += [[None, None, None], ["'", None, None, "'"], ['"', None, None, '"'], ['`', None, None, '`'], ['`', None, None, None], ['a', None, None, None]]
    run.bounds['lexer'] = ('every string of <= ' + ('2' if quick else '3') + ' Unicode scalar values (all of Unicode per position); delimited forms with 1' + ('' if quick else '-2') + ' symbolic characters between quotes/backticks, '
                           'unterminated forms, backslash-escape forms; digit runs of 10-11 symbolic digits around the i32 boundary, with and without a leading minus')
    import time as _t
    run.deadline = max(run.deadline, _t.time() + (100 if run.tier == 'quick' else 900))      # each phase gets its own slice of the budget
    LJ.run_sharded(run, PROG, specs, 'mirsym: Lexer::tokenize on symbolic code points vs reference lexer', keyprefix='c03')
    run.cands = select(run, run.cands)
    run.confirm_all(confirm)
