"""Reference evaluator for the core JMESPath forms, written from the specification (jmespath.org/specification.html) and the
text of properties C01/C10/C11 -- NOT from interpreter.rs.  It works on the engine's value representation and asks the same
path executor to decide whatever it needs to know about a symbolic value (so its decisions are solver-checked as well)."""
import z3
from mirsym.core import *
from mirsym import models as MM, sym as SY
from mirsym.sym import VIDX, rc, NULL

def val(p): return MM.deref_all(p)
class SpecError(Exception): pass

def tag_is(ex, v, name):
    v = val(v)
    if v.lazy is None: return v.variant == name
    lz = v.lazy
    if name not in lz.tags: return False
    if ex.choose([(True, lz.tagvar == VIDX[name]), (False, lz.tagvar != VIDX[name])]):
        lz(ex, v, want=name); return True
    return False
TYPES = ['Null', 'Bool', 'String', 'Number', 'Array', 'Object', 'Expref']
def type_of(ex, v):
    v = val(v)
    if v.lazy is None: return v.variant
    for t in TYPES:
        if tag_is(ex, v, t): return t
    raise PathAbort('no type')
def truthy(ex, v):
    """JMESPath truthiness: false, null, "", [], {} are false-like; everything else (incl. 0) is true-like"""
    v = val(v); t = type_of(ex, v)
    if t == 'Null': return False
    if t == 'Bool': return MM.pybool(ex, v.fields[0].v)
    if t == 'String': return len(v.fields[0].v.chars) > 0
    if t == 'Array': return len(v.fields[0].v.items) > 0
    if t == 'Object': return len(v.fields[0].v.d) > 0
    return True
def is_null(ex, v): return tag_is(ex, v, 'Null')
def mkbool(b): return rc(mk_enum('Variable', 'Bool', [b if isinstance(b, Bool) else Bool(b)]))
def mkarr(cells): return rc(mk_enum('Variable', 'Array', [VecV(cells)]))

def num_value(n):
    """exact rational value of a serde_json::Number whose payload is concrete (representative-set numbers)"""
    from fractions import Fraction
    c = MM.cval(n.val)
    if c is None: raise Unsupported('oracle: symbolic number (use the finite number set)')
    return Fraction(c)

def ref_equal(ex, a, b):
    """deep structural equality of two JSON values -> python bool or z3 Bool expression"""
    a, b = val(a), val(b)
    if a is b and a.lazy is not None:
        type_of(ex, a)
    ta = type_of(ex, a); tb = type_of(ex, b)
    if ta != tb: return False
    if ta == 'Null': return True
    if ta == 'Bool':
        x, y = a.fields[0].v, b.fields[0].v
        cx, cy = x.concrete(), y.concrete()
        if cx is not None and cy is not None: return cx == cy
        return x.b == y.b
    if ta == 'String':
        x, y = a.fields[0].v.concrete(), b.fields[0].v.concrete()
        if x is None or y is None: raise Unsupported('oracle: symbolic string equality')
        return x == y
    if ta == 'Number': return num_value(a.fields[0].v) == num_value(b.fields[0].v)
    if ta == 'Array':
        xa, xb = a.fields[0].v.items, b.fields[0].v.items
        if len(xa) != len(xb): return False
        acc = []
        for p, q in zip(xa, xb):
            r = ref_equal(ex, p.v, q.v)
            if r is False: return False
            if r is not True: acc.append(r)
        return z3.And(*acc) if acc else True
    if ta == 'Object':
        da, db = a.fields[0].v.d, b.fields[0].v.d
        if set(da) != set(db): return False
        acc = []
        for k in da:
            r = ref_equal(ex, da[k].v, db[k].v)
            if r is False: return False
            if r is not True: acc.append(r)
        return z3.And(*acc) if acc else True
    if ta == 'Expref': raise Unsupported('oracle: expref equality')

def ref_compare(ex, op, a, b):
    """op in Equal, NotEqual, LessThan, LessThanEqual, GreaterThan, GreaterThanEqual -> Rc<Variable>"""
    if op in ('Equal', 'NotEqual'):
        r = ref_equal(ex, a, b)
        if isinstance(r, bool): return mkbool(r if op == 'Equal' else not r)
        return mkbool(Bool(r if op == 'Equal' else z3.Not(r)))
    if type_of(ex, a) != 'Number' or type_of(ex, b) != 'Number': return rc(NULL())
    x, y = num_value(val(a).fields[0].v), num_value(val(b).fields[0].v)
    return mkbool({'LessThan': x < y, 'LessThanEqual': x <= y, 'GreaterThan': x > y, 'GreaterThanEqual': x >= y}[op])

class Oracle:
    def __init__(s, prog): s.prog = prog; s.names = {v: f for v, f in prog.decls.enums['Ast']}
    def f(s, node, name): return node.fields[s.names[node.variant].index(name)].v
    def kind(s, ex, node):
        node = val(node)
        if node.lazy is not None: ex.materialize(node)
        return node.variant
    def eval(s, ex, node, data):
        node = val(node); k = s.kind(ex, node); f = lambda n: s.f(node, n)
        if k == 'Identity': return data
        if k == 'Literal': return f('value')
        if k == 'Field':
            name = f('name').concrete()
            if tag_is(ex, data, 'Object'):
                c = val(data).fields[0].v.d.get(name)
                if c is not None: return c.v
            return rc(NULL())
        if k == 'Index':
            iv = f('idx')
            if not tag_is(ex, data, 'Array'): return rc(NULL())
            items = val(data).fields[0].v.items; n = len(items)
            i = iv.concrete()
            if i is None:
                x = z3.SignExt(32, iv.bv); eff = z3.If(x < 0, x + n, x)
                i = ex.choose([(j, eff == j) for j in range(n)] + [(None, z3.Or(eff < 0, eff >= n))])
            else:
                if i < 0: i += n
                if not (0 <= i < n): i = None
            return items[i].v if i is not None else rc(NULL())
        if k == 'Function':
            if f('name').concrete() != 'type' or len(f('args').items) != 1: raise Unsupported('oracle: function other than type/1')
            t = type_of(ex, s.eval(ex, f('args').items[0].v, data))
            return rc(mk_enum('Variable', 'String', [rstr({'Null': 'null', 'Bool': 'boolean', 'String': 'string', 'Number': 'number', 'Array': 'array', 'Object': 'object', 'Expref': 'expref'}[t])]))
        if k == 'Subexpr': return s.eval(ex, f('rhs'), s.eval(ex, f('lhs'), data))
        if k == 'Or':
            l = s.eval(ex, f('lhs'), data)
            return l if truthy(ex, l) else s.eval(ex, f('rhs'), data)
        if k == 'And':
            l = s.eval(ex, f('lhs'), data)
            return s.eval(ex, f('rhs'), data) if truthy(ex, l) else l
        if k == 'Not': return mkbool(not truthy(ex, s.eval(ex, f('node'), data)))
        if k == 'Condition':
            return s.eval(ex, f('then'), data) if truthy(ex, s.eval(ex, f('predicate'), data)) else rc(NULL())
        if k == 'Comparison':
            cmpv = val(f('comparator'))
            if cmpv.lazy is not None: ex.materialize(cmpv)
            l = s.eval(ex, f('lhs'), data); r = s.eval(ex, f('rhs'), data)
            return ref_compare(ex, cmpv.variant, l, r)
        if k == 'ObjectValues':
            o = s.eval(ex, f('node'), data)
            if not tag_is(ex, o, 'Object'): return rc(NULL())
            mp = val(o).fields[0].v
            return mkarr([Cell(mp.d[kk].v) for kk in sorted(mp.d, key=lambda x: [ord(c) for c in x])])     # ascending key (code point) order
        if k == 'Projection':
            l = s.eval(ex, f('lhs'), data)
            if not tag_is(ex, l, 'Array'): return rc(NULL())
            out = []
            for c in val(l).fields[0].v.items:
                r = s.eval(ex, f('rhs'), c.v)
                if not is_null(ex, r): out.append(Cell(r))
            return mkarr(out)
        if k == 'Flatten':
            l = s.eval(ex, f('node'), data)
            if not tag_is(ex, l, 'Array'): return rc(NULL())
            out = []
            for c in val(l).fields[0].v.items:
                if tag_is(ex, c.v, 'Array'): out.extend(Cell(x.v) for x in val(c.v).fields[0].v.items)
                else: out.append(Cell(c.v))
            return mkarr(out)
        if k == 'MultiList':
            if is_null(ex, data): return rc(NULL())
            return mkarr([Cell(s.eval(ex, e.v, data)) for e in f('elements').items])
        if k == 'MultiHash':
            if is_null(ex, data): return rc(NULL())
            mp = MapV()
            for e in f('elements').items:
                kv = e.v; kfs = s.prog.decls.structs['KeyValuePair']
                key = kv.fields[kfs.index('key')].v.concrete()
                mp.d[key] = Cell(s.eval(ex, kv.fields[kfs.index('value')].v, data))     # later duplicate key wins
            return rc(mk_enum('Variable', 'Object', [mp]))
        if k == 'Slice':
            step = f('step'); sc = step.concrete()
            # a zero step is an error of the expression itself (specification: "If the given step is 0, an error MUST be raised")
            if sc == 0 or (sc is None and ex.branch_bool(Bool(step.bv == 0))): raise SpecError('invalid-slice')
            if not tag_is(ex, data, 'Array'): return rc(NULL())
            items = val(data).fields[0].v.items; L = len(items)
            def o(x):
                x = val(x); return None if x.variant == 'None' else x.fields[0].v
            st, sp = o(f('start')), o(f('stop'))
            if sc is not None and all(v is None or v.concrete() is not None for v in (st, sp)):
                g = lambda v: None if v is None else v.concrete()
                return mkarr([Cell(c.v) for c in list(items)[slice(g(st), g(sp), sc)]])
            # symbolic parts: the candidate results are the arithmetic progressions inside range(L); the solver picks the one Python's rule selects
            from .c07 import slice_bounds, positions_ok
            cands = [[]] + [[a + i * d for i in range(n)] for n in range(1, L + 1) for a in range(L) for d in ([1] if n == 1 else range(-L, L + 1)) if d != 0 or n == 1
                            if all(0 <= a + i * d < L for i in range(n))]
            uniq = []
            for c in cands:
                if c not in uniq: uniq.append(c)
            b = lambda v: None if v is None else v.bv
            bnds = slice_bounds(L, b(st), b(sp), step.bv)
            pos = ex.choose([(tuple(c), positions_ok(bnds, c)) for c in uniq])
            return mkarr([Cell(items[i].v) for i in pos])
        raise Unsupported(f'oracle: node {k}')

def same(ex, a, b, path='$'):
    """implementation result vs oracle result; returns None (provably equal on this path) or a description of a difference
    (with ex.diff_constraint set when the difference depends on scalars)"""
    a, b = val(a), val(b)
    if a is b: return None
    ta, tb = type_of(ex, a), type_of(ex, b)
    if ta != tb: return f'{path}: type differs (impl={ta} spec={tb})'
    if ta == 'Null': return None
    if ta == 'Bool':
        sat, _ = ex.eng.check(ex.pc + [a.fields[0].v.b != b.fields[0].v.b])
        if sat: ex.assume(a.fields[0].v.b != b.fields[0].v.b); return f'{path}: boolean differs'
        return None
    if ta == 'String':
        x, y = a.fields[0].v.concrete(), b.fields[0].v.concrete()
        if x is None or y is None: raise Unsupported('same: symbolic string')
        return None if x == y else f'{path}: string differs ({x!r} vs {y!r})'
    if ta == 'Number':
        x, y = a.fields[0].v, b.fields[0].v
        return None if (x.kind, MM.cval(x.val)) == (y.kind, MM.cval(y.val)) else f'{path}: number differs'
    if ta == 'Array':
        xa, xb = a.fields[0].v.items, b.fields[0].v.items
        if len(xa) != len(xb): return f'{path}: length {len(xa)} vs {len(xb)}'
        for i, (p, q) in enumerate(zip(xa, xb)):
            d = same(ex, p.v, q.v, f'{path}[{i}]')
            if d: return d
        return None
    if ta == 'Object':
        ma, mb = a.fields[0].v, b.fields[0].v
        if list(ma.keys()) != sorted(mb.d, key=lambda x: [ord(c) for c in x]):
            return f'{path}: keys/order {list(ma.keys())} vs {sorted(mb.d)}'
        for kk in ma.d:
            d = same(ex, ma.d[kk].v, mb.d[kk].v, f'{path}.{kk}')
            if d: return d
        return None
    if ta == 'Expref': return None
