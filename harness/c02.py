"""C02 — every built-in computes the specified value (engine M; numeric kernels additionally over fully symbolic numbers)."""
import z3, json, time
from mirsym.core import *
from mirsym import models as MM, sym as SY
from vf import explore as XP, par
from vf.explore import Summary
from .common import *
from . import funcs as F, funcjob as FJ

PROG = None; SEED = 0

def job_numeric(item):
    """abs / ceil / floor over a fully symbolic serde_json::Number; sum / avg over <= 3 fully symbolic numbers (z3 Float64, RNE)"""
    name, n, deadline = item
    prog = PROG; eng = Engine(prog); eng.deadline = deadline; S = Summary(); XP.init_decls(prog)
    ex0 = PathExec(eng, []); rtc = XP.mk_runtime(ex0)
    LIM = 1 << 53
    def as_fp(num):
        if num.kind == 'float': return num.val.f
        return z3.fpUnsignedToFP(z3.RNE(), num.val.bv, z3.Float64()) if num.kind == 'pos' else z3.fpSignedToFP(z3.RNE(), num.val.bv, z3.Float64())
    def body(ex):
        nums = []
        for i in range(n):
            x = SY.sym_number(ex, None, kinds=('pos', 'neg', 'float') if n <= 1 else ('float',))
            if x.kind == 'pos': ex.assume(z3.ULE(x.val.bv, LIM))
            if x.kind == 'neg': ex.assume(x.val.bv >= -LIM)
            nums.append(x)
        ex.u_nums = nums
        mkv = lambda x: Ptr(Cell(mk_enum('Variable', 'Number', [x])), 'rc')
        if name in ('sum', 'avg'): argv = mk_enum('Variable', 'Array', [VecV([Cell(mkv(x)) for x in nums])])
        else: argv = mk_enum('Variable', 'Number', [nums[0]])
        node = mk_ast(prog, 'Function', name=rstr(name), args=VecV([Cell(mk_ast(prog, 'Literal', offset=Int(0, 'usize'), value=Ptr(Cell(argv), 'rc')))]), offset=Int(7, 'usize'))
        return XP.interpret(ex, node, Ptr(Cell(SY.NULL()), 'rc'), FJ.EXPR_TEXT, rtc)
    def wit(ex, extra=()):
        sat, m = eng.check(ex.pc + list(extra))
        if not sat: return None
        from vf.native import tag_num
        out = []
        for x in ex.u_nums:
            out.append(tag_num('float', SY.fval(x.val, m)) if x.kind == 'float' else tag_num(x.kind, MM.cval(x.val, m)))
        return out
    def on_path(ex, r):
        S['paths'] += 1; S['outcomes'][r[0]] += 1
        if r[0] == 'abort': return
        if r[0] == 'unsupported': S.inconclusive(f'{name} numeric: ' + XP.short_unsupported(r[1])); return
        if r[0] == 'panic':
            w = wit(ex)
            if w: S.cand('c05:function-panic', f'{name} panics: {r[1]}', {'fn': name, 'numbers': w}, {'op': 'search', 'expr': f'{name}(@)', 'doc': w if name in ('sum', 'avg') else w[0]}, expected='no panic')
            return
        out = r[1]; fps = [as_fp(x) for x in ex.u_nums]
        rne = z3.RNE()
        if name == 'abs': exp = z3.fpAbs(fps[0])
        elif name == 'ceil': exp = z3.fpRoundToIntegral(z3.RTP(), fps[0])
        elif name == 'floor': exp = z3.fpRoundToIntegral(z3.RTN(), fps[0])
        else:
            acc = z3.FPVal(0.0, z3.Float64())
            for f in fps: acc = z3.fpAdd(rne, acc, f)
            exp = acc if name == 'sum' else z3.fpDiv(rne, acc, z3.FPVal(float(n), z3.Float64()))
        finite = z3.Not(z3.Or(z3.fpIsNaN(exp), z3.fpIsInf(exp)))
        if out.variant == 'Err':
            if name == 'avg' and n == 0:
                S.cand('c02:avg-empty', 'avg of an empty array is an error (specification: null)', {'expr': 'avg(`[]`)'}, {'op': 'search', 'expr': 'avg(`[]`)', 'doc': None}, expected=None); return
            e_ = out.fields[0].v
            if XP.reason_kind(e_) == 'parse':
                w0 = wit(ex)
                if w0: S.cand('c12:nonfinite-result-as-parse', f'{name}: a failing search (non-finite result) reports a Parse-class error with expression {XP.err_field(e_, "expression").concrete()!r}', {'fn': name, 'numbers': w0}, {'op': 'search', 'expr': f'{name}(@)', 'doc': w0 if name in ('sum', 'avg') else w0[0]}, expected='runtime error')
            w = wit(ex, [finite])
            if w: S.cand(f'c02:{name}-fails', f'{name} fails although the result is a finite number', {'fn': name, 'numbers': w}, {'op': 'search', 'expr': f'{name}(@)', 'doc': w if name in ('sum', 'avg') else w[0]}, expected='a number')
            else: S['vacuity'][f'{name} non-finite result is an error'] = True
            return
        res = MM.deref_all(out.fields[0].v)
        if name == 'avg' and n == 0:
            if res.variant == 'Null': S['vacuity']['avg([]) is null'] = True
            else: S.cand('c02:avg-empty', 'avg of an empty array is not null', {'expr': 'avg(`[]`)'}, {'op': 'search', 'expr': 'avg(`[]`)', 'doc': None}, expected=None)
            return
        if res.variant != 'Number':
            w = wit(ex); S.cand(f'c02:{name}-wrong-value', f'{name} returns a {res.variant}', {'fn': name, 'numbers': w}, {'op': 'search', 'expr': f'{name}(@)', 'doc': w if name in ('sum', 'avg') else w[0]}, expected='a number'); return
        got = as_fp(res.fields[0].v)
        if z3.simplify(got).eq(z3.simplify(exp)):
            # the implementation computed syntactically the same IEEE term as the specification formula (and took the finite branch of from_f64): proved without a query
            w = None; S['outcomes']['proved-by-term-identity'] += 1
        else:
            bad = z3.Or(z3.Not(finite), z3.Not(z3.fpEQ(got, exp)))
            w = wit(ex, [bad])
        if w is not None:
            S.cand(f'c02:{name}-wrong-value', f'{name} does not return the specified number', {'fn': name, 'numbers': w}, {'op': 'search', 'expr': f'{name}(@)', 'doc': w if name in ('sum', 'avg') else w[0]}, expected='numeric')
        else:
            S['vacuity'][f'{name} numeric agrees'] = True
            if (S['paths'] + SEED) % 3 == 0:
                w2 = wit(ex)
                if w2:
                    a = XP.worker_native().request({'op': 'search', 'expr': f'{name}(@)', 'doc': w2 if name in ('sum', 'avg') else w2[0]})
                    sat, m = eng.check(ex.pc)
                    if a.get('kind') == 'ok': S['replayed'] += 1
                    S.sample({'harness': 'numeric ' + name, 'numbers': w2, 'native': a.get('value')}, cap=2)
    nres, rest = eng.explore(body, on_path)
    if rest: S.inconclusive(f'{name} numeric: deadline after {nres} paths')
    S.absorb_engine(eng)
    return S

def task(item):
    if item[0] == 'num': return job_numeric(item[1:])
    _, name, lists, dl, nest = item
    return FJ.call_job(PROG, name, lists, dl, seed=SEED, mode='values', nest=nest)

def py_from_tagged(v):
    from vf.native import untag
    return untag(v)

def confirm(c, nd, nr):
    obs = {'dev': nd.request(c['request']), 'release': nr.request(c['request'])}
    if c['key'].endswith('panic'): return any(o.get('kind') in ('panic', 'abort', 'hang') for o in obs.values()), obs
    d = obs['dev']
    if c['key'] == 'c02:avg-empty': return d.get('kind') != 'ok' or d.get('value') is not None, obs
    if c['key'].endswith('-unstable'):
        return any(o.get('kind') != 'ok' or o.get('value') != c['expected'] for o in obs.values()), obs
    if c['expected'] in ('numeric', 'a number'):
        # re-evaluate the numeric specification in Python on the concrete witness
        from vf.native import untag
        import math
        fn = c['witness']['fn']; xs = [untag(x) for x in c['witness']['numbers']]
        if fn == 'abs': want = abs(float(xs[0]))
        elif fn == 'ceil': want = float(math.ceil(xs[0])) if abs(xs[0]) < 2 ** 53 else float(xs[0])
        elif fn == 'floor': want = float(math.floor(xs[0])) if abs(xs[0]) < 2 ** 53 else float(xs[0])
        else:
            s_ = 0.0
            for x in xs: s_ += float(x)
            want = s_ if fn == 'sum' else s_ / len(xs)
        if math.isinf(want) or math.isnan(want): return False, obs
        return d.get('kind') != 'ok' or not isinstance(untag(d.get('value')), (int, float)) or float(untag(d['value'])) != want, obs
    if c['key'].endswith('-fails') or c['key'] == 'c06:rejects-well-typed-call': return d.get('kind') != 'ok', obs
    if c['key'].endswith('-missing-error'): return d.get('kind') == 'ok', obs
    if c['key'].endswith('-wrong-error'): return d.get('kind') == 'err' and d.get('reason_kind') not in F.ARITY.get(c['expected'], (c['expected'],)), obs
    if c['key'].endswith('-wrong-value'):
        if c['expected'] is not None: return d.get('kind') != 'ok' or d.get('value') != c['expected'], obs
        return d.get('kind') == 'ok', obs       # predicate-specified: the engine's reading of the native-identical value is recorded
    return False, obs

def run(run):
    global PROG, SEED
    PROG = run.program(); XP.init_decls(PROG); SEED = run.seed
    run.native('dev')
    XP.run_translator_validation(run, PROG, every=8 if run.tier == 'quick' else 1)
    quick = run.tier == 'quick'; dl = run.deadline
    A = 2 if quick else 4
    U = FJ.universes(A)
    jobs = []
    for name, lists in U.items():
        jobs.append(('call', name, lists, dl, None))
        # heavy first positions are sharded
    big = [j for j in jobs if max(len(l) for l in j[2]) > 60]
    for j in big:
        jobs.remove(j); name, lists = j[1], j[2]
        k = max(range(len(lists)), key=lambda i: len(lists[i])); opts = lists[k]; nsh = 12 if quick else 48
        for sh in range(nsh):
            sub = opts[sh::nsh]
            if sub: jobs.append(('call', name, lists[:k] + [sub] + lists[k + 1:], dl, None))
    nests = ['abs', 'length', 'sort', 'keys', 'to_number', 'not_null', 'max_by', 'avg'] if quick else list(U)
    for name in nests:
        small = [l[:6] for l in U[name]]
        jobs.append(('call', name, small, dl, 'projection')); jobs.append(('call', name, small, dl, 'to_array'))
    jobs += [('num', f, 1, dl) for f in ('abs', 'ceil', 'floor')] + [('num', f, n, dl) for f in ('sum', 'avg') for n in range(0, (3 if quick else 4))]
    run.bounds = {'argument tuples': f'for each of the 26 built-ins every tuple from per-position representative universes that satisfy the signature (arrays of <= {A} elements (<= 3 for sort, max, min and the by-functions) incl. duplicates and ties, strings incl. non-ASCII and astral, objects over {{a,b,é}}, '
                                     'numbers incl. negatives/fractions/integer-vs-float spellings, expression references @, a, b, length(@), to_number(@), abs(@), to_array(@), nosuch(@))',
                  'numeric kernels': 'abs/ceil/floor/sum/avg of one serde_json::Number (any finite f64; integers with |x| <= 2^53); sum/avg over arrays of 2' + ('' if quick else '-3') + ' arbitrary finite doubles, compared in IEEE double arithmetic (z3 Float64)',
                  'nesting': 'each call also as the right-hand side of a projection and as an argument of another call (to_array)'}
    run.outside = [f'arrays longer than {A} (in particular > 20 elements, where std switches sorting algorithm)', 'integers beyond 2^53 in abs/ceil/floor (the implementation computes in f64; stated, not claimed)', 'strings outside the representative universe for the string predicates']
    run.assumes = ['harness/funcs.py is the function specification', 'sort/sort_by: slice::sort / sort_by are modelled as a stable sort w.r.t. the comparator, which is executed from the MIR']
    run_jobs(run, jobs, task, 'mirsym: built-in functions vs the function specification')
    run.cands = [c for c in run.cands if c['key'].startswith(('c02:', 'c05:'))]
    run.confirm_all(confirm)
