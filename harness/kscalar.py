"""shared driver for the Kani scalar harnesses (C08, C14, C17)"""
from vf import kani as K

class nf_wrap:
    """a fixed answer presented as a native client (C01.confirm asks dev and release)"""
    def __init__(s, ans): s.ans = ans
    def request(s, req): return s.ans

def run_kani_only(run, names, bounds, outside, assumes, features=(), timeout=None, keyprefix='k'):
    run.bounds = dict(run.bounds or {}, **bounds); run.outside = outside; run.assumes = assumes
    res = K.run_harnesses(run, names, timeout=timeout or (600 if run.tier == 'quick' else 2400), features=features)
    for r in res:
        if not r['failed']: continue
        vals = r.get('values')
        run.cands.append({'key': f"{keyprefix}:{r['harness']}", 'what': 'Kani: ' + '; '.join(c['desc'] for c in r['failed']), 'witness': {'harness': r['harness'], 'kani_any_values_le_bytes': vals},
                          'request': {'op': 'kani-playback', 'harness': r['harness'], 'values': vals, 'features': list(features)}, 'expected': 'assertions hold'})
    for r in res:
        run.sample({'harness': r['harness'], 'verdict': r['verdict'], 'checks': r['n_checks'], 'verification_s': r['verification_s']})
    def confirm(c, nd, nr):
        if c.get('features') and c['request'].get('op') in ('search', 'compile'):
            # a difference found on a feature build: the same request on drivers built with and without the feature
            from vf import native as nat
            from . import c01 as C01
            feats = tuple(c['features']); nat.build_driver(('dev',), feats)
            nf = nat.Native('dev', features=feats); of = nf.request(c['request']); nf.close()
            bad, obs = C01.confirm(c, nf_wrap(of), nf_wrap(of))
            obs = {'with ' + '+'.join(feats): of, 'default': nd.request(c['request'])}
            return bad, obs
        if c['request'].get('op') == 'value_conv':
            obs = {'dev': nd.request(c['request']), 'release': nr.request(c['request'])}
            if features:          # the candidate comes from MIR built with a feature: the conversions may differ there (specialized routes members of an owned object through the borrowed path), so ask a driver built with it too
                try:
                    from vf import native as nat
                    nat.build_driver(('dev',), tuple(features)); nf = nat.Native('dev', features=tuple(features)); obs['dev with ' + '+'.join(features)] = nf.request(c['request']); nf.close()
                except Exception as e: obs['feature driver'] = {'kind': 'skipped', 'note': repr(e)[:200]}
                if any(o.get('kind') == 'ok' and not o.get('equal') for o in obs.values()): return True, obs
            if all(o.get('kind') == 'skipped' for o in obs.values()): return True, {'note': 'specialised entry point: not reachable in the default-feature replay driver; the model-level counterexample (value, expected, got) is reported', **obs}
            return any(o.get('kind') != 'ok' or not o.get('equal') for o in obs.values()), obs
        if c['request'].get('op') == 'deser':
            obs = {'dev': nd.request(c['request']), 'release': nr.request(c['request'])}
            return any(o.get('kind') != 'ok' or not o.get('equal') for o in obs.values()), obs
        if c['request'].get('op') == 'serde_repeat':
            obs = {'dev': nd.request(c['request']), 'release': nr.request(c['request'])}
            return any(o.get('kind') != 'ok' or not o.get('stable') for o in obs.values()), obs
        if c['request'].get('op') == 'serde':
            obs = {'dev': nd.request(c['request']), 'release': nr.request(c['request'])}
            return any(o.get('kind') != 'ok' or o.get('library') != o.get('serde_json') for o in obs.values()), obs
        # the counterexample is replayed by Kani's own concrete playback (generated unit test run natively against the crate)
        ok_, out = K.playback_native(c['request']['harness'], features=tuple(c['request']['features']), values=c['request'].get('values'))
        return ok_, {'playback': out[-600:]}
    run.confirm_all(confirm)
