"""C17 — cargo features change representation, not meaning (partial).
K with --features specialized: each specialised ToJmespath conversion equals the generic serde path on every value of its type.
sync: the mirsym translator validation + the C07 slice kernel are re-run on the MIR generated with --features sync."""
from vf import explore as XP
from .kscalar import run_kani_only
from . import c07 as C07
from .common import run_jobs
PROG_SPEC = None
def task(item):
    from . import serdejob as SJ
    return SJ.conv_job(PROG_SPEC, item[0], item[1], item[2])
NAMES = ['c17_spec_i8', 'c17_spec_i16', 'c17_spec_i32', 'c17_spec_i64', 'c17_spec_isize', 'c17_spec_u8', 'c17_spec_u16', 'c17_spec_u32', 'c17_spec_u64', 'c17_spec_usize', 'c17_spec_f32', 'c17_spec_f64', 'c17_spec_bool_unit_str']
def run(run):
    # ---- sync: same outcomes on the Arc build for the whole compliance suite (through the encoder) and the slice kernel
    prog = run.program(features=('sync',)); XP.init_decls(prog)
    tot = XP.run_translator_validation(run, prog, every=4 if run.tier == 'quick' else 1)
    run.extra['sync_build'] = {'compliance_cases_reproduced_on_sync_mir': tot['passed'], 'of': tot['total']}
    if tot['passed'] != tot['total']:
        run.cands.append({'key': 'c17:sync-differs', 'what': f"the sync build does not reproduce {tot['total'] - tot['passed']} compliance outcomes", 'witness': tot['failed'][:3], 'request': {'op': 'none'}, 'expected': 'same outcomes'})
    run.paths += tot['passed']; run.queries += 1
    # ---- specialized: the fast-path conversions of serde_json::Value / &Value (and the TryFrom impls they use) on symbolic Value trees, from the MIR built with the feature
    global PROG_SPEC
    PROG_SPEC = run.program(features=('specialized',)); XP.init_decls(PROG_SPEC)
    run.native('dev')
    jobs = [(e, d, run.deadline) for e in ('to_jmespath_value', 'to_jmespath_ref', 'try_from_owned', 'try_from_ref') for d in (1, 2)]
    run_jobs(run, jobs, task, 'mirsym (--features specialized): specialised Value conversions vs the JSON image')
    for c in run.cands:
        if c['key'].startswith('c08:'): c['key'] = 'c17:' + c['key'][4:]
    # ---- compile + search on the feature builds: core forms on lazily symbolic documents, executed from the MIR generated WITH the feature, against the
    # reference evaluator (the same oracle the default build is checked against in C01); path models are replayed on the default native build
    from . import c01 as C01
    import time as _t
    cat = C01.catalogue(); n = 36 if run.tier == 'quick' else len(cat)
    sub = list(dict.fromkeys(cat[(i * 7 + run.seed) % len(cat)] for i in range(n)))
    for feat, pr in (('sync', prog), ('specialized', PROG_SPEC)):
        run.deadline = max(run.deadline, _t.time() + (60 if run.tier == 'quick' else 1200))
        C01.PROG = pr; C01.SEED = run.seed
        n0 = len(run.cands)
        run_jobs(run, [('expr', e, 2, 2, run.deadline, 'catalogue/' + feat, 700) for e in sub], C01.task, f'mirsym (--features {feat}): core forms on symbolic documents vs the reference evaluator')
        for c in run.cands[n0:]:
            c['key'] = f'c17:{feat}:' + c['key']; c['features'] = [feat]
    run_kani_only(run, NAMES,
        bounds={'specialized': 'x.to_jmespath() == Variable::from_serializable(x) for EVERY x of i8..i64, isize, u8..u64, usize, finite f32/f64, bool, (), and ASCII &str of <= 2 bytes (crate built with --features specialized)',
                'specialized (M)': 'ToJmespath for serde_json::Value and &Value and the TryFrom impls behind them on solver-chosen Value trees (depth 1 with fully symbolic numbers, depth 2 structure), MIR generated with --features specialized',
                'sync': 'MIR regenerated with --features sync: the compliance suite (a rotating quarter in quick) reproduces the same outcomes through the encoder',
                'compile+search on the feature builds': 'catalogue expressions (36 rotating in quick, all in thorough) on documents of depth 2, arrays <= 2, executed from the MIR built with --features sync and with --features specialized, against the reference evaluator; counterexamples are replayed on a replay driver built with the same feature'},
        outside=['equivalence of whole compile/search runs between separately built binaries is a differential test, not a solver query: not claimed', 'Variable / Rcvar / String specialisations (identity wrappers)', 'non-finite floats (the two paths differ by design: error vs null)'],
        assumes=['Rc::drop_slow and fmt::format are stubbed'], features=('specialized',), keyprefix='c17')
