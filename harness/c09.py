"""C09 — raw strings, JSON literals and quoted identifiers denote exactly their value.
(1) text -> value: the real lexer on delimited forms with symbolic content vs the reference lexer (token payloads compared by the solver);
(2) value -> text -> value: for every content s (L symbolic code points) the documented spelling of s lexes to s (raw strings, quoted identifiers, JSON string literals);
(3) the Field/Literal nodes built by the parser carry the token payloads; unquoted identifiers select exactly that member (Variable::get_field)."""
import z3, json, time
from mirsym.core import *
from mirsym import models as MM, sym as SY, jsonmodel as JM
from vf import explore as XP, par
from vf.explore import Summary
from .common import *
from . import lexjob as LJ, pubconfirm as PC, lexref as LR

PROG = None; SEED = 0

def job_spell(item):
    """value -> spelling -> token.  form in raw | quoted | literal-string"""
    form, L, deadline = item
    prog = PROG; eng = Engine(prog); eng.deadline = deadline; S = Summary(); XP.init_decls(prog)
    def body(ex):
        cs = SY.sym_chars(ex, L); ex.u_cs = cs
        sp = []
        if form == 'raw':
            # spellable contents: with \' as the only escape, a backslash directly before a quote or at the very end has no spelling
            for i, c in enumerate(cs):
                nxtq = (cs[i + 1].bv == ord("'")) if i + 1 < L else z3.BoolVal(True)
                ex.assume(z3.Not(z3.And(c.bv == ord('\\'), nxtq)))
            sp.append("'")
            for c in cs:
                if ex.branch_bool(Bool(c.bv == ord("'"))): sp += ['\\', "'"]
                else: sp.append(c)
            sp.append("'")
        else:
            q = '"' if form == 'quoted' else '`'
            sp.append(q)
            if form == 'literal-string': sp.append('"')
            for c in cs:
                x = c.bv
                if ex.branch_bool(Bool(x == ord('"'))): sp += ['\\', '"']
                elif ex.branch_bool(Bool(x == ord('\\'))): sp += ['\\', '\\']
                elif form == 'literal-string' and ex.branch_bool(Bool(x == ord('`'))): sp += ['\\', '`']
                elif ex.branch_bool(Bool(z3.ULT(x, 0x20))):
                    k = ex.concretize_int(c, 'control char'); sp += list('\\u%04x' % k)
                else: sp.append(c)
            if form == 'literal-string': sp.append('"')
            sp.append(q)
        ex.u_sp = sp
        r = ex.call('tokenize', [Ptr(Cell(StrV(sp)))])
        if r.variant != 'Ok': return 'the spelling is rejected'
        toks = r.fields[0].v.items
        if len(toks) != 2: return f'{len(toks) - 1} tokens instead of one'
        tok = MM.deref_all(toks[0].v.fields[1].v)
        if form == 'quoted':
            if tok.variant != 'QuotedIdentifier': return f'token is {tok.variant}'
            got = tok.fields[0].v.chars
        else:
            if tok.variant != 'Literal': return f'token is {tok.variant}'
            v = MM.deref_all(tok.fields[0].v)
            if v.variant != 'String': return f'literal is a {v.variant}'
            got = v.fields[0].v.chars
        bad = LJ.chars_equal_bad(got, cs)
        if bad is True: return 'content length differs'
        if bad is not None:
            sat, _ = eng.check(ex.pc + [bad])
            if sat: ex.assume(bad); return 'content differs'
        return None
    def on_path(ex, r):
        S['paths'] += 1; S['outcomes'][r[0]] += 1
        if r[0] == 'abort': return
        if r[0] == 'unsupported': S.inconclusive(f'spell {form}: ' + XP.short_unsupported(r[1])); return
        sat, m = eng.check(ex.pc)
        if not sat: return
        text = LJ.text_of(ex.u_sp, m) if hasattr(ex, 'u_sp') else None; content = LJ.text_of(ex.u_cs, m)
        if r[0] == 'panic':
            S.cand('c05:lexer-panic', f'compile panics: {r[1]}', {'expr': text}, {'op': 'compile', 'expr': text}, expected='no panic'); return
        if r[1] is not None:
            S.cand(f'c09:spelling-{form}', f'{form} spelling of a string does not denote it: {r[1]}', {'expr': text, 'content': content}, {'op': 'search', 'expr': text, 'doc': {content: 'HIT'} if form == 'quoted' else None},
                   expected='HIT' if form == 'quoted' else content); return
        S['vacuity'][f'spell {form} proved'] = True
        if (S['paths'] + SEED) % 7 == 0:
            a = XP.worker_native().request({'op': 'search', 'expr': text, 'doc': {content: 'HIT'} if form == 'quoted' else None})
            exp = 'HIT' if form == 'quoted' else content
            if a.get('kind') == 'ok' and a.get('value') == exp: S['replayed'] += 1
            else: S['mismatches'].append({'harness': 'spell ' + form, 'expr': text, 'expected': exp, 'native': a})
            S.sample({'harness': 'spelling ' + form, 'content': content, 'expr': text}, cap=2)
    n, rest = eng.explore(body, on_path)
    if rest: S.inconclusive(f'spell {form} L={L}: deadline, {len(rest)} prefixes unexplored')
    S.absorb_engine(eng)
    return S

def job_field(item):
    """unquoted / quoted identifiers build Field{name} and select exactly the member of that name"""
    deadline, = item
    prog = PROG; eng = Engine(prog); eng.deadline = deadline; S = Summary(); XP.init_decls(prog)
    names = ['a', 'ab', 'a_1', '_', 'A', 'é', 'a b', '', '"', '\\', 'a\nb', '\U0001d11e']
    ex0 = PathExec(eng, []); rtc = XP.mk_runtime(ex0)
    for nm in names:
        ident = nm.isascii() and nm.replace('_', 'a').isalnum() and not nm[0].isdigit() if nm else False
        for text in ([nm] if ident else []) + [json.dumps(nm, ensure_ascii=False), json.dumps(nm, ensure_ascii=True)]:
            ex = PathExec(eng, [])
            try:
                r = XP.parse_expr(ex, text)
                if r.variant != 'Ok': S.cand('c09:identifier-rejected', 'an identifier spelling is rejected', {'expr': text}, {'op': 'search', 'expr': text, 'doc': {nm: 'HIT'}}, expected='HIT'); continue
                ast = MM.deref_all(r.fields[0].v)
                okk = ast.variant == 'Field' and ast_field(prog, ast, 'name').concrete() == nm
                # evaluation on an object with the member, a near-miss member, and without
                for doc, want in (({nm: 1, nm + 'x': 2}, 1), ({nm + 'x': 2}, None)):
                    out = XP.interpret(ex, ast, Ptr(Cell(MM.py_to_variable(doc)), 'rc'), text, rtc)
                    got = MM.variable_to_py(ex, out.fields[0].v) if out.variant == 'Ok' else 'ERR'
                    okk = okk and got == want
                S['paths'] += 1; S['outcomes']['ok'] += 1
                if not okk: S.cand('c09:identifier-selects-other', 'identifier does not select exactly the member of that name', {'expr': text, 'name': nm}, {'op': 'search', 'expr': text, 'doc': {nm: 'HIT', nm + 'x': 'MISS'}}, expected='HIT')
                else: S['vacuity']['identifier selects member'] = True
            except (Unsupported, Panic, PathAbort) as e:
                S.inconclusive(f'field {text!r}: {type(e).__name__} {str(e)[:120]}')
    S.absorb_engine(eng)
    return S

def task(item):
    return {'spell': job_spell, 'field': job_field}[item[0]](item[1:])

def confirm_values_by_search(text, nd):
    """several lexemes in one text: every literal / raw string of the text is searched on its own place in a multi-select list built from the SAME text
    (the lexer sees all lexemes together); the values must be the reference lexer's"""
    ex = PC.ConcreteEx()
    try: toks = LR.ref_tokenize(ex, list(text))
    except Exception: return None
    lits = [(p_, pl) for p_, k_, pl in toks if k_ == 'Literal']
    if len(lits) < 2: return None
    ends = [p_ for p_, _, _ in toks]
    pieces = []
    for p_, pl in lits:
        nxt = min(e for e in ends if e > p_)
        pieces.append(text.encode()[p_:nxt].decode().strip())
    expr = '[' + ', '.join(pieces) + ']'
    want = [PC.var_to_tagged(pl) for _, pl in lits]
    a = nd.request({'op': 'search', 'expr': expr, 'doc': True})          # any non-null document: a multi-select on null is null
    return (a.get('kind') != 'ok' or a.get('value') != want), {'expr': expr, 'expected': want, 'native': a}

def confirm(c, nd, nr):
    if c['key'].endswith('panic'):
        obs = {'dev': nd.request(c['request']), 'release': nr.request(c['request'])}
        return any(o.get('kind') in ('panic', 'abort', 'hang') for o in obs.values()), obs
    if c['key'].startswith('c09:spelling') or c['key'].startswith('c09:identifier'):
        obs = {'dev': nd.request(c['request']), 'release': nr.request(c['request'])}
        return any(o.get('kind') != 'ok' or o.get('value') != c['expected'] for o in obs.values()), obs
    # text -> value differences found against the reference lexer: observable through compile/search?
    text = c['witness']['expr']
    r2 = confirm_values_by_search(text, nd)
    if r2 is not None and r2[0]: return True, r2[1]
    r = PC.confirm_literal_value(text, nd)
    if r is not None and r[0]: return True, r[1]
    return PC.confirm_text(text, nd, nr, open_exts=OPEN_EXTS)
OPEN_EXTS = ('E5-multiselect-after-projection', 'E13-expref-outside-arguments')

def run(run):
    global PROG, SEED
    PROG = run.program(); XP.init_decls(PROG); SEED = run.seed
    run.native('dev')
    XP.run_translator_validation(run, PROG, every=8 if run.tier == 'quick' else 1)
    quick = run.tier == 'quick'
    L = 2 if quick else 3
    run.bounds = {'text -> value': f'delimited forms (raw string, quoted identifier, JSON literal) with 1..{L} symbolic Unicode scalar values between the delimiters, plus pairs of lexemes with the same body under different delimiters, \\u escapes at the edges of the surrogate ranges, escape-heavy templates (backslash + symbolic character, nested quotes in literals, \\uXXXX forms)',
                  'value -> text -> value': f'every content of exactly 0..{L} Unicode scalar values: raw-string spelling (only \\\' is an escape), quoted-identifier spelling and JSON string literal spelling',
                  'identifiers': 'a committed list of 12 member names (ASCII, non-ASCII, empty, with quote/backslash/newline/astral) in unquoted, quoted and \\u-escaped spelling'}
    run.outside = [f'contents longer than {L} characters', 'JSON literals other than strings are compared only through the JSON model (numbers/containers: C08)']
    run.assumes = ['raw strings: contents with a backslash directly before a quote or at the end have no spelling under the property\'s own escape rule and are excluded (listed assume)',
                   'the JSON reader model (mirsym/jsonmodel.py) stands for serde_json::from_str; it is differentially tested against the native serde_json on every run (json_model_selftest)']
    json_selftest(run)
    specs = []
    for q in ["'", '"', '`']:
        for n in range(0, L + 1): specs.append([q] + [None] * n + [q])
        specs.append([q, '\\', None, q]); specs.append([q, None, '\\', None, q]) if not quick else None
        specs.append([q, None, None]) if quick else specs.append([q, None, None, None])
    specs += [['`', '"', None, '"', '`'], ['`', '"', '\\', None, '"', '`'], ['"', '\\', 'u', ('set', '0dD'), ('set', '08cC'), ('set', '0aF'), ('set', '019'), '"'],
              ['`', '[', None, ']', '`'], ['`', None, None, '`'], ['`', ' ', None, ' ', '`'], ['`', '\\', '`', None, '`'], ["'", '\\', "'", None, "'"]]
    # escape-heavy contents: every string of <= 5 characters over {backslash, the delimiter, a letter} between the delimiters (and unterminated)
    for q in ["'", '"', '`']:
        alpha = ('set', '\\' + q + 'a')
        for n in (3, 4, 5): specs.append([q] + [alpha] * n + [q])
        specs.append([q] + [alpha] * 4)
    # the same body under two different delimiters in one expression (each lexeme must be decoded by its own rule), with a symbolic body character as well
    for a_, b_ in (("'", '`'), ('`', "'"), ('"', '`'), ('`', '"'), ("'", '"')):
        for body in ('1', 'null', '"a"', 'true'):
            if (a_ == '"' or b_ == '"') and body == '"a"': continue
            specs.append(list(a_ + body + a_ + ' == ' + b_ + body + b_))
    specs += [["'", ('set', '1ntx'), "'", ' ', '=', '=', ' ', '`', ('set', '1ntx'), '`']]
    # \u escapes at the edges of the surrogate ranges (pairs, lone halves, reversed pairs) in quoted identifiers and string literals
    for hi, lo in (('d800', 'dc00'), ('dbff', 'dfff'), ('dbff', 'dc00'), ('dbfe', 'dfff'), ('d7ff', 'dc00'), ('dc00', 'd800'), ('d800', 'dbff'), ('dbff', 'e000')):
        specs.append(list('"\\u' + hi + '\\u' + lo + '"')); specs.append(list('`"\\u' + hi + '\\u' + lo + '"`'))
    specs += [list('"\\udbff"'), list('"\\udc00"'), list('"\\uDBFF\\uDFFF"'), ['"', '\\', 'u', 'd', 'b', ('set', 'efEF'), ('set', 'efEF'), '\\', 'u', 'd', ('set', 'cfCF'), ('set', '0fF'), ('set', '0fF'), '"']]
    specs = [s for s in specs if s]
    LJ.run_sharded(run, PROG, specs, 'mirsym: delimited lexemes with symbolic content vs reference lexer', keyprefix='c09')
    import time as _t
    run.deadline = max(run.deadline, _t.time() + (60 if run.tier == 'quick' else 900))      # each phase gets its own slice of the budget
    jobs = [('spell', f, n, run.deadline) for f in ('raw', 'quoted', 'literal-string') for n in range(0, L + 1)] + [('field', run.deadline)]
    run_jobs(run, jobs, task, 'mirsym: spelling round trips and identifier selection')
    run.cands = [c for c in run.cands if c['key'].startswith(('c09:', 'c05:'))]
    run.confirm_all(confirm)

JSON_CORPUS = ['null', 'true', 'false', '0', '-0', '1', '-1', '01', '1.5', '1e2', '1E+2', '1e-2', '-1.5e3', '1.', '.5', '1e', '18446744073709551615', '18446744073709551616', '-9223372036854775808', '-9223372036854775809',
               '9007199254740993', '1e400', '""', '"a"', '"\\n"', '"\\u00e9"', '"\\ud834\\udd1e"', '"\\ud834"', '"\\udd1e"', '"\\x"', '"a', '"\t"', '"é"', '[]', '[1]', '[1,]', '[1 2]', '[,1]', '{}', '{"a":1}', '{"a":1,"a":2}',
               '{"a"}', '{a:1}', '{"a":1,}', ' 1 ', '1 1', 'nul', 'True', '[[[]]]', '{"a":{"b":[1,{"c":null}]}}', '\u00a01', '1\n', '"\\/"', '"\\b\\f\\r\\t"', '-', '+1', '0x1', '1e+', 'NaN', 'Infinity', "'a'", '`']
def json_selftest(run):
    """the JSON model is a model of a dependency: compare it with the native serde_json on a committed corpus"""
    from vf.native import tag_num
    n = run.native('dev'); bad = []
    eng = Engine(PROG)
    for t in JSON_CORPUS:
        t = t.encode().decode('unicode_escape') if '\\u00a0' in t or '\\n' == t[-2:] else t
        ex = PathExec(eng, [])
        k, v = JM.parse_json(ex, list(t))
        a = n.request({'op': 'from_json', 'text': t})
        want = ('ok', a.get('value')) if a.get('kind') == 'ok' else ('err', None)
        got = ('ok', PC.var_to_tagged(v)) if k == 'ok' else ('err', None)
        if got != want: bad.append((t, got, want))
    run.extra['json_model_selftest'] = {'texts': len(JSON_CORPUS), 'disagreements': bad[:5]}
    if bad: run.note_inconclusive(f'JSON model disagrees with native serde_json on {len(bad)} corpus texts, e.g. {bad[0]}')
