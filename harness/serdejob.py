"""C14 (containers): the crate's serde Serializer driven exactly as serde's generated code drives it, for values of the serde data model
(all four enum variant shapes, structs, tuples, sequences, maps, options, bytes, chars, integers, floats), executed from the real MIR of
variable.rs (Serializer, SeqState, TupleVariantState, MapState, StructVariantState) and compared with the JSON image serde_json documents."""
import z3, json, time, math
from mirsym.core import *
from mirsym import models as MM, sym as SY
from mirsym.core import model_override
from vf import explore as XP
from vf.explore import Summary
from vf.native import tag_num
from .common import *
from .funcjob import choose_from

class SerVal:
    """a value of the serde data model: (kind, ...)"""
    __slots__ = ('t',)
    def __init__(s, *t): s.t = t
    def __repr__(s): return f'ser{s.t!r}'

def _ser(ex, ser, meth, args):
    f = ex.prog.by_key.get(('Serializer', 'Serializer', meth))
    if f is None: raise Unsupported('no Serializer::' + meth)
    return ex.run_fn(f, [ser] + args)
def _st(ex, trait, ty, meth, args):
    f = ex.prog.by_key.get((trait, ty, meth))
    if f is None: raise Unsupported(f'no {trait}::{meth} for {ty}')
    return ex.run_fn(f, args)
def sref(s): return Ptr(Cell(rstr(s)), 'ref')

@model_override(r'^<.+ as (?:serde::)?(?:ser::)?Serialize>::serialize$')
def m_serialize_serval(ex, a, m):
    """what `impl Serialize` (derive-generated or serde's own impls for std types) does for a value of the data model: the sequence of
    Serializer calls prescribed by the serde data model."""
    v = a[0]
    while isinstance(v, Ptr): v = v.cell.v
    ser = a[1]
    if isinstance(v, Agg) and v.ty == 'Value': v = value_to_serval(v)          # serde_json's `impl Serialize for Value`
    if not isinstance(v, SerVal):
        # serde's own impls for the primitive std types the crate passes around (&'static str keys, ...)
        if not (isinstance(ser, Agg) and ser.ty == 'Serializer'): return NotImplemented
        if isinstance(v, StrV): return _ser(ex, ser, 'serialize_str', [Ptr(Cell(v), 'ref')])
        if isinstance(v, Int) and v.ty in ('u8', 'u16', 'u32', 'u64', 'i8', 'i16', 'i32', 'i64'): return _ser(ex, ser, 'serialize_' + v.ty, [v])
        if isinstance(v, Int) and v.ty == 'char': return _ser(ex, ser, 'serialize_char', [v])
        if isinstance(v, Bool): return _ser(ex, ser, 'serialize_bool', [v])
        if isinstance(v, F64): return _ser(ex, ser, 'serialize_f64', [v])
        # library values serialised into the crate's own Serializer (the generic ToJmespath path applied to a Variable / Rc<Variable> / &Rc<Variable>)
        if isinstance(v, Agg) and v.ty == 'Variable':
            f = ex.prog.by_key.get(('Serialize', 'Variable', 'serialize'))
            if f is None: return NotImplemented
            return ex.run_fn(f, [Ptr(Cell(v), 'ref'), ser])
        if isinstance(v, NumberV): return _ser(ex, ser, {'pos': 'serialize_u64', 'neg': 'serialize_i64', 'float': 'serialize_f64'}[v.kind], [v.val])
        if isinstance(v, VecV): return m_serialize_serval(ex, [SerVal('seq', [c.v for c in v.items]), ser], m)
        if isinstance(v, MapV):
            if not v.ordered and len(v.d) > 1: raise Unsupported('serialising a HashMap: iteration order unspecified')
            return m_serialize_serval(ex, [SerVal('map', [(rstr(k), v.d[k].v) for k in v.keys()]), ser], m)
        return NotImplemented
    t = v.t; k = t[0]
    if not (isinstance(ser, Agg) and ser.ty == 'Serializer'): raise Unsupported('SerVal serialised into a foreign serializer')
    if k in ('u8', 'u16', 'u32', 'u64', 'i8', 'i16', 'i32', 'i64', 'f32', 'f64', 'bool', 'char'): return _ser(ex, ser, 'serialize_' + k, [t[1]])
    if k == 'str': return _ser(ex, ser, 'serialize_str', [sref(t[1])])
    if k == 'bytes': return _ser(ex, ser, 'serialize_bytes', [Ptr(Cell(SliceRef([Cell(Int(b, 'u8')) for b in t[1]])), 'ref')])
    if k == 'unit': return _ser(ex, ser, 'serialize_unit', [])
    if k == 'none': return _ser(ex, ser, 'serialize_none', [])
    if k == 'some': return _ser(ex, ser, 'serialize_some', [Ptr(Cell(t[1]), 'ref')])
    if k == 'unit_struct': return _ser(ex, ser, 'serialize_unit_struct', [sref(t[1])])
    if k == 'unit_variant': return _ser(ex, ser, 'serialize_unit_variant', [sref(t[1]), Int(t[2], 'u32'), sref(t[3])])
    if k == 'newtype_struct': return _ser(ex, ser, 'serialize_newtype_struct', [sref(t[1]), Ptr(Cell(t[2]), 'ref')])
    if k == 'newtype_variant': return _ser(ex, ser, 'serialize_newtype_variant', [sref(t[1]), Int(t[2], 'u32'), sref(t[3]), Ptr(Cell(t[4]), 'ref')])
    def unwrap(r):
        if r.variant != 'Ok': raise SerErr(r)
        return r.fields[0].v
    try:
        if k in ('seq', 'tuple', 'tuple_struct'):
            items = t[-1]
            if k == 'seq': st = unwrap(_ser(ex, ser, 'serialize_seq', [some(Int(len(items), 'usize'))])); tr, meth = 'SerializeSeq', 'serialize_element'
            elif k == 'tuple': st = unwrap(_ser(ex, ser, 'serialize_tuple', [Int(len(items), 'usize')])); tr, meth = 'SerializeTuple', 'serialize_element'
            else: st = unwrap(_ser(ex, ser, 'serialize_tuple_struct', [sref(t[1]), Int(len(items), 'usize')])); tr, meth = 'SerializeTupleStruct', 'serialize_field'
            c = Cell(st)
            for it in items: unwrap(_st(ex, tr, 'SeqState', meth, [Ptr(c), Ptr(Cell(it), 'ref')]))
            return _st(ex, tr, 'SeqState', 'end', [c.v])
        if k == 'tuple_variant':
            c = Cell(unwrap(_ser(ex, ser, 'serialize_tuple_variant', [sref(t[1]), Int(t[2], 'u32'), sref(t[3]), Int(len(t[4]), 'usize')])))
            for it in t[4]: unwrap(_st(ex, 'SerializeTupleVariant', 'TupleVariantState', 'serialize_field', [Ptr(c), Ptr(Cell(it), 'ref')]))
            return _st(ex, 'SerializeTupleVariant', 'TupleVariantState', 'end', [c.v])
        if k == 'map':
            c = Cell(unwrap(_ser(ex, ser, 'serialize_map', [some(Int(len(t[1]), 'usize'))])))
            # serde's impls for maps and #[serde(flatten)] call serialize_entry, whose provided body is serialize_key + serialize_value; hand-written
            # impls may call the two halves themselves. When the crate overrides serialize_entry both call styles are explored.
            ent = ex.prog.by_key.get(('SerializeMap', 'MapState', 'serialize_entry'))
            style = 'halves' if ent is None else choose_from(ex, 'mapstyle', ['entry', 'halves'])
            ex.u_mapstyle = style
            for kk, vv in t[1]:
                if style == 'entry': unwrap(ex.run_fn(ent, [Ptr(c), Ptr(Cell(kk), 'ref'), Ptr(Cell(vv), 'ref')])); continue
                unwrap(_st(ex, 'SerializeMap', 'MapState', 'serialize_key', [Ptr(c), Ptr(Cell(kk), 'ref')]))
                unwrap(_st(ex, 'SerializeMap', 'MapState', 'serialize_value', [Ptr(c), Ptr(Cell(vv), 'ref')]))
            return _st(ex, 'SerializeMap', 'MapState', 'end', [c.v])
        if k == 'struct':
            c = Cell(unwrap(_ser(ex, ser, 'serialize_struct', [sref(t[1]), Int(len(t[2]), 'usize')])))
            for kk, vv in t[2]: unwrap(_st(ex, 'SerializeStruct', 'MapState', 'serialize_field', [Ptr(c), sref(kk), Ptr(Cell(vv), 'ref')]))
            return _st(ex, 'SerializeStruct', 'MapState', 'end', [c.v])
        if k == 'struct_variant':
            c = Cell(unwrap(_ser(ex, ser, 'serialize_struct_variant', [sref(t[1]), Int(t[2], 'u32'), sref(t[3]), Int(len(t[4]), 'usize')])))
            for kk, vv in t[4]: unwrap(_st(ex, 'SerializeStructVariant', 'StructVariantState', 'serialize_field', [Ptr(c), sref(kk), Ptr(Cell(vv), 'ref')]))
            return _st(ex, 'SerializeStructVariant', 'StructVariantState', 'end', [c.v])
    except SerErr as e: return e.r
    raise Unsupported('SerVal kind ' + k)
@model_override(r'^<.+ as (?:serde::)?(?:ser::)?Serializer>::(serialize_\w+)$')
def m_generic_into_crate_serializer(ex, a, m):
    """`<S as Serializer>::serialize_x` in generic crate code (impl Serialize for Variable) with S = the crate's own Serializer"""
    if not (a and isinstance(a[0], Agg) and a[0].ty == 'Serializer'): return NotImplemented
    f = ex.prog.by_key.get(('Serializer', 'Serializer', m.group(1)))
    if f is None: return NotImplemented
    return ex.run_fn(f, list(a))
class SerErr(Exception):
    def __init__(s, r): s.r = r
@model_override(r'^<.+ as (?:serde::)?de::Error>::custom$|^<serde_json::Error as (?:serde::)?(?:ser|de)::Error>::custom$')
def m_serde_err_custom(ex, a, m): return Agg('struct', 'SerdeJsonError', None, [Cell(rstr('custom'))])

# ------------------------------------------------------------------ oracle: the JSON image serde_json produces (serde data model -> JSON)
def image(ex, v, model):
    t = v.t; k = t[0]
    if k in ('u8', 'u16', 'u32', 'u64', 'i8', 'i16', 'i32', 'i64'):
        x = MM.cval(t[1], model); return tag_num('pos' if x >= 0 else 'neg', x)
    if k in ('f32', 'f64'):
        x = SY.fval(t[1], model)
        return None if (math.isnan(x) or math.isinf(x)) else tag_num('float', x)
    if k == 'bool': return MM.cval(t[1], model)
    if k == 'char': return chr(MM.cval(t[1], model))
    if k == 'str': return t[1]
    if k == 'bytes': return [tag_num('pos', b) for b in t[1]]
    if k in ('unit', 'none', 'unit_struct'): return None
    if k == 'some': return image(ex, t[1], model)
    if k == 'unit_variant': return t[3]
    if k == 'newtype_struct': return image(ex, t[2], model)
    if k == 'newtype_variant': return {t[3]: image(ex, t[4], model)}
    if k in ('seq', 'tuple', 'tuple_struct'): return [image(ex, x, model) for x in t[-1]]
    if k == 'tuple_variant': return {t[3]: [image(ex, x, model) for x in t[4]]}
    if k == 'map':
        out = {}
        for kk, vv in t[1]:
            ki = image(ex, kk, model)
            if not isinstance(ki, str): return ('ERR', 'key must be a string')
            out[ki] = image(ex, vv, model)
        return out
    if k == 'struct': return {kk: image(ex, vv, model) for kk, vv in t[2]}
    if k == 'struct_variant': return {t[3]: {kk: image(ex, vv, model) for kk, vv in t[4]}}
    raise ValueError(k)
def dm_json(ex, v, model):
    """data-model value -> JSON description for the replay driver's `serde` op (concrete under the model)"""
    t = v.t; k = t[0]
    if k in ('u8', 'u16', 'u32', 'u64', 'i8', 'i16', 'i32', 'i64'): return [k, str(MM.cval(t[1], model))]
    if k in ('f32', 'f64'):
        import struct
        x = SY.fval(t[1], model); return [k, '%016x' % struct.unpack('<Q', struct.pack('<d', x))[0]]
    if k == 'bool': return [k, bool(MM.cval(t[1], model))]
    if k == 'char': return [k, MM.cval(t[1], model)]
    if k in ('str', 'bytes'): return [k, t[1]]
    if k in ('unit', 'none'): return [k]
    if k == 'some': return [k, dm_json(ex, t[1], model)]
    if k == 'unit_struct': return [k, t[1]]
    if k == 'unit_variant': return [k, t[1], t[2], t[3]]
    if k == 'newtype_struct': return [k, t[1], dm_json(ex, t[2], model)]
    if k == 'newtype_variant': return [k, t[1], t[2], t[3], dm_json(ex, t[4], model)]
    if k in ('seq', 'tuple'): return [k, [dm_json(ex, x, model) for x in t[1]]]
    if k == 'tuple_struct': return [k, t[1], [dm_json(ex, x, model) for x in t[2]]]
    if k == 'tuple_variant': return [k, t[1], t[2], t[3], [dm_json(ex, x, model) for x in t[4]]]
    if k == 'map': return ['map_entry' if getattr(ex, 'u_mapstyle', None) == 'entry' else k, [[dm_json(ex, kk, model), dm_json(ex, vv, model)] for kk, vv in t[1]]]
    if k == 'struct': return [k, t[1], [[kk, dm_json(ex, vv, model)] for kk, vv in t[2]]]
    if k == 'struct_variant': return [k, t[1], t[2], t[3], [[kk, dm_json(ex, vv, model)] for kk, vv in t[4]]]
def has_err(x):
    if isinstance(x, tuple) and x and x[0] == 'ERR': return True
    if isinstance(x, list): return any(has_err(y) for y in x)
    if isinstance(x, dict): return any(has_err(y) for y in x.values())
    return False

# ------------------------------------------------------------------ value generator (solver-chosen shapes, symbolic leaves)
LEAVES = ['u8', 'i8', 'u64', 'i64', 'i32', 'u16', 'f64', 'f32', 'bool', 'char', 'str', 'unit', 'none', 'unit_struct', 'unit_variant', 'bytes']
COMPOSITE = ['some', 'newtype_struct', 'newtype_variant', 'seq', 'tuple', 'tuple_struct', 'tuple_variant', 'map', 'struct', 'struct_variant']
def gen(ex, depth, kinds=None):
    from .funcjob import choose_from
    k = choose_from(ex, 'serkind', kinds or (LEAVES + (COMPOSITE if depth > 0 else [])))
    sub = lambda: gen(ex, depth - 1)
    if k in ('u8', 'u16', 'u32', 'u64', 'i8', 'i16', 'i32', 'i64'): return SerVal(k, Int(ex.fresh(k, INT_BITS[k]), k))
    if k in ('f32', 'f64'):
        ex.nfresh += 1; f = z3.FP(f'f!{len(ex.decisions)}_{ex.nfresh}', z3.Float64())
        if k == 'f32':          # an f32 widened: representable in single precision
            g = z3.FP(f'g!{len(ex.decisions)}_{ex.nfresh}', z3.Float32()); ex.assume(z3.fpToFP(z3.RNE(), g, z3.Float64()) == f)
            return SerVal('f32', F32W(f, g))
        return SerVal('f64', F64(f))
    if k == 'bool': ex.nfresh += 1; return SerVal('bool', Bool(z3.Bool(f'b!{len(ex.decisions)}_{ex.nfresh}')))
    if k == 'char': return SerVal('char', SY.sym_chars(ex, 1)[0])
    if k == 'str': return SerVal('str', choose_from(ex, 'strv', ['', 'a', 'é']))
    if k == 'bytes': return SerVal('bytes', choose_from(ex, 'bytesv', [[], [0], [255, 1]]))
    if k in ('unit', 'none'): return SerVal(k)
    if k == 'unit_struct': return SerVal(k, 'U')
    if k == 'unit_variant': return SerVal(k, 'E', 1, 'B')
    if k == 'some': return SerVal(k, sub())
    if k == 'newtype_struct': return SerVal(k, 'N', sub())
    if k == 'newtype_variant': return SerVal(k, 'E', 0, 'A', sub())
    n = choose_from(ex, 'sernum', [0, 1, 2])
    if k in ('seq', 'tuple'): return SerVal(k, [sub() for _ in range(n)])
    if k == 'tuple_struct': return SerVal(k, 'T', [sub() for _ in range(n)])
    if k == 'tuple_variant': return SerVal(k, 'E', 2, 'C', [sub() for _ in range(n)])
    if k == 'map':
        if n == 2: n = choose_from(ex, 'mapnum', [2, 3])          # three entries: the third repeats the first key (the last one wins in serde_json)
        keys = [SerVal('str', 'k'), SerVal('char', Int(ord('c'), 'char')), SerVal('str', 'k')][:n] if n else []
        if n == 1 and choose_from(ex, 'badkey', [False, True]): return SerVal(k, [(SerVal('unit'), SerVal('unit'))])          # a key that is not a string: the conversion fails (outside the property, but it must not leave anything behind)
        if n == 3: return SerVal(k, [(keys[0], sub()), (keys[1], SerVal('unit')), (keys[2], SerVal('str', 'last'))])          # the repeated key: its last value must win
        return SerVal(k, [(kk, sub()) for kk in keys])
    if k == 'struct': return SerVal(k, 'S', [(nm, sub()) for nm in ['x', 'y'][:n]])
    if k == 'struct_variant': return SerVal(k, 'E', 3, 'D', [(nm, sub()) for nm in ['x', 'y'][:n]])
    raise ValueError(k)
class F32W(F64):
    """an f32 value carried as its exact f64 widening (the crate converts with `as f64` before anything else)"""
    __slots__ = ('g',)
    def __init__(s, f, g): F64.__init__(s, f); s.g = g

def serde_job(prog, top, depth, deadline, seed=0):
    eng = Engine(prog); eng.deadline = deadline; S = Summary(); XP.init_decls(prog)
    def hidden(ex):
        out = {}
        for k, c in getattr(ex, 'statics', {}).items(): out['static ' + k] = repr(c.v)[:2000]
        for k, c in getattr(ex, 'tls', {}).items(): out['thread_local ' + k] = repr(c.v)[:2000]
        return out
    def body(ex):
        v = gen(ex, depth, kinds=[top]); ex.u_v = v
        r = ex.call('Variable::from_serializable', [v])
        # state that outlives the conversion (statics, thread-locals) must not keep changing under identical conversions -- failed ones included
        s1 = hidden(ex); ex.call('Variable::from_serializable', [v]); s2 = hidden(ex)
        if s1 != s2: ex.u_drift = [k for k in s2 if s1.get(k) != s2.get(k)][:3]
        return r
    def on_path(ex, r):
        S['paths'] += 1; S['outcomes'][r[0]] += 1
        if r[0] == 'abort': return
        if r[0] == 'unsupported': S.inconclusive(f'serde {top}: ' + XP.short_unsupported(r[1])); return
        sat, m = eng.check(ex.pc)
        if not sat: return
        want = image(ex, ex.u_v, m)
        desc = repr(ex.u_v)[:300]
        if getattr(ex, 'u_drift', None):
            S.cand('c14:hidden-state-drifts', f'state that outlives the conversion keeps changing under identical conversions of a {top}: {ex.u_drift}', {'value': desc},
                   {'op': 'serde_repeat', 'value': dm_json(ex, ex.u_v, m), 'n': 2000}, expected='the conversion after 2000 identical ones behaves like the first'); return
        if r[0] == 'panic': S.cand('c05:serialize-panic', f'from_serializable panics: {r[1]}', {'value': desc}, {'op': 'none'}, expected='no panic'); return
        out = r[1]
        if has_err(want):
            if out.variant == 'Err': S['vacuity']['non-string key rejected'] = True
            return      # maps with non-string keys are outside the property
        if out.variant != 'Ok':
            S.cand(f'c14:serialize-{top}-fails', f'serialising a {top} fails', {'value': desc, 'expected_json': want}, {'op': 'serde', 'value': dm_json(ex, ex.u_v, m)}, expected=want); return
        got = SY.tagged(ex, out.fields[0].v, m)
        # symbolic leaves: equality must hold for ALL values on the path, not only for this model
        bad = image_mismatch(ex, ex.u_v, out.fields[0].v)
        if bad is True or (bad is not None and eng.check(ex.pc + [bad])[0]):
            m2 = m
            if bad is not True:
                sat2, m2 = eng.check(ex.pc + [bad]); want = image(ex, ex.u_v, m2); got = SY.tagged(ex, out.fields[0].v, m2)
            S.cand(f'c14:serialize-{top}-wrong-image', f'the value searched for a {top} is not its serde_json image', {'value': desc, 'expected_json': want, 'got': got}, {'op': 'serde', 'value': dm_json(ex, ex.u_v, m2 if bad is not True else m)}, expected=want); return
        S['vacuity'][f'{top} image agrees'] = True
        if (S['paths'] + seed) % 9 == 0:
            a = XP.worker_native().request({'op': 'serde', 'value': dm_json(ex, ex.u_v, m)})
            if a.get('kind') == 'ok' and a.get('library') == got and a.get('serde_json') == got: S['replayed'] += 1
            else: S['mismatches'].append({'harness': 'serde', 'value': desc[:200], 'engine': got, 'native': a})
            S.sample({'harness': 'serde data model', 'value': desc[:160], 'json': got}, cap=2)
    n, rest = eng.explore(body, on_path, max_paths=60000)
    if rest: S.inconclusive(f'serde {top}: cap/deadline after {n} paths')
    S.absorb_engine(eng)
    return S

def image_mismatch(ex, v, var):
    """z3 condition (or True / None) under which the Variable produced differs from the JSON image of the data-model value"""
    var = MM.deref_all(var); t = v.t; k = t[0]
    def num_cond(x):
        if var.variant != 'Number': return True
        n = var.fields[0].v
        sx_ = z3.SignExt(64 - x.bv.size(), x.bv) if x.signed else z3.ZeroExt(64 - x.bv.size(), x.bv)
        if n.kind == 'pos': return z3.Or(sx_ != n.val.bv, (sx_ < 0) if x.signed else z3.BoolVal(False))
        if n.kind == 'neg': return z3.Or(sx_ != n.val.bv, z3.Not(sx_ < 0)) if x.signed else True
        return True
    if k in ('u8', 'u16', 'u32', 'u64', 'i8', 'i16', 'i32', 'i64'): return num_cond(t[1])
    if k in ('f32', 'f64'):
        f = t[1].f; fin = z3.Not(z3.Or(z3.fpIsNaN(f), z3.fpIsInf(f)))
        if var.variant == 'Null': return fin
        if var.variant == 'Number' and var.fields[0].v.kind == 'float': return z3.Or(z3.Not(fin), z3.fpToIEEEBV(var.fields[0].v.val.f) != z3.fpToIEEEBV(f))
        return True
    if k == 'bool': return True if var.variant != 'Bool' else var.fields[0].v.b != t[1].b
    if k == 'char':
        if var.variant != 'String' or len(var.fields[0].v.chars) != 1: return True
        c = var.fields[0].v.chars[0]
        return (c.bv if isinstance(c, Int) else z3.BitVecVal(ord(c), 32)) != t[1].bv
    if k == 'str': return None if (var.variant == 'String' and var.fields[0].v.concrete() == t[1]) else True
    if k == 'bytes':
        if var.variant != 'Array' or len(var.fields[0].v.items) != len(t[1]): return True
        for c, b in zip(var.fields[0].v.items, t[1]):
            e = MM.deref_all(c.v)
            if e.variant != 'Number' or e.fields[0].v.kind != 'pos' or e.fields[0].v.val.concrete() != b: return True
        return None
    if k in ('unit', 'none', 'unit_struct'): return None if var.variant == 'Null' else True
    if k == 'some': return image_mismatch(ex, t[1], var)
    if k == 'unit_variant': return None if (var.variant == 'String' and var.fields[0].v.concrete() == t[3]) else True
    if k == 'newtype_struct': return image_mismatch(ex, t[2], var)
    def obj1(name):
        if var.variant != 'Object' or list(var.fields[0].v.d) != [name]: return None
        return var.fields[0].v.d[name].v
    def seq(items, arr):
        arr = MM.deref_all(arr)
        if arr.variant != 'Array' or len(arr.fields[0].v.items) != len(items): return True
        cs = []
        for c, it in zip(arr.fields[0].v.items, items):
            r = image_mismatch(ex, it, c.v)
            if r is True: return True
            if r is not None: cs.append(r)
        return z3.Or(*cs) if cs else None
    def rec(pairs, o):
        o = MM.deref_all(o)
        want = {}
        for kk, vv in pairs: want[kk] = vv            # later duplicate wins
        if o.variant != 'Object' or set(o.fields[0].v.d) != set(want): return True
        cs = []
        for kk, vv in want.items():
            r = image_mismatch(ex, vv, o.fields[0].v.d[kk].v)
            if r is True: return True
            if r is not None: cs.append(r)
        return z3.Or(*cs) if cs else None
    if k == 'newtype_variant':
        inner = obj1(t[3]); return True if inner is None else image_mismatch(ex, t[4], inner)
    if k in ('seq', 'tuple', 'tuple_struct'): return seq(t[-1], var)
    if k == 'tuple_variant':
        inner = obj1(t[3]); return True if inner is None else seq(t[4], inner)
    if k == 'map':
        pairs = []
        for kk, vv in t[1]:
            if kk.t[0] == 'str': pairs.append((kk.t[1], vv))
            elif kk.t[0] == 'char': pairs.append((chr(kk.t[1].concrete()), vv))
            else: return None
        return rec(pairs, var)
    if k == 'struct': return rec(t[2], var)
    if k == 'struct_variant':
        inner = obj1(t[3]); return True if inner is None else rec(t[4], inner)
    return True


# ------------------------------------------------------------------ serde_json::Value <-> Variable conversions (C08 lossless conversion, C17 specialised paths)
def value_to_serval(v):
    """what `impl Serialize for serde_json::Value` emits, as a data-model value"""
    k = v.variant; f = v.fields
    if k == 'Null': return SerVal('unit')
    if k == 'Bool': return SerVal('bool', f[0].v)
    if k == 'String': return SerVal('str', f[0].v.concrete())
    if k == 'Number':
        n = f[0].v
        return SerVal({'pos': 'u64', 'neg': 'i64', 'float': 'f64'}[n.kind], n.val)
    if k == 'Array': return SerVal('seq', [value_to_serval(MM.deref_all(c.v)) for c in f[0].v.items])
    if k == 'Object':
        mp = f[0].v
        return SerVal('map', [(SerVal('str', kk), value_to_serval(MM.deref_all(mp.d[kk].v))) for kk in mp.keys()])
def gen_value(ex, depth, numkinds=('pos', 'neg', 'float'), lean=False):
    """a serde_json::Value chosen by the solver: shape by forks, numbers fully symbolic"""
    from .funcjob import choose_from
    k = choose_from(ex, 'vkind', (['Null', 'Number'] if lean and depth == 0 else ['Null', 'Bool', 'Number', 'String']) + (['Array', 'Object'] if depth > 0 else []))
    if k == 'Null': return mk_enum('Value', 'Null', [])
    if k == 'Bool': ex.nfresh += 1; return mk_enum('Value', 'Bool', [Bool(z3.Bool(f'vb!{len(ex.decisions)}_{ex.nfresh}'))])
    if k == 'Number': return mk_enum('Value', 'Number', [SY.sym_number(ex, None, kinds=numkinds)])
    if k == 'String': return mk_enum('Value', 'String', [rstr(choose_from(ex, 'vstr', ['', 'a', 'é']))])
    n = choose_from(ex, 'vlen', [0, 1, 2])
    if k == 'Array': return mk_enum('Value', 'Array', [VecV([Cell(gen_value(ex, depth - 1, numkinds, lean)) for _ in range(n)])])
    mp = MapV()
    for kk in ['b', 'a'][:n]: mp.d[kk] = Cell(gen_value(ex, depth - 1, numkinds, lean))
    return mk_enum('Value', 'Object', [mp])
def find_fn(prog, meth, param_type):
    c = [f for n, f in prog.fns.items() if n.endswith('>::' + meth) and f.params and f.locals[f.params[0]].replace('serde_json::', '').replace('std::rc::', '').replace('variable::', '') == param_type]
    return c[0] if len(c) == 1 else None

def conv_job(prog, entry, depth, deadline, seed=0):
    """entry: try_from_ref | try_from_owned | to_jmespath_value | to_jmespath_ref (the last two exist only with --features specialized)"""
    eng = Engine(prog); eng.deadline = deadline; S = Summary(); XP.init_decls(prog)
    f = {'try_from_ref': lambda: find_fn(prog, 'try_from', '&Value'), 'try_from_owned': lambda: find_fn(prog, 'try_from', 'Value'),
         'to_jmespath_value': lambda: find_fn(prog, 'to_jmespath', 'Value'), 'to_jmespath_ref': lambda: find_fn(prog, 'to_jmespath', '&Value')}[entry]()
    if f is None:
        S.inconclusive(f'conversion {entry}: function not found in the MIR (feature not enabled?)'); return S
    def body(ex):
        v = gen_value(ex, depth, ('pos', 'neg', 'float') if depth <= 1 else ('pos',), lean=depth > 1); ex.u_v = v; ex.u_sv = value_to_serval(v)
        arg = Ptr(Cell(v), 'ref') if entry.endswith('_ref') else v
        return ex.run_fn(f, [arg])
    def on_path(ex, r):
        S['paths'] += 1; S['outcomes'][r[0]] += 1
        if r[0] == 'abort': return
        if r[0] == 'unsupported': S.inconclusive(f'conversion {entry}: ' + XP.short_unsupported(r[1])); return
        sat, m = eng.check(ex.pc)
        if not sat: return
        want = image(ex, ex.u_sv, m); req = {'op': 'value_conv', 'entry': entry, 'value': want}
        if r[0] == 'panic': S.cand('c05:conversion-panic', f'{entry} panics: {r[1]}', {'value': want}, req, expected='no panic'); return
        out = r[1]
        if out.variant != 'Ok': S.cand(f'c08:conversion-{entry}', f'{entry} fails on a JSON value', {'value': want}, req, expected=want); return
        bad = image_mismatch(ex, ex.u_sv, out.fields[0].v)
        if bad is True or (bad is not None and eng.check(ex.pc + [bad])[0]):
            m2 = m
            if bad is not True: _, m2 = eng.check(ex.pc + [bad])
            want = image(ex, ex.u_sv, m2); got = SY.tagged(ex, out.fields[0].v, m2)
            S.cand(f'c08:conversion-{entry}', f'{entry} does not keep the JSON value', {'value': want, 'got': got}, {'op': 'value_conv', 'entry': entry, 'value': want}, expected=want); return
        S['vacuity'][f'{entry} agrees'] = True
        if (S['paths'] + seed) % 9 == 0:
            a = XP.worker_native().request(req)
            if a.get('kind') == 'ok' and a.get('equal'): S['replayed'] += 1
            elif a.get('kind') != 'skipped': S['mismatches'].append({'harness': 'conversion', 'entry': entry, 'value': want, 'native': a})
            S.sample({'harness': 'Value conversion ' + entry, 'value': want}, cap=2)
    n, rest = eng.explore(body, on_path, max_paths=30000)
    if rest: S.inconclusive(f'conversion {entry}: cap/deadline after {n} paths')
    S.absorb_engine(eng)
    return S
