"""C10 — equality and ordering contract.
K: Variable::compare over all pairs of serde_json::Number (PosInt/NegInt/finite Float) and scalar type mixes, real std/serde_json code.
M: deep structural equality / compare on pairs of lazily initialised symbolic documents vs the reference equality."""
import z3, json, time, math
from mirsym.core import *
from mirsym import models as MM, sym as SY
from vf import explore as XP, par, kani as K
from vf.explore import Summary
from vf.native import tag_num, untag
from .common import *
from . import evalref as ER

PROG = None; SEED = 0
CMPS = ['Equal', 'NotEqual', 'LessThan', 'LessThanEqual', 'GreaterThan', 'GreaterThanEqual']

def job_pair(item):
    da, db, deadline, cap = item
    prog = PROG; eng = Engine(prog); eng.deadline = deadline; S = Summary(); XP.init_decls(prog)
    nums = [0, 1, -1, 1.5, 1.0]
    sa = SY.DocSpec(depth=da, A=2, keys=('a', 'b'), strs=('', 'a'), nums=nums)
    sb = SY.DocSpec(depth=db, A=2, keys=('a', 'b'), strs=('', 'a'), nums=nums)
    def body(ex):
        a = SY.sym_variable(ex, sa); b = SY.sym_variable(ex, sb); ex.u_a, ex.u_b = a, b
        cv = ex.fresh('cmp', 8); k = ex.choose([(i, cv == i) for i in range(6)]); ex.u_cmp = CMPS[k]
        r = ex.call('Variable::compare', [Ptr(Cell(a)), Ptr(Cell(mk_enum('Comparator', CMPS[k], []))), Ptr(Cell(b))])
        ex.u_got = r
        want = ER.ref_compare(ex, CMPS[k], SY.rc(a), SY.rc(b)); ex.u_want = want
        w = MM.deref_all(want)
        if w.variant == 'Null': return None if r.variant == 'None' else 'ordering of non-numbers must be null'
        if r.variant != 'Some': return 'comparison must yield a boolean'
        gb, wb = r.fields[0].v, w.fields[0].v
        sat, _ = eng.check(ex.pc + [gb.b != wb.b])
        if sat: ex.assume(gb.b != wb.b); return 'comparison result differs from structural equality / numeric order'
        return None
    def model_of(ex):
        acc = []; SY.lazy_null_constraints(ex.u_a, acc); SY.lazy_null_constraints(ex.u_b, acc)
        sat, m = SY.check_pinned(eng, ex.pc, acc)
        if not sat: return None
        return {'a': SY.tagged(ex, ex.u_a, m), 'b': SY.tagged(ex, ex.u_b, m), 'cmp': ex.u_cmp}, m
    def on_path(ex, r):
        S['paths'] += 1; S['outcomes'][r[0]] += 1
        if r[0] == 'abort': return
        if r[0] == 'unsupported': S.inconclusive('compare: ' + XP.short_unsupported(r[1])); return
        if r[0] == 'panic':
            w = model_of(ex)
            if w: S.cand('compare-panic', f'compare panics: {r[1]}', w[0], {'op': 'compare', 'a': w[0]['a'], 'b': w[0]['b']}, expected='no panic')
            return
        if r[1] is not None:
            w = model_of(ex)
            if w:
                wv = MM.deref_all(ex.u_want); exp = None if wv.variant == 'Null' else MM.cval(wv.fields[0].v, w[1])
                S.cand('structural-compare', r[1], w[0], {'op': 'compare', 'a': w[0]['a'], 'b': w[0]['b']}, expected={'cmp': ex.u_cmp, 'value': exp})
            return
        S['vacuity']['compare agrees'] = True
        if (S['paths'] + SEED) % 9 == 0:
            w = model_of(ex)
            if not w: return
            a = XP.worker_native().request({'op': 'compare', 'a': w[0]['a'], 'b': w[0]['b']})
            got = ex.u_got; gv = None if got.variant == 'None' else MM.cval(got.fields[0].v, w[1])
            if a.get('kind') == 'ok' and a['value'][CMPS.index(ex.u_cmp)] == gv: S['replayed'] += 1
            else: S['mismatches'].append({'harness': 'compare', 'input': w[0], 'engine': gv, 'native': a})
            S.sample({'harness': 'compare', **w[0], 'result': gv}, cap=2)
    n, rest = eng.explore(body, on_path, max_paths=cap)
    if rest: S.inconclusive(f'compare depths ({da},{db}): {"deadline" if eng.deadline and time.time() > eng.deadline else "path cap"} after {n} paths, {len(rest)} prefixes unexplored')
    S.absorb_engine(eng)
    return S

def task(item):
    if item[0] == 'pair': return job_pair(item[1:])
    from . import c01 as C01
    return C01.job_ast(item[1:])

def decode_num(sel, raw):
    k = sel[0] % 3
    if k == 0: return tag_num('pos', K.le(raw)), float(K.le(raw))
    if k == 1:
        v = K.le(raw, True)
        return (tag_num('neg', v) if v < 0 else tag_num('pos', v)), float(v)
    f = K.f64(raw); return tag_num('float', f), f

def kani_candidates(run, results):
    for r in results:
        if not r['failed']: continue
        vals = r.get('values'); descs = [c['desc'] for c in r['failed']]
        if vals and len(vals) >= 4 and r['harness'] != 'c10_mixed_types':
            try:
                a, x = decode_num(vals[0], vals[1]); b, y = decode_num(vals[2], vals[3])
            except Exception: a = None
            if a is not None:
                for d in descs:
                    key = {'a<=b iff a<b or a==b': 'le-vs-lt-or-eq', 'a>=b iff a>b or a==b': 'le-vs-lt-or-eq',
                           'well-separated numbers are not ==': 'eq-well-separated', 'exactly one of < and > holds': 'eq-well-separated'}.get(d, 'number-algebra:' + d)
                    run.cands.append({'key': key, 'what': 'Kani: ' + d, 'witness': {'a': a, 'b': b, 'a_f64': repr(x), 'b_f64': repr(y)},
                                      'request': {'op': 'compare', 'a': a, 'b': b}, 'expected': d})
                continue
        run.note_inconclusive(f"kani {r['harness']} failed ({descs}) but no concrete values could be extracted")

def confirm(c, nd, nr):
    req = c['request']; obs = {}
    if c['key'] == 'spec-mismatch' or req.get('op') == 'search_ast':
        o1 = nd.request(req); o2 = nr.request(req); exp = c['expected']
        if c['key'].endswith('panic'): return any(o.get('kind') in ('panic', 'abort', 'hang') for o in (o1, o2)), {'dev': o1, 'release': o2}
        same = lambda o: (o.get('kind') == 'err' and exp[0] == 'err' and o.get('reason_kind') == exp[1]) or (exp[0] == 'ok' and o.get('kind') == 'ok' and o.get('value') == exp[1])
        return (not same(o1)) or (not same(o2)), {'dev': o1, 'release': o2}
    for prof, n in (('dev', nd), ('release', nr)):
        o = n.request(req); o2 = n.request({'op': 'compare', 'a': req['b'], 'b': req['a']}); obs[prof] = {'ab': o, 'ba': o2}
    if c['key'] == 'spec-mismatch':
        o1 = nd.request(req); o2 = nr.request(req); exp = c['expected']
        same = lambda o: (o.get('kind') == 'err' and exp[0] == 'err' and o.get('reason_kind') == exp[1]) or (exp[0] == 'ok' and o.get('kind') == 'ok' and o.get('value') == exp[1])
        return (not same(o1)) or (not same(o2)), {'dev': o1, 'release': o2}
    if c['key'].endswith('panic'): return any(o['ab'].get('kind') in ('panic', 'abort', 'hang') for o in obs.values()), obs
    def violates(o):
        if o['ab'].get('kind') != 'ok': return True
        eq, ne, lt, le, gt, ge = o['ab']['value']; eq2 = o['ba']['value'][0]
        if c['key'] == 'structural-compare':
            return o['ab']['value'][CMPS.index(c['expected']['cmp'])] != c['expected']['value']
        x, y = untag(req['a']), untag(req['b'])
        if None in (eq, ne, lt, le, gt, ge): return True
        if c['key'] == 'le-vs-lt-or-eq': return le != (lt or eq) or ge != (gt or eq)
        if c['key'] == 'eq-well-separated':
            x, y = float(x), float(y); d = abs(x - y); m = max(abs(x), abs(y))
            return d >= m * 2.0 ** -40 and d > 0 and (eq or lt == gt)
        return ne == eq or eq != eq2 or lt != (float(x) < float(y)) or gt != (float(x) > float(y)) or (float(x) == float(y) and not eq)
    return any(violates(o) for o in obs.values()), obs

def run(run):
    global PROG, SEED
    PROG = run.program(); XP.init_decls(PROG); SEED = run.seed
    run.native('dev')
    XP.run_translator_validation(run, PROG, every=8 if run.tier == 'quick' else 1)
    quick = run.tier == 'quick'
    run.bounds = {'numbers (K)': 'all pairs of serde_json::Number: PosInt(any u64), NegInt(any i64), Float(any finite f64); all six comparators',
                  'structures (M)': 'pairs of lazily initialised symbolic values, depths (1,1),(2,1),(1,2)' + ('' if quick else ',(2,2)') + ', arrays <= 2, keys {a,b}, numbers from {0,1,-1,1.5,1.0}, strings {"", "a"}, symbolic booleans; all six comparators'}
    run.outside = ['number pairs closer than relative distance 2^-40 are outside the trichotomy claim (the property says well-separated); == on them is only required to be reflexive, symmetric and the negation of !=',
                   'containers deeper than the bounds']
    run.assumes = ['numbers are finite (serde_json::Number cannot hold NaN/inf)']
    jobs = [(1, 1, run.deadline, 10**7), (2, 1, run.deadline, 60000), (1, 2, run.deadline, 60000)] + ([] if quick else [(2, 2, run.deadline, 10**7)])
    # the Comparison arm of interpret itself (operands may be the SAME shared value): symbolic ASTs Comparison(l, r) over leaf operands
    from . import c01 as C01
    C01.PROG = PROG; C01.SEED = SEED
    leafs = ['Identity', 'Field', 'Index', 'Literal']
    ajobs = [('ast', 'Comparison', (c1, c2), 1, 1, run.deadline, 10**7, True) for c1 in leafs for c2 in leafs]
    run.bounds['Comparison arm (M)'] = 'interpret(Comparison{cmp, l, r}) for every comparator and leaf operands (current node, field a/b, any index, scalar literal) on symbolic documents of depth 1, incl. both operands denoting the same value'
    run_jobs(run, [('pair',) + j for j in jobs] + ajobs, task, 'mirsym: Variable::compare on pairs of symbolic values vs structural equality; Comparison arm of interpret')
    res = K.run_harnesses(run, ['c10_numbers_eq_algebra', 'c10_numbers_order', 'c10_le_is_lt_or_eq', 'c10_trichotomy_well_separated', 'c10_mixed_types'], timeout=900 if quick else 3000)
    kani_candidates(run, res)
    run.confirm_all(confirm)
