"""C04 — operators bind by the documented precedence; projections extend as specified.
The real Parser::parse runs on symbolic token queues; on every accepting path the tree it built (offsets erased) must equal the tree
built by a reference precedence-climbing parser written from the binding-power order in the property text (harness/grammar.py)."""
import time, json
from mirsym.core import *
from mirsym import models as MM
from vf import explore as XP, par
from vf.explore import Summary
from .common import *
from . import grammar as GR, parsejob as PJ
from .c03 import CONTEXTS, validate_grammar

PROG = None; SEED = 0
ALL = GR.TOKENS
INFIX = ['Dot', 'Pipe', 'Or', 'And', 'Eq', 'Lt']
INFIX_ALL = ['Dot', 'Pipe', 'Or', 'And', 'Eq', 'Ne', 'Lt', 'Lte', 'Gt', 'Gte']
OPER = ['Identifier', 'Star', 'At']
POST = [['Flatten'], ['Lbracket', 'Star', 'Rbracket'], ['Lbracket', 'Number', 'Rbracket'], ['Lbracket', 'Number', 'Colon', 'Rbracket'], ['Filter', 'Identifier', 'Rbracket'], ['Dot', 'Star'],
        ['Dot', 'Identifier', 'Lparen', 'Rparen'], ['Dot', 'Lbracket', 'Identifier', 'Rbracket'], ['Dot', 'Identifier']]

def layouts(quick):
    L = []
    for o1 in INFIX:          # every ordered pair of binary operators: a op1 b op2 c  (operands symbolic too)
        L.append(('pair ' + o1, [OPER, [o1], OPER, INFIX_ALL, OPER]))
    for o1 in INFIX:
        L.append(('not-pair ' + o1, [['Not'], ['Identifier'], [o1], ['Identifier', 'Not'], INFIX_ALL + ['Identifier'], ['Identifier']]))
    for o1 in INFIX_ALL:     # parenthesised operands, negated: !(a op b), !(a op b) op c, a op (b op c)
        L.append(('paren ' + o1, [['Not', 'Identifier'], ['Lparen'], ['Identifier'], [o1], ['Identifier'], ['Rparen'], INFIX_ALL + ['Rbracket'], ['Identifier']]))
        L.append(('paren-not ' + o1, [['Not'], ['Lparen'], OPER, [o1], OPER, ['Rparen']]))
    for p in POST:           # a <postfix> <any> <any> : what follows a projection / index / call
        L.append(('post ' + ' '.join(p), [['Identifier']] + [[k] for k in p] + [ALL, ALL]))
        L.append(('post-op ' + ' '.join(p), [['Identifier']] + [[k] for k in p] + [INFIX_ALL + ['Flatten', 'Filter'], ['Identifier'], INFIX_ALL + ['Rbracket'], ['Identifier', 'Rbracket']]))
        L.append(('pre-op ' + ' '.join(p), [['Identifier', 'Not'], INFIX_ALL + ['Identifier'], ['Identifier']] + [[k] for k in p]))
    for p1 in POST[:6]:      # two postfix forms in a row (projection of projection, flatten after projection, ...)
        for p2 in POST[:6]:
            L.append(('post-post', [['Identifier']] + [[k] for k in p1] + [[k] for k in p2] + [INFIX_ALL + ['Identifier'], ['Identifier']]))
    # an expression reference as a function argument: its operand extends over every operator up to ',' or ')' (nud of '&' parses with power 0)
    call = [['Identifier'], ['Lparen']]
    L.append(('expref-op', call + [['Ampersand'], ['Identifier', 'Not', 'At'], INFIX_ALL + ['Identifier'], ['Identifier'], ['Rparen']]))
    L.append(('expref-op-op', call + [['Ampersand'], ['Identifier'], INFIX_ALL, ['Identifier'], INFIX_ALL, ['Identifier'], ['Rparen']]))
    L.append(('expref-op-comma', call + [['Ampersand'], ['Identifier'], INFIX_ALL, ['Identifier'], ['Comma'], ['Identifier', 'Ampersand'], ['Identifier', 'Rparen'], ['Rparen', 'Pipe'], ['Identifier', 'Rparen']]))
    L.append(('expref-second', call + [['Identifier'], ['Comma'], ['Ampersand'], ['Identifier', 'Not'], INFIX_ALL + ['Identifier'], ['Identifier'], ['Rparen']]))
    L.append(('expref-then-op', call + [['Ampersand'], ['Identifier'], ['Rparen'], INFIX_ALL + ['Flatten'], ['Identifier', 'Pipe', 'Flatten'], ['Identifier']]))
    for p in POST[:6]:
        L.append(('expref-post ' + ' '.join(p), call + [['Ampersand'], ['Identifier']] + [[k] for k in p] + [INFIX_ALL + ['Rparen'], ['Identifier', 'Rparen'], ['Rparen']]))
    return L

def chains(quick):
    """concrete operator skeletons: prefix operand, chains of <= 3 postfix forms, optional trailing binary operator"""
    import itertools
    pre = [['Identifier'], ['Not', 'Identifier'], ['Identifier', 'Dot', 'Identifier'], ['Star'], ['At'], ['Identifier', 'Or', 'Identifier']]
    suf = [[], ['Pipe', 'Identifier'], ['Or', 'Identifier'], ['Eq', 'Identifier'], ['Dot', 'Identifier']]
    out = []
    for n in (1, 2, 3):
        for ch in itertools.product(range(len(POST)), repeat=n):
            body = [k for i in ch for k in POST[i]]
            for a in pre:
                for b in suf:
                    if n == 3 and quick and (a != pre[0] or b not in (suf[0], suf[1])): continue
                    out.append(a + body + b)
    return out

def task(item):
    kind = item[0]
    if kind == 'chains':
        _, batch, deadline = item
        S = Summary()
        for lay in batch:
            S2 = PJ.parser_job(PROG, lay, deadline, seed=SEED, want_trees=True, label='chain')
            for k in ('paths', 'queries', 'solver_s', 'replayed'): S[k] += S2[k]
            S['outcomes'].update(S2['outcomes']); S['cands'] += S2['cands']; S['mismatches'] += S2['mismatches']; S['fns'] |= S2['fns']; S['models'] |= S2['models']
            for t in S2['inconclusive']: S.inconclusive(t)
            S['vacuity'].update({k: v or S['vacuity'].get(k, False) for k, v in S2['vacuity'].items()})
            for x in S2['samples'][:1]: S.sample(x, cap=2)
        return S
    if kind == 'full':
        _, first, n, deadline = item
        return PJ.parser_job(PROG, [[first]] + [ALL] * (n - 1), deadline, seed=SEED, want_trees=True, label=f'N={n} first={first}')
    if kind == 'layout':
        _, name, lay, deadline = item
        lay = [x[0] if len(x) == 1 else x for x in lay]
        return PJ.parser_job(PROG, lay, deadline, seed=SEED, want_trees=True, label=name)
    if kind == 'win':
        _, pre, suf, w, deadline = item
        return PJ.parser_job(PROG, list(pre) + [ALL] * w + list(suf), deadline, seed=SEED, want_trees=True, label=f'window {pre}..{suf} w={w}')

def confirm(c, nd, nr):
    obs = {'dev': nd.request(c['request']), 'release': nr.request(c['request'])}
    if c['key'].endswith('panic'): return any(o.get('kind') in ('panic', 'abort', 'hang') for o in obs.values()), obs
    d = obs['dev']
    if d.get('kind') != 'ok': return False, obs
    try: got = PJ.parse_debug_ast(d['ast'])
    except Exception as e: return False, {'parse_debug_error': repr(e), **obs}
    want = c['expected']['tree']
    def norm(t):
        if isinstance(t, list): t = tuple(t)
        if isinstance(t, tuple): return tuple(norm(x) for x in t)
        return t
    obs['native_tree'] = str(got)[:400]
    return norm(got) != norm(want), obs

def run(run):
    global PROG, SEED
    PROG = run.program(); XP.init_decls(PROG); SEED = run.seed
    run.native('dev')
    XP.run_translator_validation(run, PROG, every=8 if run.tier == 'quick' else 1)
    quick = run.tier == 'quick'
    N = 3 if quick else 4; W = 2 if quick else 3
    lays = layouts(quick)
    run.bounds = {'token sequences': f'every sequence of <= {N} tokens over all 28 kinds; {len(lays)} structured layouts with symbolic operator / operand positions (every ordered pair of binary operators '
                                     f'around symbolic operands, prefix-not combinations, expression-reference arguments followed by every operator / postfix form, every postfix form followed and preceded by every operator, pairs of postfix forms: sentences of 5..10 tokens); '
                                     f'{len(CONTEXTS)} contexts around windows of {W} fully symbolic tokens',
                  'oracle': 'reference precedence-climbing parser (binding powers pipe<or<and<comparison<flatten<wildcard/filter<dot<not<bracket<call, left-assoc, projection stop below 10)'}
    run.outside = ['sentences that match no layout and are longer than the full enumeration bound', 'sentences accepted only through a recorded C03 deviation (no reference tree exists for a non-sentence)']
    run.assumes = ['the mapping of bracket/dot forms to the crate node vocabulary stated in DESIGN.md C04']
    dl = run.deadline
    jobs = [('full', k, n, dl) for n in range(N, 0, -1) for k in ALL]
    jobs += [('layout', nm, lay, dl) for nm, lay in lays]
    jobs += [('win', pre, suf, W, dl) for pre, suf in CONTEXTS]
    ch = chains(quick)
    jobs += [('chains', ch[i:i + 60], dl) for i in range(0, len(ch), 60)]
    run.bounds['operator skeletons'] = f'{len(ch)} concrete sentences: operand forms x every chain of <= 3 postfix forms (flatten, [*], [n], [n:], [?x], .*, .f(), .[x]) x trailing binary operator'
    run_jobs(run, jobs, task, f'mirsym: Parser::parse on symbolic token queues vs reference precedence parser')
    run.cands = [c for c in run.cands if c['key'].startswith(('c04:', 'c05:'))]
    run.confirm_all(confirm)
