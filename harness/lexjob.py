"""Lexer::tokenize (real MIR) on symbolic code points vs the reference lexer: token kinds, payloads, byte positions, error positions."""
import z3, json, time
from mirsym.core import *
from mirsym import models as MM, sym as SY, jsonmodel as JM
from vf import explore as XP
from vf.explore import Summary
from .common import *
from . import lexref as LR

def as_bv64(p): return z3.BitVecVal(p, 64) if isinstance(p, int) else p
def chars_equal_bad(a, b):
    """z3 condition under which two character lists differ (None if structurally identical)"""
    if len(a) != len(b): return True
    cs = []
    for x, y in zip(a, b):
        if x is y: continue
        if isinstance(x, str) and isinstance(y, str):
            if x != y: return True
            continue
        cs.append(JM.cbv(x) != JM.cbv(y))
    return z3.Or(*cs) if cs else None
def var_bad(a, b):
    """difference condition between two engine Variables built by the same JSON model / string rules (True, None or z3 Bool)"""
    a, b = MM.deref_all(a), MM.deref_all(b)
    if a.variant != b.variant: return True
    k = a.variant
    if k == 'Null': return None
    if k == 'Bool': return None if a.fields[0].v.concrete() == b.fields[0].v.concrete() else True
    if k == 'String': return chars_equal_bad(a.fields[0].v.chars, b.fields[0].v.chars)
    if k == 'Number':
        x, y = a.fields[0].v, b.fields[0].v
        if x.kind != y.kind: return True
        if x.kind == 'float': return None if MM.cval(x.val) == MM.cval(y.val) and str(MM.cval(x.val)) == str(MM.cval(y.val)) else True
        cx, cy = x.val.concrete(), y.val.concrete()
        if cx is not None and cy is not None: return None if cx == cy else True
        return x.val.bv != y.val.bv
    if k == 'Array':
        xa, xb = a.fields[0].v.items, b.fields[0].v.items
        if len(xa) != len(xb): return True
        cs = []
        for p, q in zip(xa, xb):
            r = var_bad(p.v, q.v)
            if r is True: return True
            if r is not None: cs.append(r)
        return z3.Or(*cs) if cs else None
    if k == 'Object':
        da, db = a.fields[0].v.d, b.fields[0].v.d
        if list(da) != list(db) and set(da) != set(db): return True
        cs = []
        for kk in da:
            r = var_bad(da[kk].v, db[kk].v)
            if r is True: return True
            if r is not None: cs.append(r)
        return z3.Or(*cs) if cs else None
    return True

def text_of(chars, m):
    return ''.join(c if isinstance(c, str) else chr(mval(m, c.bv, False)) for c in chars)

def lexer_job(prog, make_chars, deadline, seed=0, label='', max_paths=10**9, keyprefix='c03', prefixes=None, stop_at_stack=None):
    """make_chars(ex) -> list of characters (str | Int). Compares tokenize(expr) with the reference lexer on every path."""
    eng = Engine(prog); eng.deadline = deadline; S = Summary(); XP.init_decls(prog)
    def body(ex):
        chars = make_chars(ex); ex.u_chars = chars
        r = ex.call('tokenize', [Ptr(Cell(StrV(chars)))])
        ex.u_res = r
        # ---- reference
        try: want = LR.ref_tokenize(ex, chars)
        except LR.LexError as e: want = e
        ex.u_want = want
        if isinstance(want, LR.LexError):
            if r.variant != 'Err': return ('accepts', 'the lexer accepts a string that the lexical rules reject: ' + str(want), None)
            e = r.fields[0].v
            bad = []
            if XP.reason_kind(e) != 'parse': return ('errclass', 'lexical error is not a parse error', None)
            off = XP.err_field(e, 'offset')
            if want.pos is not None:
                c = off.bv != as_bv64(want.pos)
                sat, _ = ex.eng.check(ex.pc + [c])
                if sat: ex.assume(c); return ('erroffset', 'lexical error offset is not the start of the offending lexeme', None)
            exprs = XP.err_field(e, 'expression')
            if chars_equal_bad(exprs.chars, chars) is not None: return ('errexpr', 'error does not carry the expression text', None)
            return None
        if r.variant != 'Ok': return ('rejects', 'the lexer rejects a string that the lexical rules accept', None)
        got = r.fields[0].v.items
        if len(got) != len(want): return ('tokens', f'{len(got)} tokens, expected {len(want)}', None)
        conds = []; pconds = []
        for g, w in zip(got, want):
            gp, gt = g.v.fields[0].v, MM.deref_all(g.v.fields[1].v)
            if gt.variant != w[1]: return ('tokens', f'token kind {gt.variant}, expected {w[1]}', None)
            pc_ = gp.concrete(); 
            if not (pc_ is not None and isinstance(w[0], int) and pc_ == w[0]): pconds.append(gp.bv != as_bv64(w[0]))
            k = w[1]
            if k in ('Identifier', 'QuotedIdentifier'):
                b = chars_equal_bad(gt.fields[0].v.chars, w[2])
                if b is True: return ('payload', f'{k} text differs', None)
                if b is not None: conds.append(b)
            elif k == 'Number':
                conds.append(gt.fields[0].v.bv != w[2])
            elif k == 'Literal':
                b = var_bad(gt.fields[0].v, w[2])
                if b is True: return ('payload', 'literal value differs', None)
                if b is not None: conds.append(b)
        if conds:
            c = z3.Or(*conds)
            sat, _ = ex.eng.check(ex.pc + [c])
            if sat: ex.assume(c); return ('payload', 'token payload differs from the lexical rules', None)
        if pconds:          # positions (byte offsets of the lexemes, the end-of-input token included): what error locations are made of
            c = z3.Or(*pconds)
            sat, _ = ex.eng.check(ex.pc + [c])
            if sat: ex.assume(c); return ('position', 'a token position is not the byte offset of its lexeme', None)
        return None
    def on_path(ex, r):
        S['paths'] += 1; S['outcomes'][r[0]] += 1
        if r[0] == 'abort' and 'step budget' not in str(r[1]): return
        if r[0] == 'unsupported': S.inconclusive(f'lexer {label}: ' + XP.short_unsupported(r[1])); return
        sat, m = eng.check(ex.pc)
        if not sat: return
        text = text_of(ex.u_chars, m)
        if r[0] == 'abort':
            S.cand('c05:hang', 'tokenize exceeds the step budget (non-termination candidate)', {'expr': text}, {'op': 'compile', 'expr': text}, expected='terminates'); return
        if r[0] == 'panic':
            S.cand('c05:lexer-panic', f'compile panics: {r[1]}', {'expr': text}, {'op': 'compile', 'expr': text}, expected='no panic'); return
        if r[1] is not None:
            cls, why, _ = r[1]
            exp = 'compile-err' if cls == 'accepts' else ('lexes' if cls == 'rejects' else why)
            key = {'accepts': f'{keyprefix}:lexer-accepts-invalid', 'rejects': f'{keyprefix}:lexer-rejects-valid', 'tokens': f'{keyprefix}:lexer-wrong-tokens', 'payload': 'c09:token-value', 'position': 'c12:token-position',
                   'erroffset': 'c12:lexer-error-offset', 'errclass': 'c12:compile-error-not-parse', 'errexpr': 'c12:error-expression'}[cls]
            want = ex.u_want
            wdesc = None
            if not isinstance(want, LR.LexError):
                wdesc = [[mval(m, as_bv64(p), False), k] for p, k, _ in want]
            else: wdesc = {'error_at': None if want.pos is None else mval(m, as_bv64(want.pos), False), 'why': str(want)}
            S.cand(key, why, {'expr': text}, {'op': 'compile', 'expr': text}, expected=wdesc); return
        S['vacuity']['lexer ok path' if ex.u_res.variant == 'Ok' else 'lexer error path'] = True
        if (S['paths'] + seed) % 13 == 0:
            a = XP.worker_native().request({'op': 'compile', 'expr': text})
            lex_ok = ex.u_res.variant == 'Ok'
            # native compile = lexer + parser: a lexical error implies a compile error at the same offset; a lexed string may still fail to parse
            if not lex_ok:
                off = mval(m, XP.err_field(ex.u_res.fields[0].v, 'offset').bv, False)
                okk = a.get('kind') == 'compile-err' and a.get('offset') == off
            else: okk = a.get('kind') in ('ok', 'compile-err')
            if okk: S['replayed'] += 1
            else: S['mismatches'].append({'harness': 'lexer', 'expr': text, 'engine': 'lexes' if lex_ok else 'lexical error', 'native': a})
            S.sample({'harness': 'lexer', 'expr': text, 'lexes': lex_ok}, cap=3)
    n, rest = eng.explore(body, on_path, max_paths=max_paths, prefixes=prefixes, stop_at_stack=stop_at_stack)
    if stop_at_stack is not None:
        S['rest'] = rest; rest = []
    if rest: S.inconclusive(f'lexer {label}: {"deadline" if eng.deadline and time.time() > eng.deadline else "path cap"} after {n} paths, {len(rest)} prefixes unexplored')
    S.absorb_engine(eng)
    return S


def make_chars_from(spec):
    """spec entries: 'x' (concrete char) | None (any Unicode scalar value) | ('set', 'abc') | ('digit',) | ('ascii',)"""
    def mk(ex):
        out = []
        for e in spec:
            if isinstance(e, str): out.append(e); continue
            c = SY.sym_chars(ex, 1)[0]
            if e is not None:
                if e[0] == 'set': ex.assume(z3.Or(*[c.bv == ord(x) for x in e[1]]))
                elif e[0] == 'digit': ex.assume(z3.And(z3.UGE(c.bv, 48), z3.ULE(c.bv, 57)))
                elif e[0] == 'ascii': ex.assume(z3.ULT(c.bv, 128))
            out.append(c)
        return out
    return mk

def run_sharded(run, prog, specs, label, keyprefix='c03', shards=48):
    """phase 1 (pooled, one job per spec): explore the spec until enough open prefixes exist; phase 2: the open prefixes of all specs are distributed over the workers"""
    from vf import par
    import time as _t
    t0 = _t.time(); tasks = []
    def first(spec):
        S = lexer_job(prog, make_chars_from(spec), run.deadline, seed=run.seed, label=str(spec), keyprefix=keyprefix, stop_at_stack=shards)
        return spec, S
    for st, r in par.pmap_unordered(first, specs):
        if st != 'ok': run.note_inconclusive(f'{label}: job crashed: {r[:300]}'); continue
        spec, S = r
        rest = S.pop('rest', [])
        run.merge(S)
        k = max(1, min(shards, len(rest)))
        for i in range(k):
            chunk = rest[i::k]
            if chunk: tasks.append((spec, chunk))
    def task(item):
        spec, chunk = item
        return lexer_job(prog, make_chars_from(spec), run.deadline, seed=run.seed, label=str(spec), keyprefix=keyprefix, prefixes=chunk)
    for st, r in par.pmap_unordered(task, tasks):
        if st != 'ok': run.note_inconclusive(f'{label}: job crashed: {r[:300]}'); continue
        run.merge(r)
    run.harnesses.append({'name': label, 'specs': len(specs), 'shards': len(tasks), 'wall_s': round(_t.time() - t0, 1)})
