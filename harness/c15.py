"""C15 — calls follow the runtime registry; custom functions receive evaluated arguments.
Symbolic operation sequences over {register(name, f_i), deregister(name), register_builtin_functions()} executed by the real runtime.rs MIR
(HashMap as a dictionary model), followed by a call expression evaluated by the real Function arm; custom functions are recording callables."""
import z3, json, time
from mirsym.core import *
from mirsym import models as MM, sym as SY
from vf import explore as XP, par
from vf.explore import Summary
from .common import *
from . import funcs as F, funcjob as FJ

PROG = None; SEED = 0
NAMES = ['abs', 'length', 'f', 'g']
# call argument lists (source texts); the current node is the document {"a": 2, "b": "s"}
ARGSETS = [[], ['`-1`'], ['@'], ['a'], ['&a'], ['b'], ['`-1`', 'a'], ['a', '&b'], ['b', 'a', '`1`'], ['b', 'b'], ['b', 'a', 'b']]
DOC = {'a': 2, 'b': 's'}
# where the call stands: directly, or as the right-hand side of a pipe / dot whose left side yields null (the call must still happen, with null as its current node)
PREFIXES = [('', DOC), ('zz | ', None), ('zz.', None), ('@ | ', DOC)]
def eval_arg(t, node=DOC):
    if t.startswith('&'): return ('expref', t)
    if t == '@': return node
    if t.startswith('`'): return json.loads(t.strip('`'))
    return node.get(t) if isinstance(node, dict) else None

def job_seq(item):
    nops, names, deadline = item[:3]; first = item[3] if len(item) > 3 else None
    sites = PREFIXES if (len(item) > 4 and item[4]) else PREFIXES[:1]
    prog = PROG; eng = Engine(prog); eng.deadline = deadline; S = Summary(); XP.init_decls(prog)
    options = [('builtins',)] + [('dereg', n) for n in names] + [('reg', n, fid) for n in names for fid in (0, 1, 2, 3)]
    def body(ex):
        log = []; ex.u_log = log
        def mkfn(fid):
            def fn(ex_, args):
                log.append((fid, [a.cell.v if False else a for a in args]))
                return ok(Ptr(Cell(mk_enum('Variable', 'String', [rstr(f'f{fid}')])), 'rc'))
            return PyFn(fn, f'custom{fid}')
        rt = Cell(ex.call('Runtime::new', []))
        ops = []
        for i in range(nops):
            op = options[first] if (i == 0 and first is not None) else FJ.choose_from(ex, f'op{i}', options); ops.append(op)
            if op[0] == 'builtins': ex.call('Runtime::register_builtin_functions', [Ptr(rt)])
            elif op[0] == 'dereg': ex.call('Runtime::deregister_function', [Ptr(rt), Ptr(Cell(rstr(op[1])))])
            else:
                fid = op[2]
                if fid >= 2:
                    sig = ex.call('Signature::new', [VecV([Cell(mk_enum('ArgumentType', 'Number' if fid == 2 else 'String', []))]), none() if fid == 2 else some(mk_enum('ArgumentType', 'Number', []))])
                    cf = ex.call('CustomFunction::new', [sig, Ptr(Cell(mkfn(fid)), 'box')])
                    boxed_f = Ptr(Cell(cf), 'box')
                else: boxed_f = Ptr(Cell(mkfn(fid)), 'box')
                ex.call('Runtime::register_function', [Ptr(rt), Ptr(Cell(rstr(op[1]))), boxed_f])
        ex.u_ops = ops
        cname = FJ.choose_from(ex, 'callee', list(names) + (['values'] if 'abs' in names and len(names) > 2 else [])); args = FJ.choose_from(ex, 'args', ARGSETS)
        pre = FJ.choose_from(ex, 'site', sites)
        ex.u_call = (cname, args, pre)
        text = pre[0] + f'{cname}(' + ', '.join(args) + ')'
        r = XP.parse_expr(ex, text)
        if r.variant != 'Ok': raise Unsupported('call expression does not parse: ' + text)
        ctx = ex.call('Context::new', [Ptr(Cell(rstr(text))), Ptr(rt)])
        data = Ptr(Cell(MM.py_to_variable(DOC)), 'rc')
        return ex.call('interpret', [Ptr(Cell(data)), Ptr(Cell(r.fields[0].v)), Ptr(Cell(ctx))])
    def oracle(ops, cname, args, node=DOC):
        reg = {}
        for op in ops:
            if op[0] == 'builtins':
                for n in F.NAMES: reg[n] = 'builtin'
            elif op[0] == 'dereg': reg.pop(op[1], None)
            else: reg[op[1]] = op[2]
        vals = [eval_arg(t, node) for t in args]
        who = reg.get(cname)
        if who is None: return ('err', 'unknown-function'), []
        if who == 'builtin':
            e = F.check_call(cname, vals)
            if e: return ('err', e), []
            k, w = F.spec(cname, vals)[:2]
            return (k, w), []
        if who == 2:
            if len(vals) != 1: return ('err', 'invalid-arity'), []
            if F.jtype(vals[0]) != 'number': return ('err', 'invalid-type'), []
        if who == 3:          # signature [string], variadic number
            if len(vals) < 1: return ('err', 'invalid-arity'), []
            if F.jtype(vals[0]) != 'string' or any(F.jtype(v) != 'number' for v in vals[1:]): return ('err', 'invalid-type'), []
        return ('ok', f'f{who}'), [(who, vals)]
    def on_path(ex, r):
        S['paths'] += 1; S['outcomes'][r[0]] += 1
        if r[0] == 'abort': return
        if r[0] == 'unsupported': S.inconclusive('registry: ' + XP.short_unsupported(r[1])); return
        ops, (cname, args, pre) = ex.u_ops, ex.u_call
        text = pre[0] + f'{cname}(' + ', '.join(args) + ')'
        req = {'op': 'registry', 'ops': [list(o) + ([['number']] if o[0] == 'reg' and o[2] == 2 else ([['string'], 'number'] if o[0] == 'reg' and o[2] == 3 else [])) for o in ops], 'expr': text, 'doc': FJ.tag_py(DOC)}
        wit = {'ops': [list(o) for o in ops], 'call': text}
        if r[0] == 'panic': S.cand('c05:registry-panic', f'panics: {r[1]}', wit, req, expected='no panic'); return
        out = r[1]; (k, want), calls = oracle(ops, cname, args, pre[1])
        # what the custom functions saw
        seen = []
        for fid, a in ex.u_log:
            vs = []
            for x in a[0].items if isinstance(a[0], (VecV, SliceRef)) else MM.deref_all(a[0]).items:
                v = MM.deref_all(x.v)
                vs.append(('expref', '?') if v.variant == 'Expref' else MM.variable_to_py(ex, v))
            seen.append((fid, vs))
        exp_calls = [(fid, [('expref', '?') if isinstance(v, tuple) else v for v in vs]) for fid, vs in calls]
        bad = None
        if out.variant == 'Err':
            kind = XP.reason_kind(out.fields[0].v)
            if k != 'err': bad = f'call fails with {kind}; expected result {want!r}'
            elif kind not in F.ARITY.get(want, (want,)): bad = f'call fails with {kind}; expected {want}'
        else:
            got = MM.variable_to_py(ex, out.fields[0].v)
            if k == 'err': bad = f'call returns {got!r}; expected error {want}'
            elif not FJ.result_matches(got, want): bad = f'call returns {got!r}; expected {want!r} (most recently registered function of that name)'
        if bad is None and seen != exp_calls: bad = f'custom functions were invoked as {seen}, expected {exp_calls}'
        if bad:
            S.cand('c15:wrong-dispatch', bad, wit, req, expected={'result': (k, want if not isinstance(want, F.Pred) else want.desc), 'calls': [[f, FJ.tag_py(v)] for f, v in exp_calls]}); return
        S['vacuity']['registry agrees'] = True
        if exp_calls: S['vacuity']['custom function invoked'] = True
        if (S['paths'] + SEED) % 23 == 0:
            a = XP.worker_native().request(req)
            okk = (a.get('kind') == 'ok') == (out.variant == 'Ok') and len(a.get('calls', [])) == len(seen)
            if okk: S['replayed'] += 1
            else: S['mismatches'].append({'harness': 'registry', 'witness': wit, 'native': a})
            S.sample({'harness': 'registry', **wit, 'result': a.get('value', a.get('reason_kind'))}, cap=2)
    n, rest = eng.explore(body, on_path)
    if rest: S.inconclusive(f'registry nops={nops}: deadline after {n} paths, {len(rest)} prefixes unexplored')
    S.absorb_engine(eng)
    return S

def confirm(c, nd, nr):
    obs = {'dev': nd.request(c['request']), 'release': nr.request(c['request'])}
    if c['key'].endswith('panic'): return any(o.get('kind') in ('panic', 'abort', 'hang') for o in obs.values()), obs
    exp = c['expected']
    def bad(o):
        k, want = exp['result']
        if k == 'err':
            if o.get('kind') != 'err' or o.get('reason_kind') not in F.ARITY.get(want, (want,)): return True
        else:
            if o.get('kind') != 'ok': return True
            from vf.native import untag
            got = untag(o['value'])
            if isinstance(want, str) and want.startswith('f') and len(want) == 2 and got != want: return True
        calls = [[x['fid'], x['args']] for x in o.get('calls', [])]
        return [[f, [('E' if isinstance(v, dict) and '$expref_ast' in v else v) for v in vs]] for f, vs in calls] != [[f, [('E' if isinstance(v, dict) and '$expref' in v else v) for v in vs]] for f, vs in exp['calls']]
    return any(bad(o) for o in obs.values()), obs

def run(run):
    global PROG, SEED
    PROG = run.program(); XP.init_decls(PROG); SEED = run.seed
    run.native('dev')
    XP.run_translator_validation(run, PROG, every=8 if run.tier == 'quick' else 1)
    quick = run.tier == 'quick'; dl = run.deadline
    nopt = lambda names: 1 + len(names) + 4 * len(names)
    jobs = [(0, NAMES, dl), (1, NAMES, dl)] + [(2, NAMES, dl, k) for k in range(nopt(NAMES))] + [(3, ['abs', 'f'], dl, k) for k in range(nopt(['abs', 'f']))]
    jobs += [(1, NAMES, dl, None, True)] + [(2, ['abs', 'f'], dl, k, True) for k in range(nopt(['abs', 'f']))]          # the call as the right-hand side of a pipe / dot with a null left side
    if not quick: jobs += [(3, NAMES, dl, k) for k in range(nopt(NAMES))] + [(4, ['abs', 'f'], dl, k) for k in range(nopt(['abs', 'f']))] + [(5, ['f'], dl, k) for k in range(nopt(['f']))]
    run.bounds = {'operation sequences': 'every sequence of <= 2 operations over {register(name, f), deregister(name), register_builtin_functions} with names {abs, length, f, g} and four recording custom functions '
                                         '(two bare closures, a CustomFunction with signature [number], one with signature [string] + variadic number); length 3 over names {abs, f}' + ('' if quick else '; length 3 over all names, 4 over {abs, f}, 5 over {f}'),
                  'call expressions': f'name in {{abs, length, f, g, values}} with {len(ARGSETS)} argument lists (literals, current node, fields, expression references) on the document {json.dumps(DOC)}; for sequences of <= 1 (all names) / 2 (abs, f) operations the call also stands to the right of `zz | `, `zz.` (null left side) and `@ | `'}
    run.outside = ['longer operation sequences, other names', 'HashMap is modelled as a dictionary (insert / remove / get); iteration order is never used by runtime.rs']
    run.assumes = ['built-in behaviour per harness/funcs.py']
    run_jobs(run, jobs, job_seq, 'mirsym: registry operation sequences + call vs "most recently registered function still registered"')
    run.cands = [c for c in run.cands if c['key'].startswith(('c15:', 'c05:'))]
    run.confirm_all(confirm)
