"""Reference lexer written from the documented lexical rules of JMESPath / property C03+C09 (NOT from lexer.rs), operating on
(possibly symbolic) code points through the path executor."""
import z3
from mirsym.core import *
from mirsym import models as MM, jsonmodel as JM

class LexError(Exception):
    def __init__(s, pos, msg): super().__init__(msg); s.pos = pos

def ch_is(ex, c, ch): return JM.is_ch(ex, c, ch)
def ch_in(ex, c, lo, hi): return JM.in_range(ex, c, lo, hi)
def is_ident_start(ex, c): return ch_in(ex, c, 'a', 'z') or ch_in(ex, c, 'A', 'Z') or ch_is(ex, c, '_')
def is_ident_char(ex, c): return is_ident_start(ex, c) or ch_in(ex, c, '0', '9')
def width(c):
    if isinstance(c, str): return len(c.encode('utf-8'))
    k = c.concrete()
    if k is not None: return len(chr(k).encode('utf-8'))
    x = c.bv
    return z3.If(z3.ULT(x, 0x80), z3.BitVecVal(1, 64), z3.If(z3.ULT(x, 0x800), z3.BitVecVal(2, 64), z3.If(z3.ULT(x, 0x10000), z3.BitVecVal(3, 64), z3.BitVecVal(4, 64))))

SINGLE = {'.': 'Dot', '*': 'Star', '@': 'At', ']': 'Rbracket', '{': 'Lbrace', '}': 'Rbrace', '(': 'Lparen', ')': 'Rparen', ',': 'Comma', ':': 'Colon'}
I32MAX = (1 << 31) - 1

def ref_tokenize(ex, chars):
    """returns list of (byte_pos, kind, payload); raises LexError(byte_pos_of_offending_lexeme)"""
    n = len(chars); i = 0; toks = []
    # byte positions
    pos = [0]
    for c in chars:
        w = width(c); p = pos[-1]
        pos.append(p + w if isinstance(p, int) and isinstance(w, int) else z3.simplify((z3.BitVecVal(p, 64) if isinstance(p, int) else p) + (z3.BitVecVal(w, 64) if isinstance(w, int) else w)))
    def digits_value(ds):
        if len(ds) > 18: raise LexError(None, 'number too long')      # caller sets pos
        return JM.decimal_value(ex, ds, 64)
    def scan_delimited(start, q):
        """content between start+1 and the closing unescaped delimiter q; a backslash makes the next character part of the content"""
        j = start + 1; buf = []
        while j < n:
            c = chars[j]
            if ch_is(ex, c, q): return buf, j + 1
            if ch_is(ex, c, '\\'):
                buf.append(c)
                if j + 1 < n: buf.append(chars[j + 1])
                j += 2
            else: buf.append(c); j += 1
        raise LexError(pos[start], 'unclosed delimiter')
    def unescape(buf, q):
        out = []; k = 0
        while k < len(buf):
            if k + 1 < len(buf) and ch_is(ex, buf[k], '\\') and ch_is(ex, buf[k + 1], q): out.append(buf[k + 1]); k += 2
            else: out.append(buf[k]); k += 1
        return out
    while i < n:
        c = chars[i]; p = pos[i]
        if ch_is(ex, c, ' ') or ch_is(ex, c, '\t') or ch_is(ex, c, '\n') or ch_is(ex, c, '\r'): i += 1; continue
        if is_ident_start(ex, c):
            j = i + 1
            while j < n and is_ident_char(ex, chars[j]): j += 1
            toks.append((p, 'Identifier', chars[i:j])); i = j; continue
        done = False
        for ch, kind in SINGLE.items():
            if ch_is(ex, c, ch): toks.append((p, kind, None)); i += 1; done = True; break
        if done: continue
        nxt = chars[i + 1] if i + 1 < n else None
        if ch_is(ex, c, '['):
            if nxt is not None and ch_is(ex, nxt, ']'): toks.append((p, 'Flatten', None)); i += 2
            elif nxt is not None and ch_is(ex, nxt, '?'): toks.append((p, 'Filter', None)); i += 2
            else: toks.append((p, 'Lbracket', None)); i += 1
            continue
        two = {'|': ('|', 'Or', 'Pipe'), '&': ('&', 'And', 'Ampersand'), '<': ('=', 'Lte', 'Lt'), '>': ('=', 'Gte', 'Gt'), '!': ('=', 'Ne', 'Not')}
        for ch, (second, both, alone) in two.items():
            if ch_is(ex, c, ch):
                if nxt is not None and ch_is(ex, nxt, second): toks.append((p, both, None)); i += 2
                else: toks.append((p, alone, None)); i += 1
                done = True; break
        if done: continue
        if ch_is(ex, c, '='):
            if nxt is not None and ch_is(ex, nxt, '='): toks.append((p, 'Eq', None)); i += 2; continue
            raise LexError(p, "'=' alone")
        if ch_in(ex, c, '0', '9') or ch_is(ex, c, '-'):
            neg = ch_is(ex, c, '-'); j = i + (1 if neg else 0)
            if neg and (j >= n or not ch_in(ex, chars[j], '1', '9')): raise LexError(p, "'-' must be followed by 1-9")
            k = j
            while k < n and ch_in(ex, chars[k], '0', '9'): k += 1
            try: v = digits_value(chars[j:k])
            except LexError: raise LexError(p, 'number does not fit i32')
            if not ex.branch_bool(Bool(z3.ULE(v, I32MAX))): raise LexError(p, 'number does not fit i32')
            v32 = z3.Extract(31, 0, v)
            toks.append((p, 'Number', z3.simplify(-v32 if neg else v32))); i = k; continue
        if ch_is(ex, c, '"'):
            buf, j = scan_delimited(i, '"')
            k, v = JM.parse_json(ex, ['"'] + buf + ['"'])
            if k == 'err' or v.variant != 'String': raise LexError(p, 'quoted identifier is not a JSON string')
            toks.append((p, 'QuotedIdentifier', v.fields[0].v.chars)); i = j; continue
        if ch_is(ex, c, "'"):
            buf, j = scan_delimited(i, "'")
            toks.append((p, 'Literal', mk_enum('Variable', 'String', [StrV(unescape(buf, "'"))]))); i = j; continue
        if ch_is(ex, c, '`'):
            buf, j = scan_delimited(i, '`')
            k, v = JM.parse_json(ex, unescape(buf, '`'))
            if k == 'err': raise LexError(p, 'literal is not valid JSON')
            toks.append((p, 'Literal', v)); i = j; continue
        raise LexError(p, 'invalid character')
    toks.append((pos[n], 'Eof', None))
    return toks
