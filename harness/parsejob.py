"""Parser on symbolic token queues: shared by C03 (language membership, CFG-in-SMT oracle), C04 (tree vs reference precedence
parser), C05 (panics) and C12 (error offsets)."""
import z3, re, json, time, collections
from mirsym.core import *
from mirsym import models as MM, sym as SY
from vf import explore as XP
from vf.explore import Summary
from .common import *
from . import grammar as GR

LEXMAX = (1 << 31) - 1
TEXT = {'Dot': '.', 'Star': '*', 'Flatten': '[]', 'And': '&&', 'Or': '||', 'Pipe': '|', 'Filter': '[?', 'Lbracket': '[', 'Rbracket': ']', 'Comma': ',', 'Colon': ':',
        'Not': '!', 'Ne': '!=', 'Eq': '==', 'Gt': '>', 'Gte': '>=', 'Lt': '<', 'Lte': '<=', 'At': '@', 'Ampersand': '&', 'Lparen': '(', 'Rparen': ')', 'Lbrace': '{', 'Rbrace': '}'}

class TokLazy:
    def __init__(s, ex, pos, kinds, decls):
        s.pos, s.kinds, s.decls = pos, list(kinds), decls; s.tagvar = ex.fresh('tok', 64); s.num = None
        ex.assume(z3.Or(*[s.tagvar == decls.variant_index('Token', k) for k in s.kinds]))
    def __call__(s, ex, me, want=None):
        if want is None: lab = ex.choose([(k, s.tagvar == s.decls.variant_index('Token', k)) for k in s.kinds])
        else:
            if want not in s.kinds: raise PathAbort('infeasible token downcast')
            lab = want; ex.assume(s.tagvar == s.decls.variant_index('Token', want))
        me.lazy = None; me.variant = lab; me.fields = payload(ex, s, lab)

def payload(ex, tl, kind):
    if kind == 'Identifier': return [Cell(rstr(f'i{tl.pos}'))]
    if kind == 'QuotedIdentifier': return [Cell(rstr(f'q{tl.pos}'))]
    if kind == 'Number':
        if tl.num is None:
            tl.num = ex.fresh('num', 32); ex.assume(z3.And(tl.num >= -LEXMAX, tl.num <= LEXMAX))
        return [Cell(Int(tl.num, 'i32'))]
    if kind == 'Literal': return [Cell(num_var(tl.pos))]
    return []

class ConcTok:
    """concrete token with the same payload scheme"""
    def __init__(s, pos, kind): s.pos, s.kind, s.num, s.tagvar = pos, kind, None, None

def build_queue(ex, prog, layout):
    """layout: list of kind names (concrete) or lists of kinds (symbolic position). Returns (VecDeque value, handles)"""
    q = VecV(); hs = []
    for i, ent in enumerate(layout):
        if isinstance(ent, str):
            h = ConcTok(i, ent); tok = mk_enum('Token', ent, [c.v for c in payload(ex, h, ent)])
        else:
            h = TokLazy(ex, i, ent, prog.decls); tok = Agg('enum', 'Token', None, [], lazy=h)
        hs.append(h)
        q.items.append(Cell(Agg('tuple', None, None, [Cell(Int(2 * i, 'usize')), Cell(tok)])))
    q.items.append(Cell(Agg('tuple', None, None, [Cell(Int(2 * len(layout), 'usize')), Cell(mk_enum('Token', 'Eof', []))])))
    return q, hs

def canon(prog, node, nummap):
    """engine Ast value -> tuple tree in the reference parser's vocabulary (offsets erased)"""
    node = MM.deref_all(node); k = node.variant
    f = lambda n: ast_field(prog, node, n)
    def num(v):
        c = v.concrete()
        if c is not None: return 'ONE' if c == 1 else ('const', c)
        return nummap.get(v.bv.get_id(), ('expr', str(v.bv)))
    def optnum(o):
        o = MM.deref_all(o); return None if o.variant == 'None' else num(o.fields[0].v)
    if k == 'Identity': return ('Identity',)
    if k == 'Field': return ('Field', f('name').concrete())
    if k == 'Literal':
        v = MM.deref_all(f('value'))
        if v.variant == 'Number' and v.fields[0].v.kind == 'pos' and v.fields[0].v.val.concrete() is not None: return ('Literal', 'L%d' % v.fields[0].v.val.concrete())
        return ('Literal', repr(v)[:80])
    if k == 'Index': return ('Index', num(f('idx')))
    if k == 'Slice': return ('Slice', optnum(f('start')), optnum(f('stop')), num(f('step')))
    if k in ('Not', 'ObjectValues', 'Flatten'): return (k, canon(prog, f('node'), nummap))
    if k in ('Subexpr', 'Or', 'And', 'Projection'): return (k, canon(prog, f('lhs'), nummap), canon(prog, f('rhs'), nummap))
    if k == 'Condition': return (k, canon(prog, f('predicate'), nummap), canon(prog, f('then'), nummap))
    if k == 'Comparison': return (k, MM.deref_all(f('comparator')).variant, canon(prog, f('lhs'), nummap), canon(prog, f('rhs'), nummap))
    if k == 'MultiList': return (k, tuple(canon(prog, c.v, nummap) for c in f('elements').items))
    if k == 'MultiHash':
        kf = prog.decls.structs['KeyValuePair']
        return (k, tuple((c.v.fields[kf.index('key')].v.concrete(), canon(prog, c.v.fields[kf.index('value')].v, nummap)) for c in f('elements').items))
    if k == 'Expref': return (k, canon(prog, f('ast'), nummap))
    if k == 'Function': return (k, f('name').concrete(), tuple(canon(prog, c.v, nummap) for c in f('args').items))
    raise Unsupported(f'canon {k}')

def render(kinds, hs, model):
    out = []
    for k, h in zip(kinds, hs):
        if k == 'Identifier': out.append(f'i{h.pos}')
        elif k == 'QuotedIdentifier': out.append(f'"q{h.pos}"')
        elif k == 'Literal': out.append(f'`{h.pos}`')
        elif k == 'Number': out.append(str(mval(model, h.num)) if (h.num is not None and model is not None) else '7')
        else: out.append(TEXT[k])
    return ' '.join(out)

def parse_debug_ast(txt):
    """Rust {:?} of jmespath::ast::Ast -> tuple tree in the reference vocabulary (for confirming C04 counterexamples natively)"""
    pos = [0]
    def ws():
        while pos[0] < len(txt) and txt[pos[0]] in ' \n,': pos[0] += 1
    def ident():
        ws(); m = re.match(r'[A-Za-z_][A-Za-z0-9_]*', txt[pos[0]:]); pos[0] += len(m.group(0)); return m.group(0)
    def value():
        ws(); c = txt[pos[0]]
        if c == '"':
            j = pos[0] + 1; buf = []
            while txt[j] != '"':
                if txt[j] == '\\': buf.append(txt[j + 1]); j += 2
                else: buf.append(txt[j]); j += 1
            pos[0] = j + 1; return ''.join(buf)
        if c == '[':
            pos[0] += 1; out = []
            while True:
                ws()
                if txt[pos[0]] == ']': pos[0] += 1; return out
                out.append(value())
        m = re.match(r'-?\d+(\.\d+)?', txt[pos[0]:])
        if m: pos[0] += len(m.group(0)); return int(m.group(0)) if '.' not in m.group(0) else float(m.group(0))
        name = ident(); ws()
        if pos[0] < len(txt) and txt[pos[0]] == '{':
            pos[0] += 1; d = {}
            while True:
                ws()
                if txt[pos[0]] == '}': pos[0] += 1; break
                k = ident(); ws(); assert txt[pos[0]] == ':'; pos[0] += 1; d[k] = value()
            return (name, d)
        if pos[0] < len(txt) and txt[pos[0]] == '(':
            pos[0] += 1; args = []
            while True:
                ws()
                if txt[pos[0]] == ')': pos[0] += 1; break
                args.append(value())
            return (name, args)
        return (name, None)
    def conv(v):
        name, d = v
        if name == 'Identity': return ('Identity',)
        if name == 'Field': return ('Field', d['name'])
        if name == 'Literal':
            x = d['value']    # Number(Number(3)) / other
            s_ = json.dumps(x); m = re.search(r'-?\d+', s_); return ('Literal', 'L' + (m.group(0) if m else '?'))
        if name == 'Index': return ('Index', d['idx'])
        if name == 'Slice':
            o = lambda x: None if x[0] == 'None' else x[1][0]
            return ('Slice', o(d['start']), o(d['stop']), d['step'])
        if name in ('Not', 'ObjectValues', 'Flatten'): return (name, conv(d['node']))
        if name in ('Subexpr', 'Or', 'And', 'Projection'): return (name, conv(d['lhs']), conv(d['rhs']))
        if name == 'Condition': return (name, conv(d['predicate']), conv(d['then']))
        if name == 'Comparison': return (name, d['comparator'][0], conv(d['lhs']), conv(d['rhs']))
        if name == 'MultiList': return (name, tuple(conv(x) for x in d['elements']))
        if name == 'MultiHash': return (name, tuple((x[1]['key'], conv(x[1]['value'])) for x in d['elements']))
        if name == 'Expref': return (name, conv(d['ast']))
        if name == 'Function': return (name, d['name'], tuple(conv(x) for x in d['args']))
        raise ValueError(name)
    return conv(value())

def concretize_tree(t, numvals):
    """replace number handles ('n', pos) by model values, 'ONE' by 1"""
    if isinstance(t, tuple):
        if len(t) == 2 and t[0] == 'n': return numvals.get(t[1], 7)
        return tuple(concretize_tree(x, numvals) for x in t)
    if t == 'ONE': return 1
    return t

KNOWN_EXT = list(GR.EXT)

def parser_job(prog, layout, deadline, seed=0, want_trees=True, max_paths=10**9, label=''):
    eng = Engine(prog); eng.deadline = deadline; S = Summary(); XP.init_decls(prog)
    names = [v for v, _ in prog.decls.enums['Token']]
    vix = {n: prog.decls.variant_index('Token', n) for n in names}
    g_all = GR.grammar(KNOWN_EXT)
    def body(ex):
        q, hs = build_queue(ex, prog, layout); ex.u_hs = hs
        p = ex.call('Parser::new', [q, Ptr(Cell(rstr('x' * (2 * len(layout)))))])
        return ex.call('Parser::parse', [Ptr(Cell(p))])
    def is_tok_for(hs):
        def is_tok(i, name):
            h = hs[i]
            if isinstance(h, ConcTok): return h.kind == name
            if name not in h.kinds: return False
            return h.tagvar == vix[name]
        return is_tok
    def kinds_of(hs, m):
        return [h.kind if isinstance(h, ConcTok) else names[m.eval(h.tagvar, model_completion=True).as_long()] for h in hs]
    def on_path(ex, r):
        S['paths'] += 1; S['outcomes'][r[0]] += 1
        if r[0] == 'abort' and 'step budget' not in str(r[1]): return
        if r[0] == 'unsupported': S.inconclusive(f'parser {label}: ' + XP.short_unsupported(r[1])); return
        hs = ex.u_hs; is_tok = is_tok_for(hs)
        if r[0] == 'abort':
            sat, m = eng.check(ex.pc)
            if sat:
                ks = kinds_of(hs, m); text = render(ks, hs, m)
                S.cand('c05:hang', 'parse exceeds the step budget (non-termination candidate)', {'expr': text, 'tokens': ks}, {'op': 'compile', 'expr': text}, expected='terminates')
            return
        if r[0] == 'panic':
            sat, m = eng.check(ex.pc)
            if sat:
                ks = kinds_of(hs, m); text = render(ks, hs, m)
                S.cand('c05:parser-panic', f'compile panics: {r[1]}', {'expr': text, 'tokens': ks}, {'op': 'compile', 'expr': text}, expected='no panic')
            return
        res = r[1]; accepted = res.variant == 'Ok'
        S['outcomes']['accepted' if accepted else 'rejected'] += 1
        mem = GR.member_term(hs, is_tok)
        if accepted:
            memx = GR.member_term(hs, is_tok, g_all)
            sat, m = eng.check(ex.pc + [z3.Not(memx)])
            if sat:
                ks = kinds_of(hs, m); text = render(ks, hs, m)
                S.cand('c03:accepts-non-sentence', 'compile accepts a token sequence that is not a sentence of the grammar (nor a recorded deviation)', {'expr': text, 'tokens': ks},
                       {'op': 'compile', 'expr': text}, expected='compile-err')
            sat, m = eng.check(ex.pc + [memx, z3.Not(mem)])
            if sat:
                ks = kinds_of(hs, m); text = render(ks, hs, m)
                import itertools
                need = None
                for r_ in range(1, len(KNOWN_EXT) + 1):
                    for combo in itertools.combinations(KNOWN_EXT, r_):
                        if GR.accepts(ks, GR.grammar(combo)): need = list(combo); break
                    if need: break
                need = need or list(KNOWN_EXT)
                S.cand('c03:' + '+'.join(need), f'compile accepts a non-sentence (grammar deviation {"+".join(need)})', {'expr': text, 'tokens': ks}, {'op': 'compile', 'expr': text}, expected='compile-err')
                S['cands'][-1]['keys'] = ['c03:' + e for e in need] if S['cands'] and S['cands'][-1]['witness'].get('expr') == text else None
            S['vacuity']['parser accepts some sentence'] = True
            if want_trees:
                # C04: every kind vector on this path (normally exactly one) -> reference tree
                pc = list(ex.pc); cnt = 0
                while cnt < 12:
                    sat, m = eng.check(pc + [mem])
                    if not sat: break
                    cnt += 1
                    ks = kinds_of(hs, m)
                    sym = [h for h in hs if not isinstance(h, ConcTok)]
                    if sym: pc.append(z3.Or(*[h.tagvar != m.eval(h.tagvar, model_completion=True) for h in sym]))
                    toks = []; nummap = {}
                    for k, h in zip(ks, hs):
                        pl = {'Identifier': f'i{h.pos}', 'QuotedIdentifier': f'q{h.pos}', 'Literal': f'L{h.pos}', 'Number': ('n', h.pos)}.get(k)
                        toks.append((k, pl))
                        if k == 'Number' and h.num is not None: nummap[h.num.get_id()] = ('n', h.pos)
                    try: want = GR.ref_parse(toks)
                    except GR.RefError as e: want = ('REF-REJECTS', str(e))
                    got = canon(prog, res.fields[0].v, nummap)
                    if got != want:
                        text = render(ks, hs, m)
                        numvals = {h.pos: mval(m, h.num) for h in hs if h.num is not None}
                        S.cand('c04:tree-differs', 'the parse tree is not the one the binding-power rules define', {'expr': text, 'tokens': ks, 'got': str(got)[:300], 'want': str(want)[:300]},
                               {'op': 'compile', 'expr': text}, expected={'tree': concretize_tree(want, numvals)})
                    else: S['vacuity']['tree agrees with reference'] = True
                    if not sym: break
        else:
            sat, m = eng.check(ex.pc + [mem])
            if sat:
                ks = kinds_of(hs, m); text = render(ks, hs, m)
                S.cand('c03:rejects-sentence', 'compile rejects a sentence of the grammar', {'expr': text, 'tokens': ks}, {'op': 'compile', 'expr': text}, expected='ok')
            S['vacuity']['parser rejects some non-sentence'] = True
            # C12: a compile failure is a Parse error located at a token start inside the expression
            e = res.fields[0].v
            if XP.reason_kind(e) != 'parse':
                sat, m = eng.check(ex.pc)
                if sat:
                    ks = kinds_of(hs, m); text = render(ks, hs, m)
                    S.cand('c12:compile-error-not-parse', 'a compile failure is not a parse error', {'expr': text}, {'op': 'compile', 'expr': text}, expected='parse')
            off = XP.err_field(e, 'offset').concrete()
            if off is None or off % 2 != 0 or off > 2 * len(layout):
                sat, m = eng.check(ex.pc)
                if sat:
                    ks = kinds_of(hs, m); text = render(ks, hs, m)
                    S.cand('c12:compile-error-offset', f'compile error offset {off} is not the position of a token', {'expr': text}, {'op': 'compile', 'expr': text}, expected='offset at a token start')
        if (S['paths'] + seed) % 17 == 0:
            sat, m = eng.check(ex.pc)
            if sat:
                ks = kinds_of(hs, m); text = render(ks, hs, m)
                a = XP.worker_native().request({'op': 'compile', 'expr': text})
                if (a.get('kind') == 'ok') == accepted: S['replayed'] += 1
                else: S['mismatches'].append({'harness': 'parser', 'expr': text, 'engine_accepts': accepted, 'native': a})
                S.sample({'harness': 'parser', 'tokens': text, 'accepted': accepted}, cap=3)
    n, rest = eng.explore(body, on_path, max_paths=max_paths)
    if rest: S.inconclusive(f'parser {label}: {"deadline" if eng.deadline and time.time() > eng.deadline else "path cap"} after {n} paths, {len(rest)} prefixes unexplored')
    S.absorb_engine(eng)
    return S
