"""C14 (deserialisation side): `impl Deserializer for Variable` and its helpers (SeqDeserializer, MapDeserializer, EnumDeserializer,
VariantDeserializer) executed from the MIR of variable.rs with a RECORDING visitor: the stream of visit_* events the crate produces for a
(symbolic) search result must be the stream serde_json's own Value deserializer produces for the same JSON, for the entry points
deserialize_any / deserialize_option / deserialize_enum (all four variant access forms) / deserialize_newtype_struct."""
import z3, json, time
from mirsym.core import *
from mirsym import models as MM, sym as SY
from mirsym.core import model_override
from vf import explore as XP
from vf.explore import Summary
from .common import *

class PyVisitorV:
    __slots__ = ()
    def __repr__(s): return '<recording visitor>'
class PySeedV:
    __slots__ = ()
class UnitVisitorV:
    __slots__ = ()
class EventV:
    __slots__ = ('t',)
    def __init__(s, t): s.t = t
    def __repr__(s): return f'ev{s.t!r}'
class StrDeV:
    __slots__ = ('chars',)
    def __init__(s, chars): s.chars = chars
def de_err(msg='invalid type'): return err(Agg('struct', 'SerdeJsonError', None, [Cell(rstr(msg))]))

def deser_any(ex, d, visitor=None):
    """deserialize_any on whatever deserializer value the crate handed to us"""
    visitor = visitor or PyVisitorV()
    if isinstance(d, StrDeV): return ok(EventV(('str', list(d.chars)))) if isinstance(visitor, PyVisitorV) else de_err()
    if isinstance(d, Ptr): d = d.cell.v if not isinstance(d.cell.v, Agg) or d.kind != 'rc' else d
    dv = MM.deref_all(d) if isinstance(d, Ptr) else d
    ty = dv.ty if isinstance(dv, Agg) else None
    f = ex.prog.by_key.get(('Deserializer', ty, 'deserialize_any'))
    if f is None: raise Unsupported(f'deserialize_any of {ty}')
    return ex.run_fn(f, [dv, visitor])

@model_override(r'^<.+ as (?:serde::)?(?:de::)?Visitor(?:<.*>)?>::visit_(\w+)$')
def m_visit(ex, a, m):
    v = a[0]; k = m.group(1)
    if isinstance(v, UnitVisitorV): return ok(UNIT) if k == 'unit' else de_err('invalid type: expected unit')
    if not isinstance(v, PyVisitorV): return NotImplemented
    if k in ('unit', 'none'): return ok(EventV((k,)))
    if k == 'bool': return ok(EventV(('bool', a[1])))
    if k in ('u64', 'i64', 'f64', 'u8', 'u16', 'u32', 'i8', 'i16', 'i32', 'f32'): return ok(EventV((k, a[1])))
    if k in ('str', 'string', 'borrowed_str'): return ok(EventV(('str', list(MM.as_str(a[1]).chars))))
    if k in ('some', 'newtype_struct'):
        r = deser_any(ex, a[1])
        return ok(EventV(('some' if k == 'some' else 'newtype', r.fields[0].v))) if r.variant == 'Ok' else r
    if k == 'seq':
        acc = Cell(a[1]); ty = a[1].ty; out = []
        f = ex.prog.by_key.get(('SeqAccess', ty, 'next_element_seed'))
        while True:
            r = ex.run_fn(f, [Ptr(acc), PySeedV()])
            if r.variant != 'Ok': return r
            o = r.fields[0].v
            if o.variant == 'None': return ok(EventV(('seq', out)))
            out.append(o.fields[0].v)
            if len(out) > 16: raise Unsupported('sequence does not end')
    if k == 'map':
        acc = Cell(a[1]); ty = a[1].ty; out = []
        fk = ex.prog.by_key.get(('MapAccess', ty, 'next_key_seed')); fv = ex.prog.by_key.get(('MapAccess', ty, 'next_value_seed'))
        while True:
            r = ex.run_fn(fk, [Ptr(acc), PySeedV()])
            if r.variant != 'Ok': return r
            o = r.fields[0].v
            if o.variant == 'None': return ok(EventV(('map', out)))
            rv = ex.run_fn(fv, [Ptr(acc), PySeedV()])
            if rv.variant != 'Ok': return rv
            out.append((o.fields[0].v, rv.fields[0].v))
            if len(out) > 16: raise Unsupported('map does not end')
    if k == 'enum':
        ea = a[1]
        f = ex.prog.by_key.get(('EnumAccess', ea.ty, 'variant_seed'))
        r = ex.run_fn(f, [ea, PySeedV()])
        if r.variant != 'Ok': return r
        name_ev, va = r.fields[0].v.fields[0].v, r.fields[0].v.fields[1].v
        forms = {}
        for form, args in (('unit_variant', []), ('newtype_variant_seed', [PySeedV()]), ('tuple_variant', [Int(2, 'usize'), PyVisitorV()]), ('struct_variant', [Ptr(Cell(SliceRef([])), 'ref'), PyVisitorV()])):
            g = ex.prog.by_key.get(('VariantAccess', va.ty, form))
            rr = ex.run_fn(g, [MM.clone_value(ex, va)] + args)
            forms[form] = ('ok', rr.fields[0].v) if rr.variant == 'Ok' else ('err',)
        return ok(EventV(('enum', name_ev, forms)))
    raise Unsupported('recording visitor: visit_' + k)
@model_override(r'^<.+ as (?:serde::)?(?:de::)?DeserializeSeed(?:<.*>)?>::deserialize$')
def m_seed(ex, a, m):
    if not isinstance(a[0], PySeedV): return NotImplemented
    return deser_any(ex, a[1])
@model_override(r'^<.+ as (?:serde::)?(?:de::)?IntoDeserializer(?:<.*>)?>::into_deserializer$')
def m_into_de(ex, a, m):
    v = a[0]
    if isinstance(v, StrV): return StrDeV(list(v.chars))
    return NotImplemented
@model_override(r'^<\(\) as (?:serde::)?(?:de::)?Deserialize(?:<.*>)?>::deserialize$|^<.+ as (?:serde::)?(?:de::)?Deserialize(?:<.*>)?>::deserialize$')
def m_unit_deserialize(ex, a, m):
    """the only foreign Deserialize the crate calls: `()` in VariantDeserializer::unit_variant"""
    if not m.group(0).startswith('<() as'): return NotImplemented
    return deser_any(ex, a[0], UnitVisitorV())
@model_override(r'^<.+ as (?:serde::)?de::Error>::(invalid_type|invalid_value|invalid_length|custom|missing_field|unknown_variant)$')
def m_de_error(ex, a, m): return Agg('struct', 'SerdeJsonError', None, [Cell(rstr(m.group(1)))])

# ------------------------------------------------------------------ oracle: serde_json::Value's deserializer event stream for a JSON value
def ev_any(ex, v):
    v = MM.deref_all(v)
    if v.lazy is not None: ex.materialize(v)
    k = v.variant
    if k == 'Null': return ('unit',)
    if k == 'Bool': return ('bool', v.fields[0].v)
    if k == 'String': return ('str', list(v.fields[0].v.chars))
    if k == 'Number':
        n = v.fields[0].v; return ({'pos': 'u64', 'neg': 'i64', 'float': 'f64'}[n.kind], n.val)
    if k == 'Array': return ('seq', [ev_any(ex, c.v) for c in v.fields[0].v.items])
    if k == 'Object':
        mp = v.fields[0].v
        return ('map', [(('str', list(kk)), ev_any(ex, mp.d[kk].v)) for kk in sorted(mp.d, key=lambda x: [ord(c) for c in x])])
    raise Unsupported('oracle: ' + k)
def ev_enum(ex, v):
    v = MM.deref_all(v)
    if v.lazy is not None: ex.materialize(v)
    if v.variant == 'String': return ('enum', ('str', list(v.fields[0].v.chars)), {'unit_variant': ('ok',), 'newtype_variant_seed': ('err',), 'tuple_variant': ('err',), 'struct_variant': ('err',)})
    if v.variant == 'Object' and len(v.fields[0].v.d) == 1:
        (kk, c), = v.fields[0].v.d.items(); cv = MM.deref_all(c.v)
        if cv.lazy is not None: ex.materialize(cv)
        forms = {'unit_variant': ('ok',) if cv.variant == 'Null' else ('err',), 'newtype_variant_seed': ('ok', ev_any(ex, cv))}
        if cv.variant == 'Array':
            items = cv.fields[0].v.items
            forms['tuple_variant'] = ('ok', ('unit',) if not items else ('seq', [ev_any(ex, x.v) for x in items]))     # serde_json: a tuple variant with no fields visits unit
        else: forms['tuple_variant'] = ('err',)
        forms['struct_variant'] = ('ok', ev_any(ex, cv)) if cv.variant == 'Object' else ('err',)
        return ('enum', ('str', list(kk)), forms)
    return 'ERR'

def norm(ex, t):
    """event tree -> comparable structure; returns (shape, [z3 disequalities to be unsat])"""
    if isinstance(t, EventV): t = t.t
    if t == 'ERR': return 'ERR'
    k = t[0]
    if k in ('unit', 'none'): return (k,)
    if k == 'bool': return ('bool', ('B', t[1]))
    if k in ('u64', 'i64', 'f64'): return (k, ('N', t[1]))
    if k == 'str': return ('str', tuple(c if isinstance(c, str) else ('C', c) for c in t[1]))
    if k in ('some', 'newtype'): return (k, norm(ex, t[1]))
    if k == 'seq': return ('seq', tuple(norm(ex, x) for x in t[1]))
    if k == 'map': return ('map', tuple((norm(ex, a), norm(ex, b)) for a, b in t[1]))
    if k == 'enum': return ('enum', norm(ex, t[1]), tuple(sorted((f, (r[0],) if r[0] == 'err' or len(r) < 2 or r[1] is UNIT or (isinstance(r[1], Agg) and r[1].kind == 'tuple' and not r[1].fields) else ('ok', norm(ex, r[1]))) for f, r in t[2].items())))
    raise Unsupported('norm ' + str(k))
def differs(a, b, conds):
    """structural comparison of normalised trees; symbolic leaves produce z3 disequalities in conds"""
    if isinstance(a, tuple) and isinstance(b, tuple):
        if len(a) == 2 and a[0] in ('B', 'N', 'C') and b and b[0] == a[0]:
            x, y = a[1], b[1]
            if a[0] == 'B': conds.append(x.b != y.b) if x is not y else None
            elif a[0] == 'C': conds.append(x.bv != y.bv) if x is not y else None
            else:
                if isinstance(x, F64): conds.append(z3.fpToIEEEBV(x.f) != z3.fpToIEEEBV(y.f)) if x is not y else None
                else: conds.append(x.bv != y.bv) if x is not y else None
            return False
        if len(a) != len(b): return True
        return any(differs(p, q, conds) for p, q in zip(a, b))
    if isinstance(a, tuple) != isinstance(b, tuple): return True
    return a != b

def deser_job(prog, entry, deadline, seed=0, depth=2, symbolic_numbers=False, A=2):
    eng = Engine(prog); eng.deadline = deadline; S = Summary(); XP.init_decls(prog)
    spec = SY.DocSpec(depth=depth, A=A, keys=('a', 'b')[:max(A, 1)], strs=('', 'a'), nums=None if symbolic_numbers else [0, -1, 1.5])
    def body(ex):
        v = SY.sym_variable(ex, spec); ex.u_v = v
        want = {'any': lambda: ev_any(ex, v), 'option': lambda: (('none',) if MM.deref_all(v).variant == 'Null' else ('some', ev_any(ex, v))), 'enum': lambda: ev_enum(ex, v), 'newtype': lambda: ('newtype', ev_any(ex, v))}
        if entry == 'any': r = deser_any(ex, v)
        else:
            f = ex.prog.by_key.get(('Deserializer', 'Variable', {'option': 'deserialize_option', 'enum': 'deserialize_enum', 'newtype': 'deserialize_newtype_struct'}[entry]))
            args = [v] + ([sref_('E'), Ptr(Cell(SliceRef([])), 'ref')] if entry == 'enum' else ([sref_('N')] if entry == 'newtype' else [])) + [PyVisitorV()]
            if entry == 'option':
                vv = MM.deref_all(v)
                if vv.lazy is not None: ex.materialize(vv)
            r = ex.run_fn(f, args)
        w = want[entry]()
        got = 'ERR' if r.variant != 'Ok' else r.fields[0].v
        conds = []
        if (got == 'ERR') != (w == 'ERR'): return f'{entry}: ' + ('the crate rejects a value serde_json decodes' if got == 'ERR' else 'the crate decodes a value serde_json rejects')
        if got == 'ERR': return None
        ng, nw = norm(ex, got), norm(ex, w)
        if differs(ng, nw, conds): return f'{entry}: event stream differs: crate {str(ng)[:160]} vs serde_json {str(nw)[:160]}'
        conds = [c for c in conds if c is not None]
        if conds:
            sat, _ = eng.check(ex.pc + [z3.Or(*conds)])
            if sat: ex.assume(z3.Or(*conds)); return f'{entry}: a scalar is altered'
        return None
    def on_path(ex, r):
        S['paths'] += 1; S['outcomes'][r[0]] += 1
        if r[0] == 'abort': return
        if r[0] == 'unsupported': S.inconclusive(f'deserializer {entry}: ' + XP.short_unsupported(r[1])); return
        acc = []; SY.lazy_null_constraints(ex.u_v, acc)
        sat, m = SY.check_pinned(eng, ex.pc, acc)
        if not sat: return
        d = SY.tagged(ex, ex.u_v, m)
        if r[0] == 'panic': S.cand('c05:deserialize-panic', f'panics: {r[1]}', {'value': d, 'entry': entry}, {'op': 'deser', 'entry': entry, 'value': d}, expected='no panic'); return
        if r[1] is not None:
            S.cand(f'c14:deserialize-{entry}', r[1], {'value': d, 'entry': entry}, {'op': 'deser', 'entry': entry, 'value': d}, expected='same as serde_json'); return
        S['vacuity'][f'deserialize {entry} agrees'] = True
        if (S['paths'] + seed) % 9 == 0:
            a = XP.worker_native().request({'op': 'deser', 'entry': entry, 'value': d})
            if a.get('kind') == 'ok' and a.get('equal'): S['replayed'] += 1
            else: S['mismatches'].append({'harness': 'deserializer', 'entry': entry, 'value': d, 'native': a})
            S.sample({'harness': 'deserializer ' + entry, 'value': d}, cap=2)
    n, rest = eng.explore(body, on_path, max_paths=30000)
    if rest: S.inconclusive(f'deserializer {entry}: cap/deadline after {n} paths')
    S.absorb_engine(eng)
    return S
def sref_(s): return Ptr(Cell(rstr(s)), 'ref')
