"""C14 — serde bridge.  K: scalar kernels over every value of each primitive type (real serde/serde_json code).
M: the crate's Serializer driven as serde drives it for values of the serde data model (all four enum variant shapes, structs, tuples, sequences,
maps with string/char keys, options, bytes) with symbolic leaves, from the MIR of variable.rs, against the JSON image serde_json documents."""
from vf import explore as XP
from .common import run_jobs
from . import serdejob as SJ, deserjob as DJ
from .kscalar import run_kani_only
NAMES = ['c14_ser_u8', 'c14_ser_u16', 'c14_ser_u32', 'c14_ser_u64', 'c14_ser_usize', 'c14_ser_i8', 'c14_ser_i16', 'c14_ser_i32', 'c14_ser_i64', 'c14_ser_isize', 'c14_ser_f64', 'c14_ser_f32',
         'c14_ser_bool_unit_char_option', 'c14_de_u8', 'c14_de_u32', 'c14_de_u64', 'c14_de_i8', 'c14_de_i32', 'c14_de_i64', 'c14_de_f64_bool']
PROG = None
def task(item):
    if item[0] == 'de':
        _, entry, depth, symn, dl = item[:5]
        return DJ.deser_job(PROG, entry, dl, depth=depth, symbolic_numbers=symn, A=item[5] if len(item) > 5 else 2)
    top, depth, dl = item
    return SJ.serde_job(PROG, top, depth, dl)
def run(run):
    global PROG
    PROG = run.program(); XP.init_decls(PROG)
    run.native('dev')
    XP.run_translator_validation(run, PROG, every=8 if run.tier == 'quick' else 1)
    depth = 1 if run.tier == 'quick' else 2
    jobs = [(k, depth if k in SJ.COMPOSITE else 0, run.deadline) for k in SJ.LEAVES + SJ.COMPOSITE]
    jobs += [('de', e, 1, True, run.deadline) for e in ('any', 'option', 'enum', 'newtype')] + [('de', e, 2, False, run.deadline, 1 if run.tier == 'quick' else 2) for e in ('any', 'option', 'enum', 'newtype')]
    run_jobs(run, jobs, task, 'mirsym: serde data model values through the crate Serializer vs the serde_json image; Deserializer event streams vs serde_json')
    run.cands = [c for c in run.cands if c['key'].startswith('c14:')]
    run_kani_only(run, NAMES,
        bounds={'serialisation (K)': 'Variable::from_serializable(x) for EVERY value x of u8,u16,u32,u64,usize,i8,i16,i32,i64,isize,f32,f64 (non-finite -> null), bool, (), char, Option<u64>, with the real serde/serde_json code in the formula',
                'deserialisation (K)': 'T::deserialize(Variable::Number(n)) for every u64 / negative i64 / finite f64 payload and T in u8,u32,u64,i8,i32,i64,f64,bool: value kept iff it fits, error otherwise',
                'deserializer (M)': 'the visit_* event stream of `impl Deserializer for Variable` (deserialize_any / _option / _enum with all four variant access forms / _newtype_struct, through SeqDeserializer, MapDeserializer, EnumDeserializer, VariantDeserializer) on symbolic values (depth 1 with fully symbolic numbers, depth 2 structure) equals the stream serde_json::Value produces',
                'data model (M)': f'every shape of the serde data model (16 leaf kinds, 10 composite kinds incl. unit/newtype/tuple/struct variants, maps with str and char keys incl. a duplicate key) nested to depth {depth} with <= 2 members, leaves symbolic (all integers of the width, all doubles, all chars)'},
        outside=['#[derive]-generated code of user types is represented by the sequence of Serializer calls the serde data model prescribes',
                 '128-bit integers, maps with non-string keys (excluded by the property)'],
        assumes=['Rc::drop_slow and fmt::format are stubbed in the Kani harnesses', 'serde_json image of the data model as documented by serde (harness/serdejob.py image())'], keyprefix='c14')
