"""C14 — serde bridge (partial: scalar kernels with Kani over every value of each primitive type; container shapes via mirsym are future work)."""
from .kscalar import run_kani_only
NAMES = ['c14_ser_u8', 'c14_ser_u16', 'c14_ser_u32', 'c14_ser_u64', 'c14_ser_usize', 'c14_ser_i8', 'c14_ser_i16', 'c14_ser_i32', 'c14_ser_i64', 'c14_ser_isize', 'c14_ser_f64', 'c14_ser_f32',
         'c14_ser_bool_unit_char_option', 'c14_de_u8', 'c14_de_u32', 'c14_de_u64', 'c14_de_i8', 'c14_de_i32', 'c14_de_i64', 'c14_de_f64_bool']
def run(run):
    run_kani_only(run, NAMES,
        bounds={'serialisation': 'Variable::from_serializable(x) for EVERY value x of u8,u16,u32,u64,usize,i8,i16,i32,i64,isize,f32,f64 (non-finite -> null), bool, (), char, Option<u64>, with the real serde/serde_json code in the formula',
                'deserialisation': 'T::deserialize(Variable::Number(n)) for every u64 / negative i64 / finite f64 payload and T in u8,u32,u64,i8,i32,i64,f64,bool: value kept iff it fits, error otherwise'},
        outside=['container shapes (structs, enums in four variant shapes, tuples, maps, bytes): the Serializer/Deserializer state machines allocate Vec/BTreeMap/String in loops, which CBMC does not discharge here and which are not yet driven through mirsym -- not claimed',
                 '#[derive]-generated code of user types, 128-bit integers, maps with non-string keys (excluded by the property)'],
        assumes=['Rc::drop_slow and fmt::format are stubbed (deallocation / message text are not observed by the property)'], keyprefix='c14')
