"""Built-in functions through the real MIR (Function arm of interpret -> Runtime::get_function -> Signature::validate -> evaluate)
against the specification table/semantics in harness/funcs.py.  Shared by C02 (values), C06 (signatures), C12 (runtime error metadata)."""
import z3, json, time, math, itertools
from fractions import Fraction
from mirsym.core import *
from mirsym import models as MM, sym as SY
from vf import explore as XP
from vf.explore import Summary
from vf.native import tag_num
from .common import *
from . import funcs as F

EXPR_TEXT = 'f______(............)'          # ctx.expression used with hand-built ASTs; Function nodes get distinctive offsets
OUTER_OFF, INNER_OFF = 7, 3

def choose_from(ex, name, options):
    v = ex.fresh(name, 16)
    return options[ex.choose([(i, v == i) for i in range(len(options))])]

def tag_py(v):
    """python JSON -> tagged JSON for the replay driver"""
    if isinstance(v, bool) or v is None or isinstance(v, str): return v
    if isinstance(v, int): return tag_num('pos' if v >= 0 else 'neg', v)
    if isinstance(v, float): return tag_num('float', v)
    if isinstance(v, list): return [tag_py(x) for x in v]
    if isinstance(v, dict): return {k: tag_py(x) for k, x in v.items()}
    if isinstance(v, tuple) and v[0] == 'expref': return {'$expref': v[1].lstrip('&')}
    raise ValueError(v)
def lit_text(v):
    if isinstance(v, tuple) and v[0] == 'expref': return v[1]
    return '`' + json.dumps(v, ensure_ascii=False).replace('`', '\\`') + '`'
def call_text(name, args): return f'{name}(' + ', '.join(lit_text(a) for a in args) + ')'

def arg_ast(prog, ex, eng_cache, v):
    """python value -> Ast node producing it (Literal, or the parsed expression reference)"""
    if isinstance(v, tuple) and v[0] == 'expref':
        key = v[1]
        if key not in eng_cache:
            r = XP.parse_expr(ex, v[1])
            if r.variant != 'Ok': raise Unsupported('harness expref does not parse: ' + v[1])
            node = MM.deref_all(r.fields[0].v)
            # give function nodes inside the reference a distinctive offset
            def fix(n):
                n = MM.deref_all(n)
                if isinstance(n, Agg) and n.ty == 'Ast':
                    if n.variant == 'Function': n.fields[dict(prog.decls.enums['Ast'])['Function'].index('offset')].v = Int(INNER_OFF, 'usize')
                    for c in n.fields: fix(c.v)
                elif isinstance(n, VecV):
                    for c in n.items: fix(c.v)
            fix(node)
            eng_cache[key] = node
        return eng_cache[key]
    return mk_ast(prog, 'Literal', offset=Int(0, 'usize'), value=Ptr(Cell(MM.py_to_variable(v)), 'rc'))

def result_matches(got, want):
    if isinstance(want, F.Pred): return want.f(got)
    return F.deep_eq(got, want) if not (isinstance(got, tuple) or isinstance(want, tuple)) else got == want

def call_job(prog, name, arg_lists, deadline, seed=0, mode='values', label='', nest=None):
    """arg_lists: list of per-position option lists (python values); the solver picks one option per position (forks).
    mode 'values' (C02: precondition = signature satisfied), 'table' (C06: any arguments)."""
    eng = Engine(prog); eng.deadline = deadline; S = Summary(); XP.init_decls(prog)
    ex0 = PathExec(eng, []); rtc = XP.mk_runtime(ex0); cache = {}
    def body(ex):
        args = [choose_from(ex, f'arg{i}', opts) for i, opts in enumerate(arg_lists)]
        ex.u_args = args
        node = mk_ast(prog, 'Function', name=rstr(name), args=VecV([Cell(arg_ast(prog, ex, cache, a)) for a in args]), offset=Int(OUTER_OFF, 'usize'))
        if nest == 'projection':          # [*].f(@ ...) : the call evaluated once per element of a one-element projection
            node = mk_ast(prog, 'Projection', offset=Int(0, 'usize'), lhs=boxed(mk_ast(prog, 'Literal', offset=Int(0, 'usize'), value=Ptr(Cell(MM.py_to_variable([0])), 'rc'))), rhs=boxed(node))
        elif nest == 'to_array':          # to_array(f(...)) : as an argument of another call
            node = mk_ast(prog, 'Function', name=rstr('to_array'), args=VecV([Cell(node)]), offset=Int(1, 'usize'))
        data = Ptr(Cell(MM.py_to_variable(None)), 'rc')
        return XP.interpret(ex, node, data, EXPR_TEXT, rtc)
    def on_path(ex, r):
        S['paths'] += 1; S['outcomes'][r[0]] += 1
        if r[0] == 'abort': return
        if r[0] == 'unsupported':
            if 'sort_unstable' in str(r[1]) and hasattr(ex, 'u_args'):
                # an unstable sort met equal keys: the order of ties is unspecified, so the model cannot decide this path. std's unstable sort is an
                # insertion sort below 21 elements, which hides the effect on small inputs: the tie pattern is amplified to 64 elements for the native replay.
                if name == 'sort_by':
                    doc = [{'k': (i * 7) % 3, 'i': i} for i in range(64)]; expr = 'sort_by(@, &k)[*].i'
                    exp = [tag_py(x['i']) for x in sorted(doc, key=lambda x: x['k'])]
                else:
                    doc = [((i * 7) % 3 if i % 2 else float((i * 7) % 3)) for i in range(64)]; expr = 'sort(@)'
                    exp = [tag_py(x) for x in sorted(doc, key=lambda x: Fraction(x))]
                S.cand(f'c02:{name}-unstable', f'{name} uses an unstable sort ({XP.short_unsupported(r[1])[:80]})', {'expr': call_text(name, ex.u_args), 'amplified': '64 elements with three distinct keys'},
                       {'op': 'search', 'expr': expr, 'doc': tag_py(doc)}, expected=exp); return
            S.inconclusive(f'{name}: ' + XP.short_unsupported(r[1])); return
        args = ex.u_args; text = call_text(name, args)
        req = {'op': 'search', 'expr': text if not nest else ('`[0]`[*].' + text if nest == 'projection' else f'to_array({text})'), 'doc': None}
        if r[0] == 'panic':
            S.cand('c05:function-panic', f'{name} panics: {r[1]}', {'expr': req['expr']}, req, expected='no panic'); return
        out = r[1]
        want_err = F.check_call(name, args)
        if mode == 'values' and want_err is not None: S['outcomes']['skipped-ill-typed'] += 1; return
        if want_err == 'either':
            # an expression reference in an `any` position: success or invalid-type are both accepted, nothing else
            if out.variant == 'Err' and XP.reason_kind(out.fields[0].v) not in ('invalid-type',):
                S.cand('c06:wrong-error-class', f'{name}: expression reference in an `any` position fails with {XP.reason_kind(out.fields[0].v)}', {'expr': req['expr']}, req, expected='invalid-type')
            return
        sp = F.spec(name, args) if (want_err is None and name in F.SIG) else None
        exp_off = INNER_OFF if (sp is not None and sp[0] == 'err' and len(sp) > 2 and sp[2] == 'inner') else OUTER_OFF
        if out.variant == 'Err':
            e = out.fields[0].v; kind = XP.reason_kind(e)
            # ---- C12: runtime error metadata
            off = XP.err_field(e, 'offset').concrete(); exprs = XP.err_field(e, 'expression').concrete()
            nonfin = sp is not None and sp[0] == 'ok' and isinstance(sp[1], float) and (math.isinf(sp[1]) or math.isnan(sp[1]))
            if kind == 'parse' and nonfin:
                S.cand('c12:nonfinite-result-as-parse', f'{name}: a search whose numeric result is not finite reports a Parse-class error with expression {exprs!r}', {'expr': req['expr']}, req, expected='runtime error'); return
            if kind == 'parse': S.cand('c12:runtime-error-as-parse', f'{name}: a failing search reports a Parse-class error', {'expr': req['expr']}, req, expected='runtime error')
            elif exprs != EXPR_TEXT: S.cand('c12:error-expression', f'{name}: runtime error does not carry the expression text', {'expr': req['expr']}, req, expected='expression text')
            elif off != exp_off: S.cand('c12:runtime-error-offset', f'{name}: runtime error points at offset {off}, the failing call is at {exp_off}', {'expr': req['expr'], 'args': [lit_text(a) for a in args]}, req, expected='offset of the failing call')
        if want_err is not None:
            if out.variant == 'Ok': S.cand(f'c06:accepts-ill-typed-call', f'{name}: spec requires {want_err}, the call succeeds', {'expr': req['expr']}, req, expected=want_err)
            elif XP.reason_kind(out.fields[0].v) not in F.ARITY[want_err]:
                S.cand('c06:wrong-error-class', f'{name}: spec requires {want_err}, got {XP.reason_kind(out.fields[0].v)}', {'expr': req['expr']}, req, expected=want_err)
            else: S['vacuity'][f'signature error {want_err}'] = True
            return
        if name not in F.SIG: return
        k, want = sp[0], sp[1]
        if out.variant == 'Err':
            kind = XP.reason_kind(out.fields[0].v)
            if k == 'err' and kind in F.ARITY.get(want, (want,)): S['vacuity']['by-function key error'] = True; return
            if k == 'ok':
                key = 'c06:rejects-well-typed-call' if kind in ('too-many-arguments', 'not-enough-arguments', 'invalid-type', 'unknown-function') else f'c02:{name}-fails'
                S.cand(key, f'{name}: well-typed call fails with {kind}', {'expr': req['expr']}, req, expected=None if isinstance(want, F.Pred) else tag_py(want)); return
            S.cand(f'c02:{name}-wrong-error', f'{name}: expected error {want}, got {kind}', {'expr': req['expr']}, req, expected=want); return
        if k == 'err':
            S.cand(f'c02:{name}-missing-error', f'{name}: spec requires error {want}, call returns a value', {'expr': req['expr']}, req, expected=want); return
        try: got = MM.variable_to_py(ex, out.fields[0].v)
        except Unsupported as u: S.inconclusive(f'{name}: result not concrete: {u}'); return
        if nest == 'projection':
            okv = isinstance(got, list) and ((got == [] and result_matches(None, want)) or (len(got) == 1 and result_matches(got[0], want)))
        elif nest == 'to_array':
            okv = isinstance(got, list) and (result_matches(got, want) or (len(got) == 1 and result_matches(got[0], want)))
        else: okv = result_matches(got, want)
        rty = F.jtype(got) if not isinstance(got, tuple) else 'other'
        declared = F.SIG[name][2]
        if not okv:
            S.cand(f'c02:{name}-wrong-value', f'{name} returns {json.dumps(got, default=str)[:80]}; specification: {want.desc if isinstance(want, F.Pred) else json.dumps(want, default=str)[:80]}',
                   {'expr': req['expr']}, req, expected=None if isinstance(want, F.Pred) else tag_py(want)); return
        if 'any' not in declared and rty not in declared and not nest:
            S.cand('c06:result-type', f'{name} returns a {rty}, declared result type {declared}', {'expr': req['expr']}, req, expected=list(declared)); return
        S['vacuity'][f'{name} value agrees'] = True
        if (S['paths'] + seed) % 11 == 0:
            a = XP.worker_native().request(req)
            if a.get('kind') == 'ok' and a.get('value') == SY.tagged(ex, out.fields[0].v if not nest else out.fields[0].v, None): S['replayed'] += 1
            elif a.get('kind') == 'ok': S['mismatches'].append({'harness': 'function', 'expr': req['expr'], 'engine': got, 'native': a})
            S.sample({'harness': 'function', 'expr': req['expr'], 'result': a.get('value')}, cap=2)
    n, rest = eng.explore(body, on_path)
    if rest: S.inconclusive(f'{name} {label}: deadline after {n} paths, {len(rest)} prefixes unexplored')
    S.absorb_engine(eng)
    return S

# ------------------------------------------------------------------ value universes
NUMS = [0, 1, -1, 1.5, -1.5, 2, 1.0]
STRS = ['', 'a', 'ab', 'b', 'ba', 'é', 'aé', '\U0001d11ea', 'e\u0301x']          # incl. an astral character and a combining mark after its base
NUMSTR = ['1', '-1', '1.5', '1e2', ' 1', '01', 'true', 'null', '[1]', '{}', '"1"', 'x', '', '1.', '-', '1e400', '0', '-0']
def arrays_of(elems, maxlen):
    out = [[]]
    for n in range(1, maxlen + 1): out += [list(t) for t in itertools.product(elems, repeat=n)]
    return out
ELEMS = [None, 1, 2, 'a', [1], {'a': 1}, {'a': 2}, {'a': 'x'}, {'b': 1}]
OBJS = [{}, {'a': 1}, {'b': 2}, {'a': 1, 'b': 2}, {'a': None}, {'é': 1, 'a': 2, 'b': 3}, {'b': 1, 'a': {'a': 1}}]
EXPREFS = [('expref', '&@'), ('expref', '&a'), ('expref', '&b'), ('expref', '&length(@)'), ('expref', '&to_number(@)'), ('expref', '&abs(@)'), ('expref', '&to_array(@)'), ('expref', '&nosuch(@)'), ('expref', '&a[0:1]'), ('expref', '&[0:1]')]
ANY = [None, True, 0, 'a', [], [1], ['a'], [1, 'a'], {}, {'a': 1}, ('expref', '&a')]

def universes(A):
    B = max(A, 3)          # by-functions, sort, max, min need three elements (an extreme in the middle, a tie after the extreme)
    return {
     'abs': [NUMS], 'ceil': [NUMS + [2.5, -2.5, 1e300]], 'floor': [NUMS + [2.5, -2.5, 1e300]],
     'avg': [arrays_of([1, 2, 1.5, -1], A)], 'sum': [arrays_of([1, 2, 1.5, -1], A)],
     'contains': [arrays_of([None, 1, 1.0, 'a', [1], {'a': 1}], 2) + STRS, [None, 1, 1.0, 'a', 'b', '', [1], {'a': 1}, {'a': 1.0}, True]],
     'ends_with': [STRS, STRS], 'starts_with': [STRS, STRS],
     'join': [['', ',', 'é'], arrays_of(['a', 'b', '', 'é'], A)],
     'keys': [OBJS], 'values': [OBJS], 'length': [STRS + arrays_of([1, None], 2) + OBJS],
     'map': [EXPREFS, arrays_of([None, 1, 'a', [1, 2], {'a': 1}, {'a': None, 'b': 2}], min(A, 2))],
     'max': [arrays_of([1, 2, 1.0, -1.5], B) + arrays_of(['a', 'b', 'é', 'ab'], B) + arrays_of([0.30000000000000004, 0.3, 1], B)], 'min': [arrays_of([1, 2, 1.0, -1.5], B) + arrays_of(['a', 'b', 'é', 'ab'], B) + arrays_of([0.30000000000000004, 0.3, 1], B)],
     'max_by': [arrays_of([{'a': 1}, {'a': 2}, {'a': 3}, {'a': 2, 'b': 0}, {'a': 'x'}, {'a': 'é'}, {'b': 1}, 'ab'], B) if A >= 3 else arrays_of([{'a': 1}, {'a': 2}, {'a': 3}, {'a': 3, 'b': 0}, {'a': 'x'}, {'b': 1}], B), EXPREFS],
     'min_by': [arrays_of([{'a': 1}, {'a': 2}, {'a': 3}, {'a': 1, 'b': 0}, {'a': 'x'}, {'a': 'é'}, {'b': 1}, 'ab'], B) if A >= 3 else arrays_of([{'a': 1}, {'a': 2}, {'a': 3}, {'a': 1, 'b': 0}, {'a': 'x'}, {'b': 1}], B), EXPREFS],
     'sort_by': [arrays_of([{'a': 1}, {'a': 2}, {'a': 1, 'b': 0}, {'a': 1.0, 'b': 1}, {'a': 'x'}, {'a': 'é'}, {'b': 1}, 2, 'ab', {'a': 0.30000000000000004}, {'a': 0.3}], B) if A >= 3 else arrays_of([{'a': 1}, {'a': 2}, {'a': 1, 'b': 0}, {'a': 'x'}, {'a': 0.30000000000000004}, {'a': 0.3}], B), EXPREFS],
     'merge': [OBJS, OBJS, OBJS[:4]], 'not_null': [ANY[:10], [None, 1, 'a', []], [None, 2]],
     'reverse': [STRS + arrays_of([1, 'a', None, [1]], A)],
     'sort': [arrays_of([1, 2, 1.0, -1.5, 10], B) + arrays_of(['a', 'b', 'é', 'ab', 'B'], B) + arrays_of([0.30000000000000004, 0.3, 1], B)],
     'to_array': [ANY[:10]], 'to_number': [NUMS + NUMSTR + [None, True, [], {}, [1]]], 'to_string': [[None, True, False, 1, -1, 1.5, 'a', 'é"', [], [1, 'a', None], {}, {'b': 1, 'a': [True]}]],
     'type': [ANY],
    }
