"""C01 — search conforms to the specification on the core forms (engine M).
(a) concrete expressions (catalogue + the compliance suite's expressions) parsed by the real parser MIR, evaluated by the real
    interpret MIR on a lazily initialised symbolic document, compared on every path with the reference evaluator;
(b) lazily initialised symbolic ASTs (harness/c01_ast.py) x symbolic documents."""
import z3, json, collections, time, os
from mirsym.core import *
from mirsym import models as MM, sym as SY
from vf import explore as XP, par, build
from vf.explore import Summary
from .common import *
from . import evalref as ER

PROG = None; SEED = 0

def walk_ast(prog, node, fn):
    node = MM.deref_all(node)
    if isinstance(node, Agg) and node.kind == 'enum' and node.ty == 'Ast':
        fn(node)
        for c in node.fields: walk_ast(prog, c.v, fn)
    elif isinstance(node, VecV):
        for c in node.items: walk_ast(prog, c.v, fn)
    elif isinstance(node, Agg) and node.ty == 'KeyValuePair':
        for c in node.fields: walk_ast(prog, c.v, fn)

def literal_atoms(v, strs, nums, keys):
    v = MM.deref_all(v)
    if not isinstance(v, Agg) or v.ty != 'Variable': return
    if v.variant == 'String': strs.add(v.fields[0].v.concrete())
    elif v.variant == 'Number':
        n = v.fields[0].v; c = MM.cval(n.val)
        if c is not None: nums.append(c)
    elif v.variant == 'Array':
        for c in v.fields[0].v.items: literal_atoms(c.v, strs, nums, keys)
    elif v.variant == 'Object':
        for k in v.fields[0].v.d: keys.append(k); literal_atoms(v.fields[0].v.d[k].v, strs, nums, keys)

def spec_for(prog, ast, depth, A):
    names, strs, nums, kinds, lkeys = [], set(), [], set(), []
    def fn(n):
        kinds.add(n.variant)
        if n.variant == 'Field':
            nm = ast_field(prog, n, 'name').concrete()
            if nm not in names: names.append(nm)
        if n.variant == 'Literal': literal_atoms(ast_field(prog, n, 'value'), strs, nums, lkeys)
    walk_ast(prog, ast, fn)
    for k in lkeys:
        if k not in names: names.append(k)
    keys = tuple(names[:3]) or ('a',)
    if len(keys) < 2: keys = keys + (('b',) if 'b' not in keys else ('zz',))
    ss = ['', 'a'] + [x for x in sorted(strs) if x not in ('', 'a')][:2]
    ns = list(SY.DEFAULT_NUMS) + [x for x in nums if x not in SY.DEFAULT_NUMS][:2]
    return SY.DocSpec(depth=depth, A=A, keys=keys, strs=ss, nums=ns), kinds

def job_expr(item):
    """adaptive bounds: if the path count at the requested document depth exceeds the cap (deep equality of two arbitrary
    sub-documents does), the expression is re-run one level shallower; the depth actually decided is recorded."""
    expr, depth, A, deadline, origin, cap = item
    while True:
        S = job_expr_at((expr, depth, A, deadline, origin), cap if depth > 1 else cap * 6)
        if not S.pop('capped', False) or depth <= 1:
            S['outcomes'][f'decided-at-depth-{depth}'] += 1
            return S
        depth -= 1

def _norm_tree(t):
    """reference trees (names prefixed i/q, literals tagged) and canon() trees (ONE, ('const', n)) in one vocabulary"""
    if isinstance(t, tuple):
        if len(t) == 2 and t[0] == 'const': return t[1]
        if t and t[0] == 'Literal': return ('Literal',)
        return tuple(_norm_tree(x) for x in t)
    return 1 if t == 'ONE' else t
def tree_vs_reference(prog, expr, r):
    """the evaluator oracle works on the tree the implementation's parser produced; that tree must be the one the reference pipeline (reference lexer, grammar,
    reference precedence parser) assigns to the text -- otherwise a parser-level rewrite would be invisible here. Returns a description of the difference or None."""
    from . import pubconfirm as PC, parsejob as PJ, c09 as C09
    try: ref = PC.reference_compile(expr, C09.OPEN_EXTS)
    except Exception as e: return None
    if ref[0] == 'ext': return None
    if ref[0] == 'err': return None if r.variant != 'Ok' else f'the reference pipeline rejects the text ({ref[2]}), compile accepts it'
    if r.variant != 'Ok': return 'the reference pipeline accepts the text, compile rejects it'
    try: got = _norm_tree(PJ.canon(prog, r.fields[0].v, {}))
    except Unsupported: return None
    want = _norm_tree(PC.strip_prefix_names(ref[1]))
    if got != want: return f'parse tree {str(got)[:200]} is not the reference tree {str(want)[:200]}'
    # literal values (the tree comparison above only compares shapes): by token position
    import json as _json
    lits = {}
    def walk(v):
        v = MM.deref_all(v)
        if isinstance(v, Agg):
            if v.ty == 'Ast' and v.variant == 'Literal':
                try: lits[PJ.ast_field(prog, v, 'offset').concrete()] = _json.dumps(PC.var_to_tagged(PJ.ast_field(prog, v, 'value')), sort_keys=True)
                except Exception: lits[None] = '?'
                return
            if v.ty in ('Ast', 'KeyValuePair'):
                for c in v.fields: walk(c.v)
        elif isinstance(v, VecV):
            for c in v.items: walk(c.v)
    try: walk(r.fields[0].v)
    except Unsupported: return None
    wl = {p_: _json.dumps(PC.var_to_tagged(pl), sort_keys=True) for p_, k_, pl in ref[2] if k_ == 'Literal'}
    if None in lits or any(not isinstance(p_, int) for p_ in wl): return None
    if lits != wl: return f'literal values {lits} are not the reference values {wl}'
    return None
def job_expr_at(item, cap):
    expr, depth, A, deadline, origin = item
    prog = PROG; eng = Engine(prog); eng.deadline = deadline; S = Summary(); XP.init_decls(prog)
    ex0 = PathExec(eng, [])
    try:
        r = XP.parse_expr(ex0, expr)
    except Unsupported as u:
        S.inconclusive(f'parse {expr!r}: ' + XP.short_unsupported(str(u))); return S
    except Panic as p:
        S.cand('parse-panic', f'compile panics: {p}', {'expr': expr}, {'op': 'compile', 'expr': expr}, expected='no panic'); return S
    ref = tree_vs_reference(prog, expr, r)
    if ref is not None:
        S.cand('parse-tree-differs', ref, {'expr': expr, 'origin': origin}, {'op': 'compile', 'expr': expr}, expected='the tree of the reference parser'); S['outcomes']['parse-differs'] += 1
    if r.variant != 'Ok':
        S['outcomes']['not-compiled'] += 1; return S
    ast = r.fields[0].v
    spec, kinds = spec_for(prog, ast, depth, A)
    if kinds & {'Function', 'Expref'}:
        S['outcomes']['skipped-noncore'] += 1; return S
    rtc = XP.mk_runtime(ex0); oracle = ER.Oracle(prog)
    def body(ex):
        doc = SY.sym_variable(ex, spec); ex.doc = doc; data = SY.rc(doc)
        got = XP.interpret(ex, ast, data, expr, rtc)
        ex.got = got
        try:
            want = oracle.eval(ex, ast, data)
        except ER.SpecError as e:
            ex.want = ('err', str(e))
            if got.variant == 'Err' and XP.reason_kind(got.fields[0].v) == str(e): return None
            return f'spec says error {e}, implementation returns a value'
        ex.want = ('ok', want)
        if got.variant == 'Err': return f'implementation fails with {XP.reason_kind(got.fields[0].v)}; spec assigns a value'
        return ER.same(ex, got.fields[0].v, want)
    def model_doc(ex, extra=()):
        acc = []; SY.lazy_null_constraints(ex.doc, acc)
        sat, m = SY.check_pinned(eng, ex.pc, acc, list(extra))
        if not sat: return None, None
        return SY.tagged(ex, ex.doc, m), m
    def on_path(ex, r):
        S['paths'] += 1; S['outcomes'][r[0]] += 1
        if r[0] == 'abort': return
        if r[0] == 'unsupported': S.inconclusive(f'{expr!r}: ' + XP.short_unsupported(r[1])); return
        if r[0] == 'panic':
            d, _ = model_doc(ex)
            if d is not None or True: S.cand('search-panic', f'search panics: {r[1]}', {'expr': expr, 'doc': d}, {'op': 'search', 'expr': expr, 'doc': d}, expected='no panic')
            return
        diff = r[1]
        if diff is not None:
            d, m = model_doc(ex)
            if m is None: return
            exp = ('err', ex.want[1]) if ex.want[0] == 'err' else ('ok', SY.tagged(ex, ex.want[1], m))
            S.cand('spec-mismatch', f'{diff}', {'expr': expr, 'doc': d, 'origin': origin}, {'op': 'search', 'expr': expr, 'doc': d}, expected=exp)
            return
        S['vacuity']['some path agrees'] = True
        if (S['paths'] + SEED) % 9 == 0:
            d, m = model_doc(ex)
            if m is None: return
            a = XP.worker_native().request({'op': 'search', 'expr': expr, 'doc': d})
            got = ex.got
            if got.variant == 'Err': ok_ = a.get('kind') == 'err' and a.get('reason_kind') == XP.reason_kind(got.fields[0].v)
            else: ok_ = a.get('kind') == 'ok' and a.get('value') == SY.tagged(ex, got.fields[0].v, m)
            if ok_: S['replayed'] += 1
            else: S['mismatches'].append({'expr': expr, 'doc': d, 'engine': 'err' if got.variant == 'Err' else SY.tagged(ex, got.fields[0].v, m), 'native': a})
            S.sample({'expr': expr, 'doc': d, 'result': a.get('value', a.get('reason_kind'))}, cap=2)
    n, rest = eng.explore(body, on_path, max_paths=cap)
    if rest:
        if n >= cap and not (eng.deadline and time.time() > eng.deadline):
            if depth > 1:
                S2 = Summary(); S2['capped'] = True; S2['cands'] = S['cands']; S2['outcomes']['paths-discarded-by-cap'] = n
                S2['queries'] = eng.queries; S2['solver_s'] = eng.qtime
                return S2
            S.inconclusive(f'{expr!r}: more than {cap} paths even at depth 1; {len(rest)} prefixes unexplored')
        else: S.inconclusive(f'{expr!r}: deadline hit, {len(rest)} prefixes unexplored')
    S.absorb_engine(eng); S['outcomes']['expressions'] += 1
    return S

# ------------------------------------------------------------------ (b) symbolic ASTs
def child_slots(kind):
    return {'Not': ['node'], 'ObjectValues': ['node'], 'Flatten': ['node'], 'Subexpr': ['lhs', 'rhs'], 'Or': ['lhs', 'rhs'], 'And': ['lhs', 'rhs'],
            'Projection': ['lhs', 'rhs'], 'Condition': ['predicate', 'then'], 'Comparison': ['lhs', 'rhs']}.get(kind, [])

def job_ast(item):
    top, forced, height, ddepth, deadline, cap = item[:6]; lite = len(item) > 6 and item[6]
    from . import symast as SA
    prog = PROG; eng = Engine(prog); eng.deadline = deadline; S = Summary(); XP.init_decls(prog)
    ex0 = PathExec(eng, []); rtc = XP.mk_runtime(ex0); oracle = ER.Oracle(prog)
    fx = ['Function'] if 'Function' in forced else []
    aspec = SA.AstSpec(prog, height, leaf=SA.LEAF + fx) if not lite else SA.AstSpec(prog, height, fields=('a', 'b'), leaf=['Identity', 'Field', 'Index', 'Literal'] + fx,
                                                              lit_spec=SY.DocSpec(depth=0, A=0, keys=(), strs=('', 'a'), nums=[0, 1]))
    dspec = SY.DocSpec(depth=ddepth, A=2, keys=('a', 'b'), strs=('', 'a'), nums=[0, 1, -1, 1.5])
    def body(ex):
        ast = SA.sym_ast(ex, aspec); ex.ast = ast
        SA.force(ex, ast, top)
        for slot, k in zip(child_slots(top), forced):
            if k is not None: SA.force(ex, ast_field(prog, ast, slot), k)
        doc = SY.sym_variable(ex, dspec); ex.doc = doc; data = SY.rc(doc)
        got = XP.interpret(ex, ast, data, '', rtc); ex.got = got
        try:
            want = oracle.eval(ex, ast, data)
        except ER.SpecError as e:
            ex.want = ('err', str(e))
            if got.variant == 'Err' and XP.reason_kind(got.fields[0].v) == str(e): return None
            return f'spec says error {e}, implementation returns a value'
        ex.want = ('ok', want)
        if got.variant == 'Err': return f'implementation fails with {XP.reason_kind(got.fields[0].v)}; spec assigns a value'
        return ER.same(ex, got.fields[0].v, want)
    def model_of(ex):
        acc = []; SY.lazy_null_constraints(ex.doc, acc); SA.pin_constraints(ex.ast, acc)
        sat, m = SY.check_pinned(eng, ex.pc, acc)
        if not sat: return None, None, None
        return SA.ast_json(ex, prog, ex.ast, m), SY.tagged(ex, ex.doc, m), m
    def on_path(ex, r):
        S['paths'] += 1; S['outcomes'][r[0]] += 1
        if r[0] == 'abort': return
        if r[0] == 'unsupported': S.inconclusive(f'ast {top}{forced}: ' + XP.short_unsupported(r[1])); return
        if r[0] == 'panic':
            aj, d, m = model_of(ex)
            if m is not None: S.cand('search-panic', f'search panics: {r[1]}', {'ast': aj, 'doc': d}, {'op': 'search_ast', 'ast': aj, 'doc': d}, expected='no panic')
            return
        if r[1] is not None:
            aj, d, m = model_of(ex)
            if m is None: return
            exp = ('err', ex.want[1]) if ex.want[0] == 'err' else ('ok', SY.tagged(ex, ex.want[1], m))
            S.cand('spec-mismatch', f'{r[1]}', {'ast': aj, 'doc': d}, {'op': 'search_ast', 'ast': aj, 'doc': d}, expected=exp); return
        S['vacuity'][f'ast {top} agrees'] = True
        if (S['paths'] + SEED) % 11 == 0:
            aj, d, m = model_of(ex)
            if m is None: return
            a = XP.worker_native().request({'op': 'search_ast', 'ast': aj, 'doc': d})
            got = ex.got
            if got.variant == 'Err': ok_ = a.get('kind') == 'err' and a.get('reason_kind') == XP.reason_kind(got.fields[0].v)
            else: ok_ = a.get('kind') == 'ok' and a.get('value') == SY.tagged(ex, got.fields[0].v, m)
            if ok_: S['replayed'] += 1
            else: S['mismatches'].append({'ast': aj, 'doc': d, 'engine': 'err' if got.variant == 'Err' else SY.tagged(ex, got.fields[0].v, m), 'native': a})
            S.sample({'ast': aj, 'doc': d, 'result': a.get('value', a.get('reason_kind'))}, cap=2)
    n, rest = eng.explore(body, on_path, max_paths=cap)
    if rest: S.inconclusive(f'symbolic AST {top}{forced} height {height}: {"deadline" if eng.deadline and time.time() > eng.deadline else "path cap"} hit after {n} paths, {len(rest)} prefixes unexplored')
    S.absorb_engine(eng)
    return S

def task(item):
    return job_ast(item[1:]) if item[0] == 'ast' else job_expr(item[1:])

def confirm(c, nd, nr):
    if c['key'].endswith('parse-tree-differs'):
        from . import pubconfirm as PC, c09 as C09
        return PC.confirm_text(c['witness']['expr'], nd, nr, open_exts=C09.OPEN_EXTS, templates=['{T}'])
    obs = {'dev': nd.request(c['request']), 'release': nr.request(c['request'])}
    if c['key'].endswith('panic'): return any(o.get('kind') in ('panic', 'abort', 'hang') for o in obs.values()), obs
    exp = c['expected']
    def same(o):
        if exp[0] == 'err': return o.get('kind') == 'err' and o.get('reason_kind') == exp[1]
        return o.get('kind') == 'ok' and o.get('value') == exp[1]
    return any(not same(o) for o in obs.values()), obs

# flatten/projection forms whose defects need three levels of arrays (e.g. flattening two levels instead of one)
ALWAYS_DEEP = {'[]', '[][]', '[].a', 'a[]', 'a[][]', '*[]', 'a.*[]', 'a[*][]', 'a[][*]', '[*][*]', 'a[*][*]', 'a[][0]', 'a[0][]', '[a, b][]', 'a[] | [0]', '(a[])[0]'}
def catalogue():
    return [l.strip() for l in open(os.path.join(build.VERIF, 'catalogue', 'core.txt')) if l.strip() and not l.startswith('#')]

def run(run):
    global PROG, SEED
    PROG = run.program(); XP.init_decls(PROG); SEED = run.seed
    run.native('dev')
    XP.run_translator_validation(run, PROG, every=8 if run.tier == 'quick' else 1)
    cat = catalogue()
    comp = sorted({c[3] for c in XP.compliance_cases()})
    dl = run.deadline
    jobs = []
    quick = run.tier == 'quick'; cap = 700 if quick else 25000
    for i, e in enumerate(cat):
        deep = (not quick) or ((i + run.seed) % 6 == 0) or e in ALWAYS_DEEP
        jobs.append((e, 3 if deep else 2, 2, dl, 'catalogue', cap))
    for i, e in enumerate(comp):
        if quick and (i + run.seed) % 3 != 0: continue
        jobs.append((e, 2, 2, dl, 'compliance', cap))
    if not quick:
        jobs += [(e, 2, 3, dl, 'catalogue-A3', cap) for e in cat]
    run.bounds = {'documents': 'lazily initialised symbolic JSON document: depth 2 (every expression) and depth 3 (rotating sixth in quick, all in thorough), arrays <= 2 (thorough: also <= 3 at depth 2), '
                               'object keys = the field names of the expression (<= 3) + one unused key, strings from {"", "a"} + the expression literals, numbers from {0,1,2,-1,1.5} + the expression literals, booleans symbolic',
                  'expressions': f'{len(cat)} catalogue expressions + the distinct expressions of the compliance suite ({len(comp)}; a rotating third in quick) that use only core forms'}
    run.outside = ['documents deeper or wider than the bounds', 'numbers outside the representative set (C10 decides the numeric kernels over all doubles)', 'expressions not in the catalogue/suite (the symbolic-AST harness extends this)']
    run.assumes = ['the reference evaluator (harness/evalref.py) is the specification', 'object member order = ascending key order (BTreeMap model)']
    from . import symast as SA
    jobs = [('expr',) + j for j in jobs]
    if quick:
        ajobs = [('ast', k, (), 1, 2, dl, 10**7, True) for k in SA.COMPOUND if k != 'Comparison'] + [('ast', 'Flatten', (), 1, 3, dl, 10**7, True), ] + [('ast', 'Projection', ('Flatten', c2), 2, 2, dl, 30000, True) for c2 in ['Identity', 'Field', 'Index', 'Literal', 'Subexpr', 'Projection', 'Flatten']]
        ajobs = [('ast', 'Comparison', (c1, c2), 1, 1, dl, 10**7, True) for c1 in ['Identity', 'Field', 'Index', 'Literal'] for c2 in ['Identity', 'Field', 'Index', 'Literal']] + ajobs
    else:
        ajobs = []
        for k in SA.COMPOUND:
            slots = child_slots(k); dd = 1 if k == 'Comparison' else 2
            if not slots: ajobs.append(('ast', k, (), 1, dd, dl, 10**7, False)); continue
            for c1 in SA.LEAF: ajobs.append(('ast', k, (c1,), 1, dd, dl, 10**7, False))
        for k in SA.COMPOUND:                      # height 2, reduced leaf alphabet, sharded by first child kind
            slots = child_slots(k); dd = 1 if k == 'Comparison' else 2
            if not slots: ajobs.append(('ast', k, (), 2, dd, dl, 10**7, True)); continue
            for c1 in ['Identity', 'Field', 'Index', 'Literal'] + SA.COMPOUND: ajobs.append(('ast', k, (c1,), 2, 1 if 'Comparison' in (k, c1) else dd, dl, 10**7, True))
    for k in ('Subexpr', 'Or', 'And', 'Projection', 'Condition'): ajobs += [('ast', k, (None, 'Function'), 1, 2, dl, 10**7, True), ('ast', k, ('Function', None), 1, 2, dl, 10**7, True)]
    ajobs.append(('ast', 'Not', ('Function',), 1, 2, dl, 10**7, True))
    run.bounds['symbolic ASTs'] = ('height 1: every compound node kind over leaf children ' + ('{Identity, Field in {a,b}, Index (any lexer-range i32), Literal (symbolic scalar)}' if quick else
                                   '{Identity, Field in {a,b,absent}, Index (any lexer-range i32), Literal (symbolic depth-1 value), Slice (symbolic start/stop/step)}; height 2 over the reduced leaf alphabet, sharded by top kind x first child kind')
                                   + '; each binary form and `!` also with a call of the total built-in type() as an operand; documents depth 2, arrays <= 2, keys {a,b} (depth 1 where a Comparison node is involved: deep equality is decided by C10)')
    run_jobs(run, ajobs + jobs, task, 'mirsym: symbolic ASTs and concrete expressions x symbolic documents vs reference evaluator')
    run.confirm_all(confirm)
