"""C06 — built-in functions enforce their signatures (arity, argument types, unknown names) and return their declared type.
The full decision table (function name incl. an unregistered one x argument count 0..declared+2 x type class per position) is one symbolic
exploration per function through the real Function arm of interpret, Runtime::get_function, Signature::validate and evaluate."""
import time, itertools
from mirsym.core import *
from vf import explore as XP, par
from vf.explore import Summary
from .common import *
from . import funcs as F, funcjob as FJ
from .c02 import confirm as confirm_values

PROG = None; SEED = 0

def task(item):
    _, name, lists, dl = item
    return FJ.call_job(PROG, name, lists, dl, seed=SEED, mode='table', label=f'{len(lists)} args')

def confirm(c, nd, nr):
    obs = {'dev': nd.request(c['request']), 'release': nr.request(c['request'])}
    d = obs['dev']
    if c['key'].endswith('panic'): return any(o.get('kind') in ('panic', 'abort', 'hang') for o in obs.values()), obs
    if c['key'] == 'c06:accepts-ill-typed-call': return d.get('kind') == 'ok', obs
    if c['key'] == 'c06:wrong-error-class': return d.get('kind') != 'err' or d.get('reason_kind') not in F.ARITY[c['expected']], obs
    if c['key'] == 'c06:rejects-well-typed-call': return d.get('kind') == 'err' and d.get('reason_kind') in ('too-many-arguments', 'not-enough-arguments', 'invalid-type', 'unknown-function'), obs
    if c['key'] == 'c06:result-type':
        from vf.native import untag
        return d.get('kind') == 'ok' and F.jtype(untag(d['value'])) not in c['expected'], obs
    return confirm_values(c, nd, nr)

def run(run):
    global PROG, SEED
    PROG = run.program(); XP.init_decls(PROG); SEED = run.seed
    run.native('dev')
    XP.run_translator_validation(run, PROG, every=8 if run.tier == 'quick' else 1)
    quick = run.tier == 'quick'; dl = run.deadline
    ANY = FJ.ANY if quick else FJ.ANY + [[[1]], {'a': [1]}, 1.5, '', False]
    jobs = []
    for name in F.NAMES + ['nosuch']:
        declared = len(F.SIG[name][0]) if name in F.SIG else 1
        for n in range(0, declared + 3):
            lists = [ANY] * n
            if n >= 3 and quick: lists = [ANY] * 2 + [ANY[:4] + [ANY[9]]] * (n - 2) if (name in ('merge', 'not_null')) else [ANY[:3]] * n      # beyond the declared arity only the count matters (variadics keep type variety)
            elif n >= 3: lists = [ANY] * 3 + [ANY[:4] + [ANY[9]]] * (n - 3) if (name in ('merge', 'not_null', 'sort_by', 'max_by', 'min_by', 'map', 'join', 'contains', 'starts_with', 'ends_with')) else [ANY[:6]] * n
            if n == 0: lists = []
            jobs.append(('sig', name, lists, dl))
    # expression->number|string: the keys an expression reference yields must be uniformly numbers or uniformly strings (first key fixes the type)
    KEYED = [[{'a': 1}, {'a': 'x'}], [{'a': 'x'}, {'a': 1}], [{'a': 1}, {'a': 2}, {'a': 'x'}], [{'a': 'x'}, {'a': 'y'}, {'a': 2}], [{'a': 1}, {'a': None}], [{'a': None}, {'a': 1}], [{'a': True}], [{'a': [1]}, {'a': [2]}], [{'a': 1}, {'a': 2}], [{'a': 'x'}, {'a': 'y'}]]
    for name in ('max_by', 'min_by', 'sort_by'):
        jobs.append(('sig', name, [KEYED, [('expref', '&a'), ('expref', '&b'), ('expref', '&to_number(a)')]], dl))
    run.bounds = {'decision table': f'27 names (26 built-ins + 1 unregistered) x argument counts 0..declared+2 x every combination of {len(ANY)} type representatives per position '
                                    '(null, boolean, number, string, empty array, array of numbers, array of strings, mixed array, empty object, object, expression reference'
                                    + ('' if quick else ', nested array, object holding an array, fraction, empty string, false') + '); for counts beyond the declared arity of non-variadic functions 3 representatives per position'}
    run.bounds['expression result types'] = 'max_by / min_by / sort_by over 10 arrays whose keys are uniformly numbers, uniformly strings, mixed at the second or third element, null, boolean or arrays'
    run.outside = ['values inside the same type class other than the representatives (C02 varies the values)']
    run.assumes = ['`any` accepts every value including expression references (as the reference implementation and the compliance suite do); by-functions may raise invalid-type for expression results that are not uniformly number/string']
    run_jobs(run, jobs, task, 'mirsym: call decision table vs the signature table of the function specification')
    run.cands = [c for c in run.cands if c['key'].startswith(('c06:', 'c05:')) or c['key'].endswith(('-fails', '-missing-error', '-wrong-error'))]
    run.confirm_all(confirm)
