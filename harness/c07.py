"""C07 — slices and indexes (engine M; the Kani kernels are in harness/kani_c07 via vf.kani)."""
import z3, json, collections, time
from mirsym.core import *
from mirsym import models as MM, sym as SY
from vf import explore as XP, par, kani as K
from vf.explore import Summary
from .common import *

PROG = None
SEED = 0
LEXMAX = (1 << 31) - 1

# ------------------------------------------------------------------ python slice rule as a z3 predicate
def slice_bounds(L, start, stop, step):
    """Python's slice.indices(L) as 64-bit z3 terms: (a, b, st, neg)"""
    st = sx(step); Lb = z3.BitVecVal(L, 64); neg = st < 0
    def adj(x, dflt_pos, dflt_neg):
        if x is None: return z3.If(neg, z3.BitVecVal(dflt_neg, 64), z3.BitVecVal(dflt_pos, 64))
        x = sx(x); x1 = x + Lb
        return z3.If(x < 0, z3.If(x1 < 0, z3.If(neg, z3.BitVecVal(-1, 64), z3.BitVecVal(0, 64)), x1),
                     z3.If(x >= Lb, z3.If(neg, Lb - 1, Lb), x))
    return adj(start, 0, L - 1), adj(stop, L, -1), st, neg
def positions_ok(bounds, positions):
    a, b, st, neg = bounds
    k = len(positions)
    if k == 0: return z3.If(neg, a <= b, a >= b)
    cs = [a + i * st == p for i, p in enumerate(positions)]
    last = a + (k - 1) * st; nxt = a + k * st
    cs.append(z3.If(neg, z3.And(last > b, nxt <= b), z3.And(last < b, nxt >= b)))
    return z3.And(*cs)
def slice_correct(L, start, stop, step, positions):
    """start/stop: None or 32-bit bv ; step: 32-bit bv (!= 0). positions: concrete list. Returns z3 Bool: positions is exactly
    Python's list(range(L))[start:stop:step]. 64-bit arithmetic: no wrap-around possible for |values| < 2^31 and L <= 64."""
    return positions_ok(slice_bounds(L, start, stop, step), positions)

# ------------------------------------------------------------------ job A: variable::slice on arrays of length L
def job_slice(item):
    L, has_start, has_stop, full_range, deadline = item
    eng = Engine(PROG); eng.deadline = deadline; S = Summary()
    def body(ex):
        items = [Cell(num_var(i)) for i in range(L)]
        ex.items = items
        def opt_i32(present, name):
            if not present: return None
            v = ex.fresh(name, 32)
            if not full_range: ex.assume(z3.And(v >= -LEXMAX, v <= LEXMAX))
            return v
        ex.u_start = opt_i32(has_start, 'start'); ex.u_stop = opt_i32(has_stop, 'stop'); ex.u_step = ex.fresh('step', 32)
        ex.assume(ex.u_step != 0)
        if not full_range: ex.assume(z3.And(ex.u_step >= -LEXMAX, ex.u_step <= LEXMAX))
        o = lambda v: some(Int(v, 'i32')) if v is not None else none()
        r = ex.call('slice', [Ptr(Cell(SliceRef(items))), o(ex.u_start), o(ex.u_stop), Int(ex.u_step, 'i32')])
        ids = {id(c.v.cell): i for i, c in enumerate(items)}
        return [ids.get(id(c.v.cell), -1) for c in r.items]
    def witness(ex, extra):
        sat, m = eng.check(ex.pc + extra)
        if not sat: return None
        g = lambda v: None if v is None else mval(m, v)
        return {'len': L, 'start': g(ex.u_start), 'stop': g(ex.u_stop), 'step': g(ex.u_step)}
    def on_path(ex, r):
        S['paths'] += 1; S['outcomes'][r[0]] += 1
        if r[0] == 'abort': return
        if r[0] == 'unsupported': S.inconclusive('slice: ' + XP.short_unsupported(r[1])); return
        if r[0] == 'panic':
            w = witness(ex, [])
            if w: S.cand('slice-panic', f'Variable::slice panics: {r[1]}', w, dict(op='slice', **w), expected={'positions': py_slice_positions(L, w['start'], w['stop'], w['step'])})
            return
        pos = r[1]
        S['vacuity'][f'slice L={L} nonempty-result'] = S['vacuity'].get(f'slice L={L} nonempty-result', False) or len(pos) > 0 or L == 0
        okc = slice_correct(L, ex.u_start, ex.u_stop, ex.u_step, pos) if -1 not in pos else z3.BoolVal(False)
        w = witness(ex, [z3.Not(okc)])
        if w is not None:
            S.cand('slice-wrong-elements', 'slice selects other elements than Python list[start:stop:step]', dict(w, impl=pos), dict(op='slice', **w),
                   expected={'positions': py_slice_positions(L, w['start'], w['stop'], w['step'])})
        elif (S['paths'] + SEED) % 7 == 0:
            w2 = witness(ex, [])
            if w2:
                S.sample({'harness': 'slice', **w2, 'positions': pos}, cap=3)
                a = XP.worker_native().request(dict(op='slice', **w2))
                if a.get('kind') == 'ok' and a.get('value') == pos: S['replayed'] += 1
                else: S['mismatches'].append({'harness': 'slice', 'input': w2, 'engine': pos, 'native': a})
    n, rest = eng.explore(body, on_path)
    if rest: S.inconclusive(f'slice L={L}: deadline hit, {len(rest)} prefixes unexplored')
    S.absorb_engine(eng)
    return S

# ------------------------------------------------------------------ job B: interpret arms Slice / Index on symbolic data
def job_interp(item):
    kind, A, deadline = item
    prog = PROG; eng = Engine(prog); eng.deadline = deadline; S = Summary(); XP.init_decls(prog)
    ex0 = PathExec(eng, []); rtc = XP.mk_runtime(ex0)
    spec = SY.DocSpec(depth=1, A=A, keys=('a',), strs=('', 'a'), nums=[0, 1])
    def body(ex):
        doc = SY.sym_variable(ex, spec); ex.doc = doc; data = SY.rc(doc)
        if kind == 'index':
            ex.u_idx = ex.fresh('idx', 32); ex.assume(z3.And(ex.u_idx >= -LEXMAX, ex.u_idx <= LEXMAX))
            ast = mk_ast(prog, 'Index', offset=Int(0, 'usize'), idx=Int(ex.u_idx, 'i32'))
        else:
            hs, ht = kind[1], kind[2]
            def opt(p, nm):
                if not p: return None
                v = ex.fresh(nm, 32); ex.assume(z3.And(v >= -LEXMAX, v <= LEXMAX)); return v
            ex.u_start, ex.u_stop = opt(hs, 'start'), opt(ht, 'stop'); ex.u_step = ex.fresh('step', 32)
            ex.assume(z3.And(ex.u_step >= -LEXMAX, ex.u_step <= LEXMAX))
            o = lambda v: some(Int(v, 'i32')) if v is not None else none()
            ast = mk_ast(prog, 'Slice', offset=Int(1, 'usize'), start=o(ex.u_start), stop=o(ex.u_stop), step=Int(ex.u_step, 'i32'))
        out = XP.interpret(ex, ast, data, '[x]', rtc)
        return out
    def wit(ex, extra):
        acc = []; SY.lazy_null_constraints(ex.doc, acc, 'Bool')
        sat, m = SY.check_pinned(eng, ex.pc, acc, extra)
        if not sat: return None, None
        doc = SY.tagged(ex, ex.doc, m, 'Bool')
        if kind == 'index': e = f'[{mval(m, ex.u_idx)}]'
        else:
            g = lambda v: '' if v is None else str(mval(m, v))
            e = f'[{g(ex.u_start)}:{g(ex.u_stop)}:{mval(m, ex.u_step)}]'
        return {'expr': e, 'doc': doc}, m
    def is_array(ex, v):
        v = MM.deref_all(v)
        if v.lazy is not None: return None
        return v.variant == 'Array'
    def on_path(ex, r):
        S['paths'] += 1; S['outcomes'][r[0]] += 1
        if r[0] == 'abort': return
        if r[0] == 'unsupported': S.inconclusive('interp: ' + XP.short_unsupported(r[1])); return
        if r[0] == 'panic':
            w, _ = wit(ex, [])
            if w: S.cand('interp-panic', f'search panics: {r[1]}', w, dict(op='search', **w), expected='no panic')
            return
        out = r[1]; docv = MM.deref_all(ex.doc)
        arr = docv.lazy is None and docv.variant == 'Array'
        items = docv.fields[0].v.items if arr else []
        L = len(items)
        bad = None
        if kind == 'index':
            if out.variant == 'Err': bad = z3.BoolVal(True); why = 'index expression fails'
            else:
                res = MM.deref_all(out.fields[0].v)
                i64 = sx(ex.u_idx); eff = z3.If(i64 < 0, i64 + L, i64)
                inr = z3.And(eff >= 0, eff < L) if arr else z3.BoolVal(False)
                # which element was returned?
                hit = [k for k, c in enumerate(items) if MM.deref_all(c.v) is res]
                if hit: bad = z3.Not(z3.And(inr, eff == hit[0])); why = f'index returned element {hit[0]}'
                else:
                    isnull = res.lazy is None and res.variant == 'Null'
                    bad = inr if isnull else z3.BoolVal(True); why = 'index returned null for an in-range index' if isnull else 'index returned a foreign value'
                    if isnull: S['vacuity']['index null'] = True
                if hit: S['vacuity']['index hit'] = True
        else:
            if out.variant == 'Err':
                kindk = XP.reason_kind(out.fields[0].v)
                bad = z3.Not(ex.u_step == 0) if kindk == 'invalid-slice' else z3.BoolVal(True); why = f'slice error {kindk} although step != 0'
                S['vacuity']['slice step0 error'] = True
            else:
                res = MM.deref_all(out.fields[0].v)
                if not arr:
                    isnull = res.lazy is None and res.variant == 'Null'
                    bad = z3.Or(ex.u_step == 0, z3.BoolVal(not isnull)); why = 'slice of a non-array is not null'
                    S['vacuity']['slice non-array null'] = True
                elif res.lazy is not None or res.variant != 'Array':
                    bad = z3.BoolVal(True); why = 'slice of an array is not an array'
                else:
                    ids = {id(c.v.cell): i for i, c in enumerate(items)}
                    pos = [ids.get(id(c.v.cell), -1) for c in res.fields[0].v.items]
                    okc = z3.And(ex.u_step != 0, slice_correct(L, ex.u_start, ex.u_stop, ex.u_step, pos)) if -1 not in pos else z3.BoolVal(False)
                    bad = z3.Not(okc); why = f'slice selected positions {pos}'
                    if pos: S['vacuity']['slice array nonempty'] = True
        w, m = wit(ex, [bad])
        if w is not None:
            S.cand(f'interp-{kind if isinstance(kind, str) else "slice"}-wrong', why, w, dict(op='search', **w), expected='per slice/index rule')
        elif (S['paths'] + SEED) % 5 == 0:
            w2, m2 = wit(ex, [])
            if w2:
                S.sample({'harness': 'interpret-' + str(kind), **w2}, cap=3)
                a = XP.worker_native().request(dict(op='search', **w2))
                if out.variant == 'Err': same = a.get('kind') == 'err' and a.get('reason_kind') == XP.reason_kind(out.fields[0].v)
                else: same = a.get('kind') == 'ok' and a.get('value') == SY.tagged(ex, out.fields[0].v, m2, 'Bool')
                if same: S['replayed'] += 1
                else: S['mismatches'].append({'harness': 'interpret', 'input': w2, 'engine': 'err' if out.variant == 'Err' else SY.tagged(ex, out.fields[0].v, m2, 'Bool'), 'native': a})
    n, rest = eng.explore(body, on_path)
    if rest: S.inconclusive(f'interpret {kind}: deadline hit, {len(rest)} prefixes unexplored')
    S.absorb_engine(eng)
    return S

# ------------------------------------------------------------------ job C: parse_index on symbolic tokens  [ t1 .. tn Eof
class TokLazy:
    def __init__(s, ex, kinds, decls):
        s.kinds, s.decls = kinds, decls; s.tagvar = ex.fresh('tok', 64); s.num = None
        ex.assume(z3.Or(*[s.tagvar == decls.variant_index('Token', k) for k in kinds]))
    def __call__(s, ex, me, want=None):
        if want is None: lab = ex.choose([(k, s.tagvar == s.decls.variant_index('Token', k)) for k in s.kinds])
        else:
            if want not in s.kinds: raise PathAbort('infeasible token downcast')
            lab = want; ex.assume(s.tagvar == s.decls.variant_index('Token', want))
        me.lazy = None; me.variant = lab
        if lab == 'Number':
            s.num = ex.fresh('num', 32); ex.assume(z3.And(s.num >= -LEXMAX, s.num <= LEXMAX)); me.fields = [Cell(Int(s.num, 'i32'))]
        else: me.fields = []

def job_parse_index(item):
    N, deadline = item
    prog = PROG; eng = Engine(prog); eng.deadline = deadline; S = Summary(); XP.init_decls(prog)
    kinds = ['Number', 'Colon', 'Rbracket']
    names = [v for v, _ in prog.decls.enums['Token']]
    def body(ex):
        q = VecV(); ex.toks = []
        q.items.append(Cell(Agg('tuple', None, None, [Cell(Int(0, 'usize')), Cell(mk_enum('Token', 'Lbracket', []))])))
        for i in range(N):
            tok = Agg('enum', 'Token', None, [], lazy=TokLazy(ex, kinds if i else ['Number', 'Colon'], prog.decls)); ex.toks.append(tok)
            q.items.append(Cell(Agg('tuple', None, None, [Cell(Int(i + 1, 'usize')), Cell(tok)])))
        q.items.append(Cell(Agg('tuple', None, None, [Cell(Int(N + 1, 'usize')), Cell(mk_enum('Token', 'Eof', []))])))
        ex.lz = [t.lazy for t in ex.toks]
        p = ex.call('Parser::new', [q, Ptr(Cell(rstr('[' + 'x' * N)))])
        return ex.call('Parser::parse', [Ptr(Cell(p))])
    def on_path(ex, r):
        S['paths'] += 1; S['outcomes'][r[0]] += 1
        if r[0] == 'abort': return
        if r[0] == 'unsupported': S.inconclusive('parse_index: ' + XP.short_unsupported(r[1])); return
        # enumerate the (finitely many) kind sequences consistent with this path: every token is materialised or unconstrained
        tv = [lz.tagvar for lz in ex.lz]
        pc = list(ex.pc); seen = 0
        while seen < 30:
            sat, m = eng.check(pc)
            if not sat: break
            seen += 1
            ks = [names[m.eval(t, model_completion=True).as_long()] for t in tv]
            pc.append(z3.Or(*[t != m.eval(t, model_completion=True) for t in tv]))
            # reference: the slice/index grammar
            want = None
            if 'Rbracket' in ks and ks.index('Rbracket') == N - 1:
                inner = ks[:-1]; parts = [[]]
                for j, k in enumerate(inner):
                    if k == 'Colon': parts.append([])
                    else: parts[-1].append(j)
                if all(len(p) <= 1 for p in parts) and len(parts) <= 3:
                    if len(parts) == 1:
                        if len(parts[0]) == 1: want = ('index', parts[0][0])
                    else: want = ('slice', [p[0] if p else None for p in parts] + [None] * (3 - len(parts)))
            text = '[' + ' '.join({'Number': '1', 'Colon': ':', 'Rbracket': ']'}[k] for k in ks)
            if r[0] == 'panic':
                S.cand('parse-index-panic', f'parser panics: {r[1]}', {'expr': text}, {'op': 'compile', 'expr': text}, expected='no panic'); continue
            res = r[1]; acc = res.variant == 'Ok'
            if acc != (want is not None):
                S.cand('parse-index-accepts-nonsentence' if acc else 'parse-index-rejects-sentence', f'bracket form {ks}: accepted={acc}', {'expr': text}, {'op': 'compile', 'expr': text},
                       expected='ok' if want else 'compile-err'); continue
            if not acc: S['vacuity']['parse_index rejects'] = True; continue
            ast = MM.deref_all(res.fields[0].v)
            same = pc[:-1] + [t == m.eval(t, model_completion=True) for t in tv]
            def numof(j): return ex.lz[j].num
            if want[0] == 'index':
                okc = z3.BoolVal(False)
                if ast.variant == 'Index': okc = ast_field(prog, ast, 'idx').bv == numof(want[1])
                S['vacuity']['parse_index index'] = True
            else:
                okc = z3.BoolVal(False)
                if ast.variant == 'Projection':
                    lhs = MM.deref_all(ast_field(prog, ast, 'lhs')); rhs = MM.deref_all(ast_field(prog, ast, 'rhs'))
                    if lhs.variant == 'Slice' and rhs.variant == 'Identity':
                        cs = []
                        for nm, j in zip(('start', 'stop'), want[1][:2]):
                            o = MM.deref_all(ast_field(prog, lhs, nm))
                            if j is None: cs.append(z3.BoolVal(o.variant == 'None'))
                            else: cs.append(o.fields[0].v.bv == numof(j) if o.variant == 'Some' else z3.BoolVal(False))
                        stp = ast_field(prog, lhs, 'step'); j = want[1][2]
                        cs.append(stp.bv == (numof(j) if j is not None else z3.BitVecVal(1, 32)))
                        okc = z3.And(*cs)
                S['vacuity']['parse_index slice'] = True
            sat2, m2 = eng.check(same + [z3.Not(okc)])
            if sat2:
                vals = [str(mval(m2, ex.lz[j].num)) if ks[j] == 'Number' and ex.lz[j].num is not None else {'Colon': ':', 'Rbracket': ']', 'Number': '1'}[ks[j]] for j in range(N)]
                t2 = '[' + ''.join(vals)
                S.cand('parse-index-wrong-ast', f'bracket form {t2} builds the wrong node', {'expr': t2}, {'op': 'compile', 'expr': t2}, expected=str(want))
            elif S['paths'] % 5 == 0: S.sample({'harness': 'parse_index', 'tokens': ks, 'accepted': acc}, cap=3)
    n, rest = eng.explore(body, on_path)
    if rest: S.inconclusive(f'parse_index N={N}: deadline hit, {len(rest)} prefixes unexplored')
    S.absorb_engine(eng)
    return S

def task(item):
    return {'slice': job_slice, 'interp': job_interp, 'pidx': job_parse_index}[item[0]](item[1:])

def confirm(c, nd, nr):
    req = c['request']; obs = {}
    for prof, n in (('dev', nd), ('release', nr)):
        a = n.request(req); obs[prof] = a
    d = obs['dev']
    if req['op'] == 'slice':
        exp = c['expected']['positions']
        rep = any(o.get('kind') != 'ok' or o.get('value') != exp for o in obs.values())
        return rep, obs
    if req['op'] == 'compile':
        want_ok = c['expected'] not in ('compile-err', 'no panic') or c['expected'] == 'ok'
        if c['key'].endswith('panic'): return any(o.get('kind') in ('panic', 'abort', 'hang') for o in obs.values()), obs
        if c['key'] == 'parse-index-accepts-nonsentence': return d.get('kind') == 'ok', obs
        if c['key'] == 'parse-index-rejects-sentence': return d.get('kind') != 'ok', obs
        return True, obs     # wrong-ast: the engine's claim is about the tree; the observation (AST text) is recorded
    # search: compare with python oracle
    from vf.native import untag
    doc = untag(req['doc']); e = req['expr'][1:-1]
    if c['key'].endswith('panic'): return any(o.get('kind') in ('panic', 'abort', 'hang') for o in obs.values()), obs
    if ':' in e:
        parts = e.split(':'); g = lambda x: int(x) if x else None
        st, sp, step = g(parts[0]), g(parts[1]), int(parts[2])
        if step == 0: exp = ('err', 'invalid-slice')
        elif isinstance(doc, list): exp = ('ok', [x for x in doc[slice(st, sp, step)] if x is not None])
        else: exp = ('ok', None)
    else:
        i = int(e)
        exp = ('ok', doc[i] if isinstance(doc, list) and -len(doc) <= i < len(doc) else None)
    def same(o):
        if exp[0] == 'err': return o.get('kind') == 'err' and o.get('reason_kind') == exp[1]
        return o.get('kind') == 'ok' and XP.json_eq(untag(o['value']), exp[1])
    return any(not same(o) for o in obs.values()), obs

def run(run):
    global PROG, SEED
    PROG = run.program(); XP.init_decls(PROG); SEED = run.seed
    run.native('dev')
    XP.run_translator_validation(run, PROG, every=8 if run.tier == 'quick' else 1)
    A = 5 if run.tier == 'quick' else 12
    run.bounds = {'slice kernel': f'array length 0..{A}; start, stop in Option<i32> over the full i32 range (each present or omitted); step any i32 != 0',
                  'interpret arms': f'document depth 1, arrays 0..{3 if run.tier == "quick" else 5} elements, every JSON type as subject; index / slice parts over the lexer range +-(2^31-1)',
                  'parse_index': f'"[" followed by up to {5 if run.tier == "quick" else 7} tokens from {{Number, Colon, Rbracket}} with symbolic numbers'}
    run.outside = [f'arrays longer than {A} at the slice kernel (the Kani kernel harness covers adjust_slice_endpoint for every len)', 'Ast values not produced by the parser (idx = i32::MIN)']
    run.assumes = ['index/slice numbers produced by the lexer lie in [-(2^31-1), 2^31-1] (interpret-level harness); Variable::slice is checked on the full i32 range',
                   'array elements are distinguishable by identity (Rc cells), so "which element" is decided exactly']
    dl = run.deadline
    jobs = [('slice', L, hs, ht, True, dl) for L in range(A + 1) for hs in (0, 1) for ht in (0, 1)]
    AI = 3 if run.tier == 'quick' else 5
    jobs += [('interp', 'index', AI, dl)] + [('interp', ('slice', hs, ht), AI, dl) for hs in (0, 1) for ht in (0, 1)]
    jobs += [('pidx', n, dl) for n in range(1, (5 if run.tier == 'quick' else 7) + 1)]
    run_jobs(run, jobs, task, 'mirsym: slice kernel + interpret Slice/Index arms + parse_index')
    quick = run.tier == 'quick'
    res = K.run_harnesses(run, ['c07_slice_len0', 'c07_slice_len2', 'c07_slice_len3', 'c07_negative_index', 'c07_slice_non_array_is_none'] + ([] if quick else ['c07_slice_len4', 'c07_slice_len6']), timeout=420 if quick else 2400)
    run.bounds['kani'] = 'Variable::slice on arrays of exactly 0, 2, 3' + ('' if quick else ', 4, 6') + ' elements, all Option<i32> start/stop and all i32 steps != 0; get_index / get_negative_index for all usize on 3 elements; slice of non-arrays; real Vec/Rc code'
    from .c05 import kani_slice_request
    for r in res:
        if r['failed']:
            req = kani_slice_request(r['harness'], r.get('values'))
            exp = {'positions': py_slice_positions(req['len'], req['start'], req['stop'], req['step'])} if req.get('step') else {'positions': []}
            run.cands.append({'key': 'slice-wrong-elements' if not any('overflow' in c['desc'] or 'bounds' in c['desc'] for c in r['failed']) else 'slice-panic', 'what': 'Kani: ' + '; '.join(c['desc'] for c in r['failed'][:3]),
                              'witness': req, 'request': req, 'expected': exp})
    run.confirm_all(confirm)
