"""C11 — evaluation is compositional.  Implementation-only oracle: for a compound node K(L, R) with lazily initialised symbolic parts and a
symbolic document, interpret(K(L,R), d) is compared with the property's combination rule applied to interpret(L, .) / interpret(R, .)
evaluated by the real MIR (not by the reference evaluator).  Also the parsed form '(L) | (R)' through the real parser."""
import z3, json, time
from mirsym.core import *
from mirsym import models as MM, sym as SY
from vf import explore as XP, par
from vf.explore import Summary
from .common import *
from . import evalref as ER, symast as SA
from .c01 import child_slots

PROG = None; SEED = 0; FULL = False
class PartError(Exception):
    def __init__(s, kind): s.kind = kind

def job_ast(item):
    top, forced, height, ddepth, deadline, cap = item
    prog = PROG; eng = Engine(prog); eng.deadline = deadline; S = Summary(); XP.init_decls(prog)
    ex0 = PathExec(eng, []); rtc = XP.mk_runtime(ex0)
    aspec = SA.AstSpec(prog, height, fields=('a', 'b'), leaf=['Identity', 'Field', 'Index', 'Literal'] + (['Slice'] if FULL else []) + (['Function'] if 'Function' in forced else []), lit_spec=SY.DocSpec(depth=0, A=0, keys=(), strs=('', 'a'), nums=[0, 1]))
    dspec = SY.DocSpec(depth=ddepth, A=2, keys=('a', 'b'), strs=('', 'a'), nums=[0, 1, -1, 1.5])
    kvf = prog.decls.structs['KeyValuePair']
    def part(ex, node, data):
        node = MM.deref_all(node)          # children are Box<Ast>: evaluate the node itself
        r = XP.interpret(ex, node, data, '', rtc)
        if r.variant == 'Err': raise PartError(XP.reason_kind(r.fields[0].v))
        return r.fields[0].v
    def combine(ex, ast, data):
        f = lambda n: ast_field(prog, ast, n)
        k = ast.variant
        if k == 'Subexpr': return part(ex, f('rhs'), part(ex, f('lhs'), data))
        if k == 'Or':
            l = part(ex, f('lhs'), data); return l if ER.truthy(ex, l) else part(ex, f('rhs'), data)
        if k == 'And':
            l = part(ex, f('lhs'), data); return part(ex, f('rhs'), data) if ER.truthy(ex, l) else l
        if k == 'Not': return ER.mkbool(not ER.truthy(ex, part(ex, f('node'), data)))
        if k == 'Condition': return part(ex, f('then'), data) if ER.truthy(ex, part(ex, f('predicate'), data)) else SY.rc(SY.NULL())
        if k == 'Comparison':
            l = part(ex, f('lhs'), data); r = part(ex, f('rhs'), data)
            c = ex.call('Variable::compare', [Ptr(MM.deref_all(l) and l.cell if isinstance(l, Ptr) else Cell(l)), Ptr(Cell(f('comparator'))), Ptr(r.cell if isinstance(r, Ptr) else Cell(r))])
            return SY.rc(SY.NULL()) if c.variant == 'None' else SY.rc(mk_enum('Variable', 'Bool', [c.fields[0].v]))
        if k == 'ObjectValues':
            o = part(ex, f('node'), data)
            if not ER.tag_is(ex, o, 'Object'): return SY.rc(SY.NULL())
            mp = ER.val(o).fields[0].v
            return ER.mkarr([Cell(mp.d[kk].v) for kk in sorted(mp.d, key=lambda x: [ord(c) for c in x])])
        if k == 'Projection':
            l = part(ex, f('lhs'), data)
            if not ER.tag_is(ex, l, 'Array'): return SY.rc(SY.NULL())
            out = []
            for c in ER.val(l).fields[0].v.items:
                r = part(ex, f('rhs'), c.v)
                if not ER.is_null(ex, r): out.append(Cell(r))
            return ER.mkarr(out)
        if k == 'Flatten':
            l = part(ex, f('node'), data)
            if not ER.tag_is(ex, l, 'Array'): return SY.rc(SY.NULL())
            out = []
            for c in ER.val(l).fields[0].v.items:
                if ER.tag_is(ex, c.v, 'Array'): out.extend(Cell(x.v) for x in ER.val(c.v).fields[0].v.items)
                else: out.append(Cell(c.v))
            return ER.mkarr(out)
        if k == 'MultiList':
            if ER.is_null(ex, data): return SY.rc(SY.NULL())
            return ER.mkarr([Cell(part(ex, e.v, data)) for e in f('elements').items])
        if k == 'MultiHash':
            if ER.is_null(ex, data): return SY.rc(SY.NULL())
            mp = MapV()
            for e in f('elements').items:
                mp.d[e.v.fields[kvf.index('key')].v.concrete()] = Cell(part(ex, e.v.fields[kvf.index('value')].v, data))
            return SY.rc(mk_enum('Variable', 'Object', [mp]))
        raise Unsupported('combine ' + k)
    def body(ex):
        ast = SA.sym_ast(ex, aspec); ex.u_ast = ast
        SA.force(ex, ast, top)
        for slot, k in zip(child_slots(top), forced):
            if k is not None: SA.force(ex, ast_field(prog, ast, slot), k)
        doc = SY.sym_variable(ex, dspec); ex.doc = doc; data = SY.rc(doc)
        got = XP.interpret(ex, ast, data, '', rtc); ex.got = got
        try: want = combine(ex, MM.deref_all(ast), data)
        except PartError as e:
            ex.want = ('err', e.kind)
            if got.variant == 'Err' and XP.reason_kind(got.fields[0].v) == e.kind: return None
            return f'a part fails with {e.kind} but the compound form returns a value'
        ex.want = ('ok', want)
        if got.variant == 'Err': return f'the compound form fails with {XP.reason_kind(got.fields[0].v)} although its parts evaluate'
        return ER.same(ex, got.fields[0].v, want)
    def model_of(ex):
        acc = []; SY.lazy_null_constraints(ex.doc, acc); SA.pin_constraints(ex.u_ast, acc)
        sat, m = SY.check_pinned(eng, ex.pc, acc)
        if not sat: return None, None, None
        return SA.ast_json(ex, prog, ex.u_ast, m), SY.tagged(ex, ex.doc, m), m
    def on_path(ex, r):
        S['paths'] += 1; S['outcomes'][r[0]] += 1
        if r[0] == 'abort': return
        if r[0] == 'unsupported': S.inconclusive(f'c11 {top}: ' + XP.short_unsupported(r[1])); return
        if r[0] == 'panic':
            aj, d, m = model_of(ex)
            if m is not None: S.cand('search-panic', f'search panics: {r[1]}', {'ast': aj, 'doc': d}, {'op': 'search_ast', 'ast': aj, 'doc': d}, expected='no panic')
            return
        if r[1] is not None:
            aj, d, m = model_of(ex)
            if m is None: return
            exp = ('err', ex.want[1]) if ex.want[0] == 'err' else ('ok', SY.tagged(ex, ex.want[1], m))
            S.cand(f'c11:not-compositional-{top}', f'{top}: {r[1]}', {'ast': aj, 'doc': d}, {'op': 'search_ast', 'ast': aj, 'doc': d}, expected=exp); return
        S['vacuity'][f'{top} composes'] = True
        if (S['paths'] + SEED) % 11 == 0:
            aj, d, m = model_of(ex)
            if m is None: return
            a = XP.worker_native().request({'op': 'search_ast', 'ast': aj, 'doc': d})
            got = ex.got
            if got.variant == 'Err': ok_ = a.get('kind') == 'err' and a.get('reason_kind') == XP.reason_kind(got.fields[0].v)
            else: ok_ = a.get('kind') == 'ok' and a.get('value') == SY.tagged(ex, got.fields[0].v, m)
            if ok_: S['replayed'] += 1
            else: S['mismatches'].append({'ast': aj, 'doc': d, 'native': a})
            S.sample({'ast': aj, 'doc': d}, cap=2)
    n, rest = eng.explore(body, on_path, max_paths=cap)
    if rest: S.inconclusive(f'c11 {top}{forced}: {"deadline" if eng.deadline and time.time() > eng.deadline else "path cap"} after {n} paths')
    S.absorb_engine(eng)
    return S

PIPE_L = ['a', 'a.b', 'a[0]', 'a[*]', 'a[*].b', 'a[]', 'a.*', 'a[?b]', 'a[1:]', '[a, b]', '{x: a}', 'a || b', '!a', 'a == b', '`null`', '@', 'missing', 'a[*].b | [0]']
PIPE_R = ['type(@)', 'a.type(@)', 'a', 'b', '[0]', '[*]', '[*].b', '[]', '*', '[?b]', '[?@]', '[::-1]', '[@, a]', '{x: @}', '@ || `1`', '!@', '@ == `null`', '`1`', '@', 'a[0]', 'a | `1`', 'not_null(@, `1`)', 'a.b.type(@)', '[0].type(@)', 'to_array(@)']
def job_pipe(item):
    """search('(L) | (R)', d) == search(R, search(L, d)) with the real parser for the three expressions"""
    ltxt, rtxt, ddepth, deadline = item
    prog = PROG; eng = Engine(prog); eng.deadline = deadline; S = Summary(); XP.init_decls(prog)
    ex0 = PathExec(eng, []); rtc = XP.mk_runtime(ex0)
    whole = f'({ltxt}) | ({rtxt})'
    asts = []
    for t in (whole, ltxt, rtxt):
        r = XP.parse_expr(ex0, t)
        if r.variant != 'Ok': S.inconclusive(f'pipe: {t!r} does not compile'); return S
        asts.append(r.fields[0].v)
    dspec = SY.DocSpec(depth=ddepth, A=2, keys=('a', 'b'), strs=('', 'a'), nums=[0, 1, -1])
    def body(ex):
        doc = SY.sym_variable(ex, dspec); ex.doc = doc; data = SY.rc(doc)
        got = XP.interpret(ex, asts[0], data, whole, rtc)
        l = XP.interpret(ex, asts[1], data, ltxt, rtc)
        if l.variant == 'Err': return None if got.variant == 'Err' else 'left part fails, whole does not'
        r = XP.interpret(ex, asts[2], l.fields[0].v, rtxt, rtc)
        if r.variant == 'Err': return None if got.variant == 'Err' else 'right part fails, whole does not'
        if got.variant == 'Err': return 'whole fails, parts do not'
        ex.u_want = r.fields[0].v
        return ER.same(ex, got.fields[0].v, r.fields[0].v)
    def on_path(ex, r):
        S['paths'] += 1; S['outcomes'][r[0]] += 1
        if r[0] in ('abort',): return
        if r[0] == 'unsupported': S.inconclusive(f'pipe {whole!r}: ' + XP.short_unsupported(r[1])); return
        acc = []; SY.lazy_null_constraints(ex.doc, acc)
        sat, m = SY.check_pinned(eng, ex.pc, acc)
        if not sat: return
        d = SY.tagged(ex, ex.doc, m)
        if r[0] == 'panic': S.cand('search-panic', f'search panics: {r[1]}', {'expr': whole, 'doc': d}, {'op': 'search', 'expr': whole, 'doc': d}, expected='no panic'); return
        if r[1] is not None:
            S.cand('c11:pipe-not-compositional', f'{whole}: {r[1]}', {'expr': whole, 'doc': d, 'L': ltxt, 'R': rtxt}, {'op': 'pipe', 'L': ltxt, 'R': rtxt, 'doc': d}, expected='equal'); return
        S['vacuity']['pipe composes'] = True
        if (S['paths'] + SEED) % 9 == 0:
            a = XP.worker_native().request({'op': 'pipe', 'L': ltxt, 'R': rtxt, 'doc': d})
            if a.get('kind') == 'ok' and a.get('equal'): S['replayed'] += 1
            else: S['mismatches'].append({'pipe': whole, 'doc': d, 'native': a})
            S.sample({'expr': whole, 'doc': d}, cap=1)
    n, rest = eng.explore(body, on_path, max_paths=20000)
    if rest: S.inconclusive(f'pipe {whole!r}: cap/deadline after {n} paths')
    S.absorb_engine(eng)
    return S

BOOL_T = ['a < b', 'a == b', 'a >= b', 'a', 'a != b', 'a > `0`', 'a <= b', 'a.b', '!a', 'a || b', 'a && b', '`null`', 'a[?b]', 'missing', 'type(@)', 'a[0]', 'a < `1` || b']
def job_bool(item):
    """'!(L)', '(L) && (R)', '(L) || (R)' through the real parser == the truth-table combination of search(L, d) and search(R, d)"""
    form, ltxt, rtxt, ddepth, deadline = item
    prog = PROG; eng = Engine(prog); eng.deadline = deadline; S = Summary(); XP.init_decls(prog)
    ex0 = PathExec(eng, []); rtc = XP.mk_runtime(ex0)
    whole = f'!({ltxt})' if form == 'not' else f'({ltxt}) && ({rtxt})' if form == 'and' else f'({ltxt}) || ({rtxt})'
    asts = []
    for t in (whole, ltxt, rtxt):
        r = XP.parse_expr(ex0, t)
        if r.variant != 'Ok': S.inconclusive(f'bool: {t!r} does not compile'); return S
        asts.append(r.fields[0].v)
    dspec = SY.DocSpec(depth=ddepth, A=2, keys=('a', 'b'), strs=('', 'a'), nums=[0, 1, -1])
    def body(ex):
        doc = SY.sym_variable(ex, dspec); ex.doc = doc; data = SY.rc(doc)
        got = XP.interpret(ex, asts[0], data, whole, rtc)
        l = XP.interpret(ex, asts[1], data, ltxt, rtc)
        if l.variant == 'Err': return None if got.variant == 'Err' else 'left part fails, whole does not'
        lv = l.fields[0].v; t = ER.truthy(ex, lv)
        if form == 'not': want = ER.mkbool(not t)
        elif (form == 'and') == bool(t):
            r = XP.interpret(ex, asts[2], data, rtxt, rtc)
            if r.variant == 'Err': return None if got.variant == 'Err' else 'right part fails, whole does not'
            want = r.fields[0].v
        else: want = lv
        if got.variant == 'Err': return 'whole fails, parts do not'
        ex.u_want = want
        return ER.same(ex, got.fields[0].v, want)
    def on_path(ex, r):
        S['paths'] += 1; S['outcomes'][r[0]] += 1
        if r[0] in ('abort',): return
        if r[0] == 'unsupported': S.inconclusive(f'bool {whole!r}: ' + XP.short_unsupported(r[1])); return
        acc = []; SY.lazy_null_constraints(ex.doc, acc)
        sat, m = SY.check_pinned(eng, ex.pc, acc)
        if not sat: return
        d = SY.tagged(ex, ex.doc, m)
        req = {'op': 'boolform', 'form': form, 'L': ltxt, 'R': rtxt, 'doc': d}
        if r[0] == 'panic': S.cand('search-panic', f'search panics: {r[1]}', {'expr': whole, 'doc': d}, {'op': 'search', 'expr': whole, 'doc': d}, expected='no panic'); return
        if r[1] is not None:
            S.cand('c11:bool-not-compositional', f'{whole}: {r[1]}', {'expr': whole, 'doc': d, 'L': ltxt, 'R': rtxt}, req, expected='equal'); return
        S['vacuity'][f'{form} composes'] = True
        if (S['paths'] + SEED) % 9 == 0:
            a = XP.worker_native().request(req)
            if a.get('kind') == 'ok' and a.get('equal'): S['replayed'] += 1
            else: S['mismatches'].append({'bool': whole, 'doc': d, 'native': a})
            S.sample({'expr': whole, 'doc': d}, cap=1)
    n, rest = eng.explore(body, on_path, max_paths=20000)
    if rest: S.inconclusive(f'bool {whole!r}: cap/deadline after {n} paths')
    S.absorb_engine(eng)
    return S

def task(item): return job_pipe(item[1:]) if item[0] == 'pipe' else job_bool(item[1:]) if item[0] == 'bool' else job_ast(item[1:])

def confirm(c, nd, nr):
    obs = {'dev': nd.request(c['request']), 'release': nr.request(c['request'])}
    if c['key'].endswith('panic'): return any(o.get('kind') in ('panic', 'abort', 'hang') for o in obs.values()), obs
    if c['request']['op'] in ('pipe', 'boolform'): return any(o.get('kind') != 'ok' or not o.get('equal') for o in obs.values()), obs
    exp = c['expected']
    def same(o):
        if exp[0] == 'err': return o.get('kind') == 'err' and o.get('reason_kind') == exp[1]
        return o.get('kind') == 'ok' and o.get('value') == exp[1]
    return any(not same(o) for o in obs.values()), obs

def run(run):
    global PROG, SEED, FULL
    PROG = run.program(); XP.init_decls(PROG); SEED = run.seed; FULL = run.tier != 'quick'
    run.native('dev')
    XP.run_translator_validation(run, PROG, every=8 if run.tier == 'quick' else 1)
    quick = run.tier == 'quick'; dl = run.deadline
    jobs = []
    for k in SA.COMPOUND:
        if k == 'Comparison':
            jobs += [('ast', k, (c1, c2), 1, 1, dl, 10**7) for c1 in ['Identity', 'Field', 'Index', 'Literal'] for c2 in ['Identity', 'Field', 'Index', 'Literal']]
        elif quick or not child_slots(k): jobs.append(('ast', k, (), 1, 2, dl, 10**7))
        else: jobs += [('ast', k, (c1,), 1, 2, dl, 10**7) for c1 in SA.LEAF] + [('ast', k, (c1,), 2, 2, dl, 60000) for c1 in ['Identity', 'Field', 'Projection', 'Subexpr', 'Flatten', 'Or', 'MultiList']]
    jobs += [('ast', 'Flatten', (), 1, 3, dl, 10**7), ('ast', 'ObjectValues', (), 1, 3, dl, 10**7)]
    # a part that is a call of the total built-in `type` (its value on null is not null): as either operand of every binary form, under `!`
    for k in ('Subexpr', 'Or', 'And', 'Projection', 'Condition'): jobs += [('ast', k, (None, 'Function'), 1, 2, dl, 10**7), ('ast', k, ('Function', None), 1, 2, dl, 10**7)]
    jobs += [('ast', 'Not', ('Function',), 1, 2, dl, 10**7)]
    nl = 5 if quick else len(PIPE_L)
    ls = [PIPE_L[(i + run.seed) % len(PIPE_L)] for i in range(nl)]; rs = [PIPE_R[(i * 5 + run.seed) % len(PIPE_R)] for i in range(nl)] if quick else PIPE_R
    if quick: ls = list(dict.fromkeys(ls + ['missing'])); rs = list(dict.fromkeys(rs + ['type(@)', 'a.type(@)']))       # a null left side with a right side that is not null on null: always
    jobs += [('pipe', l, r, 2 if ('==' not in l + r) else 1, dl) for l in ls for r in rs]
    dd = lambda *ts: 1 if any(c in t for t in ts for c in '<>=') else 2
    nb = 7 if quick else len(BOOL_T)
    bt = list(dict.fromkeys(['a < b', 'a == b'] + [BOOL_T[(i + run.seed) % len(BOOL_T)] for i in range(nb - 2)])) if quick else BOOL_T
    jobs += [('bool', 'not', t, '@', dd(t), dl) for t in bt]
    bp = [(bt[i], bt[(i * 3 + 1 + run.seed) % len(bt)]) for i in range(len(bt))] if quick else [(l, r) for l in BOOL_T for r in BOOL_T[::2]]
    jobs += [('bool', f, l, r, dd(l, r), dl) for f in ('and', 'or') for l, r in bp]
    nbool = len(bt) + 2 * len(bp)
    run.bounds = {'AST level': 'every compound node kind over lazily initialised parts of height ' + ('1' if quick else '1 (all leaf kinds) and 2 (sharded)') + ' (leaf kinds Identity, Field{a,b}, Index any i32 in the lexer range, Literal scalar' + ('' if quick else ', Slice symbolic') + '); documents depth 2, arrays <= 2',
                  'parsed level': f'(L) | (R) for {len(ls)} x {len(rs)} expression texts through the real parser, documents depth 2',
                  'parsed boolean forms': f"'!(L)' for {len(bt)} texts and '(L) && (R)', '(L) || (R)' for {len(bp)} text pairs each ({nbool} jobs) through the real parser against the truth-table combination of the separately searched parts; documents depth 2 (1 when a comparator is involved)"}
    run.outside = ['parts deeper than the bounds; the parts themselves are evaluated by the implementation (C01 decides what parts mean)']
    run.assumes = ['combination rules as written in the property text (harness/c11.py combine)']
    run_jobs(run, jobs, task, 'mirsym: compound form vs combination of its separately evaluated parts')
    run.cands = [c for c in run.cands]
    run.confirm_all(confirm)
