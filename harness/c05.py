"""C05 — compile and search are total: no panic, no overflow, no out-of-bounds index, no hang.
Panic freedom is a by-product of every symbolic run (MIR carries explicit assert terminators for overflow / bounds / division and
calls to panicking functions): this check runs the lexer, parser, index/slice and evaluator harnesses and keeps the panic / step-budget
outcomes; Kani adds the slice kernel with the real std code (its own overflow / bounds checks)."""
import time
from mirsym.core import *
from vf import explore as XP, par, kani as K
from vf.explore import Summary
from .common import *
from . import grammar as GR, parsejob as PJ, lexjob as LJ, c07 as C07, c01 as C01, symast as SA

PROG = None; SEED = 0

def task(item):
    kind = item[0]
    if kind == 'parse':
        _, first, n, dl = item
        return PJ.parser_job(PROG, [[first]] + [GR.TOKENS] * (n - 1), dl, seed=SEED, want_trees=False, label=f'N={n} first={first}')
    if kind == 'interp': return C07.job_interp(item[1:])
    if kind == 'slice': return C07.job_slice(item[1:])
    if kind == 'ast': return C01.job_ast(item[1:])
    if kind == 'pubnum': return job_pubnum(item[1:])
    if kind == 'depth': return job_depth(item[1:])
    if kind == 'lexlong':
        _, spec, dl = item
        return LJ.lexer_job(PROG, LJ.make_chars_from(spec), dl, seed=SEED, label=f'{spec[0]} + {sum(1 for x in spec if x == "a")} x a + 2 symbolic' + (' closed' if spec[-1] is not None else ''), keyprefix='c05x')
    if kind == 'call':
        from . import funcjob as FJ
        _, name, lists, dl, mode = item
        return FJ.call_job(PROG, name, lists, dl, seed=SEED, mode=mode)

def job_pubnum(item):
    """compile(text) followed by search on a small array, the text being an index / slice form whose number is a (signed) run of symbolic digits:
    whatever range of numbers the lexer lets through must be safe in the parser and in the Index / Slice arms of the evaluator"""
    import z3
    from mirsym import models as MM, sym as SY
    pre, neg, ndig, post, doc, dl = item
    prog = PROG; eng = Engine(prog); eng.deadline = dl; S = Summary(); XP.init_decls(prog)
    def body(ex):
        chars = list(pre) + (['-'] if neg else [])
        for d in ndig:
            if isinstance(d, str): chars.append(d); continue
            c = SY.sym_chars(ex, 1)[0]; ex.assume(z3.And(z3.UGE(c.bv, 48), z3.ULE(c.bv, 57))); chars.append(c)
        chars += list(post); ex.u_chars = chars
        c = ex.call('compile', [Ptr(Cell(StrV(chars)))])
        if c.variant == 'Ok': ex.call('Expression::search', [Ptr(Cell(c.fields[0].v)), Ptr(Cell(MM.py_to_variable(doc)), 'rc')])
        return None
    def on_path(ex, r):
        S['paths'] += 1; S['outcomes'][r[0]] += 1
        if r[0] == 'unsupported': S.inconclusive(f'public number path {pre}N{post}: ' + XP.short_unsupported(r[1])); return
        if r[0] == 'abort' and 'step budget' not in str(r[1]): return
        if r[0] in ('panic', 'abort'):
            sat, m = eng.check(ex.pc)
            if not sat: return
            txt = SY.str_conc(StrV(ex.u_chars), m)
            from .funcjob import tag_py
            S.cand('c05:search-panic' if r[0] == 'panic' else 'c05:search-hang', f'{txt!r} on {doc}: {r[1]}', {'expr': txt, 'doc': doc}, {'op': 'search_default', 'expr': txt, 'doc': tag_py(doc)}, expected='Ok or Err'); return
        S['vacuity']['public number path returns'] = True
    n, rest = eng.explore(body, on_path, max_paths=4000)
    if rest: S.inconclusive(f'public number path {pre}N{post}: cap/deadline after {n} paths')
    S.absorb_engine(eng)
    return S

DEEP_FORMS = {'paren': lambda k: '(' * k + 'a' + ')' * k, 'not': lambda k: '!' * k + 'a', 'list': lambda k: '[' * k + 'a' + ']' * k, 'hash': lambda k: '{k:' * k + 'a' + '}' * k,
              'dot': lambda k: 'a' + '.a' * k, 'pipe': lambda k: 'a' + '|a' * k, 'or': lambda k: 'a' + '||a' * k, 'index': lambda k: 'a' + '[0]' * k, 'flatten': lambda k: 'a' + '[]' * k,
              'call': lambda k: 'abs(' * k + 'a' + ')' * k, 'expref': lambda k: 'map(&' * k + 'a' + ',@)' * k}
def job_depth(item):
    """call depth of compile / search as a function of the nesting level k of one syntactic form, measured on the MIR executor for k = 1..5. A form whose depth
    grows by a constant d > 0 per level without any limit being hit has recursion proportional to the input; the candidate is the same form at a level whose
    native stack use (k * d frames) exceeds the default 8 MiB main-thread stack -- replayed natively (the replay driver is aborted by the stack overflow)."""
    from mirsym import models as MM, sym as SY
    form, dl = item
    prog = PROG; eng = Engine(prog); eng.deadline = dl; S = Summary(); XP.init_decls(prog)
    depths = {'compile': [], 'search': []}
    try:
        for k in range(1, 6):
            ex = PathExec(eng, []); txt = DEEP_FORMS[form](k)
            c = ex.call('compile', [Ptr(Cell(rstr(txt)))])
            depths['compile'].append(ex.max_depth)
            if c.variant != 'Ok': raise Unsupported(f'depth probe: {txt!r} does not compile')
            ex.max_depth = 0
            ex.call('Expression::search', [Ptr(Cell(c.fields[0].v)), Ptr(Cell(SY.NULL()), 'rc')])
            depths['search'].append(ex.max_depth); S['paths'] += 1
    except (Unsupported, PathAbort, Panic) as e:
        S.inconclusive(f'depth probe {form}: {XP.short_unsupported(str(e))}'); S.absorb_engine(eng); return S
    S['outcomes']['depth-probes'] += 1
    for stage, ds in depths.items():
        inc = [b - a for a, b in zip(ds, ds[1:])]
        if len(set(inc)) == 1 and inc[0] > 0:
            S.cand('c05:unbounded-recursion', f'{stage}: call depth grows by {inc[0]} frames per level of `{DEEP_FORMS[form](2)}`-style nesting (levels 1..5: {ds}) and nothing limits the level',
                   {'form': form, 'stage': stage, 'frames_per_level': inc[0], 'example': DEEP_FORMS[form](3)}, {'op': 'deep', 'form': form, 'k': 200000}, expected='Ok or Err (no abort)')
        else: S['vacuity'][f'depth probe sees bounded {stage} depth for some form'] = True
    S.sample({'harness': 'depth probe', 'form': form, **depths}, cap=2)
    S.absorb_engine(eng)
    return S

def confirm(c, nd, nr):
    obs = {'dev': nd.request(c['request']), 'release': nr.request(c['request'])}
    return any(o.get('kind') in ('panic', 'abort', 'hang') for o in obs.values()), obs

def run(run):
    global PROG, SEED
    PROG = run.program(); XP.init_decls(PROG); SEED = run.seed
    C07.PROG = PROG; C07.SEED = SEED; C01.PROG = PROG; C01.SEED = SEED
    run.native('dev')
    XP.run_translator_validation(run, PROG, every=8 if run.tier == 'quick' else 1)
    quick = run.tier == 'quick'; dl = run.deadline
    D = ('digit',)
    specs = [[None], [None, None], ['2', '1', '4', '7', '4', '8', '3', '6', D, D], ['-', '2', '1', '4', '7', '4', '8', '3', '6', D, D], [D] * 11, ['-'] + [D] * 11, ['-', None, None],
             ["'", None, None], ['"', None, None], ['`', None, None], ["'", None, '\\'], ['"', '\\', None], ['`', None, '\\'], ['"', '\\', 'u', None, None], ['"', '\\', 'u', 'd', '8', '0', '0', '"'],
             ['[', ('digit',), ('digit',), ']'], ['[', '-', '2', '1', '4', '7', '4', '8', '3', '6', D, D, ']'], ['`', None, None, '`'], ['"', None, None, '"']]
    if not quick: specs += [[None, None, None], ["'", None, None, None], ['`', None, None, None, '`']]
    LJ.run_sharded(run, PROG, specs, 'mirsym: Lexer::tokenize on symbolic code points (panics, step budget)', keyprefix='c05x')
    import time as _t
    run.deadline = max(run.deadline, _t.time() + (90 if quick else 1200)); dl = run.deadline
    N = 3 if quick else 4
    jobs = [('parse', k, n, dl) for n in range(N, 0, -1) for k in GR.TOKENS]
    jobs += [('interp', 'index', 3, dl)] + [('interp', ('slice', hs, ht), 3, dl) for hs in (0, 1) for ht in (0, 1)]
    jobs += [('slice', L, hs, ht, True, dl) for L in range(0, 5 if quick else 8) for hs in (0, 1) for ht in (0, 1)]
    jobs += [('ast', k, (), 1, 2, dl, 20000 if quick else 10**7, True) for k in SA.COMPOUND if k != 'Comparison']
    jobs += [('ast', 'Comparison', (c1, c2), 1, 1, dl, 10**7, True) for c1 in ['Identity', 'Field', 'Index', 'Literal'] for c2 in ['Identity', 'Field', 'Index', 'Literal']]
    jobs += [('depth', f, dl) for f in DEEP_FORMS]
    # numbers through the public path: whatever the lexer lets through reaches the evaluator
    for pre, post in (('[', ']'), ('[', ':]'), ('[:', ']'), ('[::', ']'), ('a[', ']'), ('[0:', ':1]')):
        for neg in (False, True):
            for doc in ([], [0], [0, 1, 2]) if pre != 'a[' else ({'a': [0, 1]},):
                for digs in (list('21474836') + [None, None], [None], [None, '0', '0', '0', '0', '0', '0', '0', '0', '0']): jobs.append(('pubnum', pre, neg, digs, post, doc, dl))
    # long delimited bodies: q + n x 'a' + two arbitrary code points (+ end of input), every n up to LONG -- buffer thresholds, byte/char index confusion
    LONG = 80
    for q in ('"', "'", '`'):
        for n in range(3, LONG + 1):
            jobs.append(('lexlong', [q] + ['a'] * n + [None, None], dl))
            if q != "'": jobs.append(('lexlong', [q] + ['a'] * n + [None, None, q], dl))          # closed: the JSON decoding of the body may fail with these two characters
    # built-in calls: every function on every combination of type representatives (incl. empty arrays/strings/objects) and on its own value universe
    from . import funcs as F, funcjob as FJ
    U = FJ.universes(2)
    for name in F.NAMES:
        declared = len(F.SIG[name][0])
        for n in range(0, declared + 2): jobs.append(('call', name, [FJ.ANY] * min(n, 2) + [FJ.ANY[:3]] * max(0, n - 2), dl, 'table'))
        lists = U[name]
        if max(len(l) for l in lists) > 120: lists = [l[::4] if len(l) > 120 else l for l in lists]
        jobs.append(('call', name, lists, dl, 'values'))
    run_jobs(run, jobs, task, 'mirsym: parser on symbolic tokens, Index/Slice arms over the lexer range, slice kernel over all i32, symbolic ASTs, built-in calls')
    res = K.run_harnesses(run, ['c07_slice_len2', 'c07_slice_len3', 'c07_negative_index'] + ([] if quick else ['c07_slice_len4', 'c07_slice_len6']), timeout=420 if quick else 2400)
    for r in res:
        for c in r['failed']:
            if any(w in c['desc'] for w in ('overflow', 'index out of bounds', 'unwrap', 'unreachable', 'panic')):
                vals = r.get('values')
                run.cands.append({'key': 'c05:kani-' + r['harness'], 'what': 'Kani: ' + c['desc'], 'witness': {'values': vals}, 'request': kani_slice_request(r['harness'], vals), 'expected': 'no panic'})
    run.bounds = {'public number path': 'compile + search of [N] [N:] [:N] [::N] a[N] [0:N:1] with N = 21474836dd, d, d000000000 (d symbolic digits) with and without a minus sign, on arrays of 0, 1 and 3 elements',
                  'long delimited bodies': 'quote + n x "a" + 2 arbitrary code points, unterminated (all three delimiters) and closed (quoted identifier, literal: the body then goes through JSON decoding), for every n <= 80',
                  'lexer': 'strings of <= ' + ('2' if quick else '3') + ' arbitrary Unicode scalar values; number tokens of 10-12 symbolic digits around the i32 edge (with/without minus); unterminated and malformed quoted forms with symbolic characters',
                  'parser': f'every token sequence of <= {N} tokens (symbolic numbers over the lexer range); peek/advance past the end included',
                  'evaluator': 'Index over the whole lexer range incl. (-idx) as usize; slices over all i32 (kernel) / the lexer range (interpret arm); every compound node kind over leaf children on symbolic documents',
                  'built-ins': 'all 26 functions on every combination of 11 type representatives per position (arity 0..declared+1) and on their value universes (empty arrays/strings/objects included)',
                  'kani': 'Variable::slice / get_index / get_negative_index with the real Vec/Rc code for arrays of <= 3 (quick) / 6 (thorough) elements and all i32/usize arguments'}
    run.bounds['recursion depth'] = 'call depth of compile and search measured on the executor for nesting levels 1..5 of 11 syntactic forms (parentheses, !, multi-select list/hash, . | || chains, index/flatten chains, nested calls and expression references); constant positive growth is replayed natively at level 200000'
    run.outside = ['the native stack itself is not modelled: stack exhaustion is reported only through the depth probe (growth per nesting level on the executor + native replay at level 200000)',
                   'documents larger than the bounds']
    run.assumes = ['MIR overflow checks on (as in debug builds); release-profile behaviour is observed in the native replay of every counterexample']
    run.cands = [c for c in run.cands if 'panic' in c['key'] or 'hang' in c['key'] or c['key'].startswith('c05:')]
    for c in run.cands:
        if not c['key'].startswith('c05:'): c['key'] = 'c05:' + c['key']
    run.confirm_all(confirm)

def kani_slice_request(h, vals):
    try:
        if h.startswith('c07_slice') and vals:
            i = 0
            ln = int(h.split('len')[1])
            def opt(j):
                tag = vals[j][0]
                return (K.le(vals[j + 1], True), j + 2) if tag else (None, j + 1)
            st, i = opt(i); sp, i = opt(i); step = K.le(vals[i], True)
            return {'op': 'slice', 'len': ln, 'start': st, 'stop': sp, 'step': step}
    except Exception: pass
    return {'op': 'slice', 'len': 0, 'start': None, 'stop': None, 'step': 1}
