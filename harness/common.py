"""shared harness helpers"""
import z3, collections, time
from mirsym.core import *
from mirsym import models as MM, sym as SY
from vf import explore as XP, par

def mk_ast(prog, variant, **fields):
    names = dict(prog.decls.enums['Ast'])[variant]
    return mk_enum('Ast', variant, [fields[n] for n in names])
def boxed(v): return Ptr(Cell(v), 'box')
def ast_field(prog, node, name):
    node = MM.deref_all(node)
    names = dict(prog.decls.enums['Ast'])[node.variant]
    return node.fields[names.index(name)].v
def num_var(i):
    return Ptr(Cell(mk_enum('Variable', 'Number', [NumberV('pos', Int(i, 'u64'))])), 'rc')
def sx(bv, bits=64): return z3.SignExt(bits - bv.size(), bv)
def mval(model, bv, signed=True):
    r = model.eval(bv, model_completion=True)
    return r.as_signed_long() if signed else r.as_long()

def run_jobs(run, jobs, task, label):
    """jobs: list of picklable items; task(item) -> Summary. Merges, records crashes as inconclusive."""
    t0 = time.time(); n = 0
    for st, r in par.pmap_unordered(task, jobs):
        n += 1
        if st != 'ok':
            run.note_inconclusive(f'{label}: job crashed: {r[:300]}'); continue
        run.merge(r)
    run.harnesses.append({'name': label, 'jobs': len(jobs), 'wall_s': round(time.time() - t0, 1)})

def py_slice_positions(L, start, stop, step):
    return list(range(L))[slice(start, stop, step)]
