"""Confirmation of lexer/parser-level counterexamples through the PUBLIC API only (compile / search on the native build):
the reference pipeline (reference lexer -> CFG membership -> reference parser) computes what compile must do with a concrete text; a
candidate is reproduced when, for the text itself or for the text embedded in one of a few sentence templates, the native outcome differs."""
import json
from mirsym.core import *
from mirsym import models as MM
from . import lexref as LR, grammar as GR, parsejob as PJ

class ConcreteEx:
    """stand-in for the path executor on concrete inputs (no forks can occur)"""
    def branch_bool(s, b):
        c = b.concrete() if isinstance(b, Bool) else None
        if c is None: raise Unsupported('symbolic decision in concrete reference run')
        return c
    def concretize_int(s, v, what='', limit=0): return v.concrete()
    def assume(s, c): pass
    def choose(s, conds):
        raise Unsupported('symbolic decision in concrete reference run')

TEMPLATES = ['{T}', 'a{T}b', 'a {T} b', 'a{T}', '{T}a', '[{T}]', 'a.{T}', '{T}.a', 'f({T})', 'a[{T}]', 'a[?{T}]', 'a[?b{T}c]', '{T}`1`', '`1`{T}`2`', '({T})', '{a:{T}}', 'a[{T}:]', '!{T}']

def var_to_tagged(v):
    from vf.native import tag_num
    v = MM.deref_all(v); k = v.variant
    if k == 'Null': return None
    if k == 'Bool': return v.fields[0].v.concrete()
    if k == 'String': return v.fields[0].v.concrete()
    if k == 'Number':
        n = v.fields[0].v; return tag_num(n.kind, MM.cval(n.val))
    if k == 'Array': return [var_to_tagged(c.v) for c in v.fields[0].v.items]
    if k == 'Object': return {kk: var_to_tagged(v.fields[0].v.d[kk].v) for kk in v.fields[0].v.keys()}

def reference_compile(text, open_exts=()):
    """returns ('err', byte_offset|None, why) | ('ok', tree, tokens) | ('ext', why) when acceptance hinges on a recorded deviation"""
    ex = ConcreteEx()
    try: toks = LR.ref_tokenize(ex, list(text))
    except LR.LexError as e: return ('err', e.pos if isinstance(e.pos, int) else None, 'lexical: ' + str(e))
    kinds = [k for _, k, _ in toks[:-1]]
    if not kinds or not GR.accepts(kinds):
        if open_exts and kinds and GR.accepts(kinds, GR.grammar(open_exts)): return ('ext', 'accepted only through a recorded deviation')
        return ('err', None, 'not a sentence')
    rt = []
    for p, k, pl in toks[:-1]:
        if k in ('Identifier', 'QuotedIdentifier'): rt.append((k, ('q' if k[0] == 'Q' else 'i', ''.join(pl))))
        elif k == 'Number': rt.append((k, z3val(pl)))
        elif k == 'Literal': rt.append((k, ('lit', json.dumps(var_to_tagged(pl), sort_keys=True))))
        else: rt.append((k, None))
    try: tree = GR.ref_parse([(k, (pl if k != 'Identifier' and k != 'QuotedIdentifier' else ('q' if k[0] == 'Q' else 'i') + pl[1])) for k, pl in rt])
    except GR.RefError as e: return ('err', None, 'reference parser: ' + str(e))
    return ('ok', tree, toks)
def z3val(x):
    import z3
    x = z3.simplify(x) if not isinstance(x, int) else x
    return x if isinstance(x, int) else x.as_signed_long()

def norm_tree(t):
    """make reference trees and native Debug trees comparable: identifiers by text, numbers by value, literals only by kind"""
    if isinstance(t, (list, tuple)):
        t = tuple(t)
        if len(t) == 2 and t[0] == 'Literal': return ('Literal',)
        if len(t) == 2 and t[0] == 'Field': return ('Field', t[1][1:] if isinstance(t[1], str) and t[1][:1] in 'iq' and False else t[1])
        return tuple(norm_tree(x) for x in t)
    if t == 'ONE': return 1
    return t
def strip_prefix_names(t):
    if isinstance(t, tuple):
        if len(t) == 2 and t[0] == 'Field': return ('Field', t[1][1:])
        if len(t) == 3 and t[0] == 'Function': return ('Function', t[1][1:], tuple(strip_prefix_names(x) for x in t[2]))
        if t and t[0] == 'MultiHash': return ('MultiHash', tuple((k[1:], strip_prefix_names(v)) for k, v in t[1]))
        return tuple(strip_prefix_names(x) for x in t)
    return t

def confirm_text(text, nd, nr, open_exts=(), templates=TEMPLATES):
    """returns (reproduced, observation dict). Tries the text alone and embedded in templates."""
    tried = []
    for tpl in templates:
        t = tpl.replace('{T}', text)
        ref = reference_compile(t, open_exts)
        if ref[0] == 'ext': continue
        a = nd.request({'op': 'compile', 'expr': t})
        entry = {'expr': t, 'reference': ref[0], 'native': a.get('kind')}
        if a.get('kind') in ('panic', 'abort', 'hang'): return True, {'expr': t, 'native': a}
        if ref[0] == 'err':
            if a.get('kind') == 'ok': return True, {'expr': t, 'expected': 'compile error (' + ref[2] + ')', 'native': a}
            if ref[1] is not None and a.get('offset') != ref[1]:
                return True, {'expr': t, 'expected': f'error at byte offset {ref[1]} ({ref[2]})', 'native': a, 'class': 'offset'}
        else:
            if a.get('kind') != 'ok': return True, {'expr': t, 'expected': 'compiles', 'native': a}
            try: got = PJ.parse_debug_ast(a['ast'])
            except Exception as e: entry['debug_parse_error'] = repr(e); tried.append(entry); continue
            want = strip_prefix_names(ref[1])
            if norm_tree(got) != norm_tree(want): return True, {'expr': t, 'expected_tree': str(norm_tree(want))[:300], 'native_tree': str(norm_tree(got))[:300]}
            # literal values through search
            lits = [pl for _, k, pl in ref[2] if k == 'Literal']
        tried.append(entry)
    return False, {'tried': tried[:6]}

def confirm_literal_value(text, nd):
    """text is a single literal / raw string: search(text, null) must return the reference value"""
    ref = reference_compile(text)
    if ref[0] != 'ok': return None
    toks = ref[2]
    if len(toks) != 2 or toks[0][1] != 'Literal': return None
    want = var_to_tagged(toks[0][2])
    a = nd.request({'op': 'search', 'expr': text, 'doc': None})
    return (a.get('kind') != 'ok' or a.get('value') != want), {'expr': text, 'expected': want, 'native': a}

def confirm_token_position(text, nd):
    """a token position is observable through the location of a parse error raised AT that token: the text is extended so that the parser fails at the end of
    input (whose token must sit at the byte length of the text) or right after the text"""
    tried = []
    for suf in ('.', ' |', ' &&', ' ==', '['):
        t = text + suf
        ref = reference_compile(t)
        if ref[0] != 'err' or (len(ref) > 2 and str(ref[2]).startswith('lexical')): continue
        a = nd.request({'op': 'compile', 'expr': t})
        tried.append({'expr': t, 'native_offset': a.get('offset'), 'bytes': len(t.encode())})
        if a.get('kind') == 'compile-err' and 'Eof' in str(a.get('reason', '')) + str(a.get('display', '')) and a.get('offset') != len(t.encode()):
            return True, {'expr': t, 'expected': f'parse error at the end of input, byte offset {len(t.encode())}', 'native': a}
    return False, {'tried': tried}
