"""Lazily initialised symbolic ASTs over the core node kinds, and their concretisation for native replay."""
import z3
from mirsym.core import *
from mirsym import models as MM, sym as SY
from .common import *

LEAF = ['Identity', 'Field', 'Index', 'Literal', 'Slice']
UNARY = ['Not', 'ObjectValues', 'Flatten']
BINARY = ['Subexpr', 'Or', 'And', 'Projection', 'Condition', 'Comparison']
NARY = ['MultiList', 'MultiHash']
COMPOUND = UNARY + BINARY + NARY
CMPS = ['Equal', 'NotEqual', 'LessThan', 'LessThanEqual', 'GreaterThan', 'GreaterThanEqual']
SLICE_PARTS = [None, 0, 1, -1, 2]; SLICE_STEPS = [1, -1, 2, 0]
LEXMAX = (1 << 31) - 1

class AstSpec:
    def __init__(s, prog, height, fields=('a', 'b', 'zz'), hkeys=('x', 'y'), lit_spec=None, kinds=None, leaf=None, max_list=2):
        s.prog, s.height, s.fields, s.hkeys = prog, height, tuple(fields), tuple(hkeys)
        s.lit_spec = lit_spec or SY.DocSpec(depth=1, A=1, keys=('a',), strs=('', 'a'), nums=[0, 1])
        s.kinds = list(kinds or (LEAF + COMPOUND)); s.leaf = list(leaf or LEAF); s.max_list = max_list
        s.vidx = {k: prog.decls.variant_index('Ast', k) for k, _ in prog.decls.enums['Ast']}

class LazyAst:
    def __init__(s, ex, spec, height):
        s.spec, s.height = spec, height
        s.kinds = list(spec.kinds if height > 0 else spec.leaf)
        s.tagvar = ex.fresh('ast', 64)
        ex.assume(z3.Or(*[s.tagvar == spec.vidx[k] for k in s.kinds]))
    def __call__(s, ex, me, want=None):
        spec = s.spec; prog = spec.prog
        if want is None: lab = ex.choose([(k, s.tagvar == spec.vidx[k]) for k in s.kinds])
        else:
            if want not in s.kinds: raise PathAbort('infeasible ast downcast')
            lab = want; ex.assume(s.tagvar == spec.vidx[want])
        me.lazy = None; me.variant = lab
        names = dict(prog.decls.enums['Ast'])[lab]
        child = lambda: boxed(sym_ast(ex, spec, s.height - 1))
        vals = {'offset': Int(0, 'usize')}
        if lab == 'Field':
            fv = ex.fresh('fname', 8); k = ex.choose([(i, fv == i) for i in range(len(spec.fields))]); vals['name'] = rstr(spec.fields[k])
        elif lab == 'Literal': vals['value'] = SY.rc(SY.sym_variable(ex, spec.lit_spec))
        elif lab == 'Index':
            iv = ex.fresh('idx', 32); ex.assume(z3.And(iv >= -LEXMAX, iv <= LEXMAX)); vals['idx'] = Int(iv, 'i32')
        elif lab == 'Slice':
            def part(nm):
                pv = ex.fresh('has' + nm, 8)
                if not ex.choose([(1, pv == 1), (0, pv == 0)]): return none()
                v = ex.fresh(nm, 32); ex.assume(z3.And(v >= -LEXMAX, v <= LEXMAX)); return some(Int(v, 'i32'))
            vals['start'] = part('sstart'); vals['stop'] = part('sstop')
            v = ex.fresh('sstep', 32); ex.assume(z3.And(v >= -LEXMAX, v <= LEXMAX)); vals['step'] = Int(v, 'i32')
        elif lab == 'Function':
            # the total built-in `type` applied to the current node (leaf) or to a sub-expression: a part whose value on null is not null
            vals['name'] = rstr('type'); vals['args'] = VecV([Cell(sym_ast(ex, spec, s.height - 1) if s.height > 0 else mk_ast(prog, 'Identity', offset=Int(0, 'usize')))])
        elif lab in ('Not', 'ObjectValues', 'Flatten'): vals['node'] = child()
        elif lab in ('Subexpr', 'Or', 'And', 'Projection'): vals['lhs'] = child(); vals['rhs'] = child()
        elif lab == 'Condition': vals['predicate'] = child(); vals['then'] = child()
        elif lab == 'Comparison':
            cv = ex.fresh('cmp', 8); k = ex.choose([(i, cv == i) for i in range(len(CMPS))])
            vals['comparator'] = mk_enum('Comparator', CMPS[k], []); vals['lhs'] = child(); vals['rhs'] = child()
        elif lab == 'MultiList':
            nv = ex.fresh('nlist', 8); n = ex.choose([(i, nv == i) for i in range(1, spec.max_list + 1)])
            vals['elements'] = VecV([Cell(sym_ast(ex, spec, s.height - 1)) for _ in range(n)])
        elif lab == 'MultiHash':
            nv = ex.fresh('nhash', 8); n = ex.choose([(i, nv == i) for i in range(1, spec.max_list + 1)])
            kf = prog.decls.structs['KeyValuePair']; els = []
            for _ in range(n):
                kv = ex.fresh('hkey', 8); k = ex.choose([(i, kv == i) for i in range(len(spec.hkeys))])
                d = {'key': rstr(spec.hkeys[k]), 'value': sym_ast(ex, spec, s.height - 1)}
                els.append(Cell(Agg('struct', 'KeyValuePair', None, [Cell(d[f]) for f in kf])))
            vals['elements'] = VecV(els)
        me.fields = [Cell(vals[n]) for n in names]

def sym_ast(ex, spec, height=None):
    return Agg('enum', 'Ast', None, [], lazy=LazyAst(ex, spec, spec.height if height is None else height))

def force(ex, node, kind):
    node = MM.deref_all(node)
    if node.lazy is not None: node.lazy(ex, node, want=kind)
    return node

def pin_constraints(node, acc):
    """pin unmaterialised AST nodes to Identity (always among the leaf kinds) so a model denotes a complete tree"""
    node = MM.deref_all(node)
    if isinstance(node, VecV):
        for c in node.items: pin_constraints(c.v, acc)
        return
    if not isinstance(node, Agg): return
    if node.ty == 'Ast':
        if node.lazy is not None:
            acc.append(node.lazy.tagvar == node.lazy.spec.vidx['Identity']); return
        for c in node.fields: pin_constraints(c.v, acc)
    elif node.ty == 'KeyValuePair':
        for c in node.fields: pin_constraints(c.v, acc)
    elif node.ty == 'Variable':
        SY.lazy_null_constraints(node, acc)

def ast_json(ex, prog, node, model):
    """AST value -> JSON for the replay driver's search_ast op"""
    node = MM.deref_all(node)
    if node.lazy is not None: return {'k': 'Identity'}
    k = node.variant; names = dict(prog.decls.enums['Ast'])[k]
    f = lambda n: node.fields[names.index(n)].v
    out = {'k': k}
    if k == 'Field': out['name'] = f('name').concrete()
    elif k == 'Literal': out['value'] = SY.tagged(ex, f('value'), model)
    elif k == 'Index': out['idx'] = MM.cval(f('idx'), model)
    elif k == 'Slice':
        for nm in ('start', 'stop'):
            o = MM.deref_all(f(nm)); out[nm] = None if o.variant == 'None' else MM.cval(o.fields[0].v, model)
        out['step'] = MM.cval(f('step'), model)
    elif k in ('Not', 'ObjectValues', 'Flatten'): out['node'] = ast_json(ex, prog, f('node'), model)
    elif k in ('Subexpr', 'Or', 'And', 'Projection'): out['lhs'] = ast_json(ex, prog, f('lhs'), model); out['rhs'] = ast_json(ex, prog, f('rhs'), model)
    elif k == 'Condition': out['predicate'] = ast_json(ex, prog, f('predicate'), model); out['then'] = ast_json(ex, prog, f('then'), model)
    elif k == 'Comparison':
        out['cmp'] = MM.deref_all(f('comparator')).variant; out['lhs'] = ast_json(ex, prog, f('lhs'), model); out['rhs'] = ast_json(ex, prog, f('rhs'), model)
    elif k == 'MultiList': out['elements'] = [ast_json(ex, prog, c.v, model) for c in f('elements').items]
    elif k == 'MultiHash':
        kf = prog.decls.structs['KeyValuePair']
        out['elements'] = [[c.v.fields[kf.index('key')].v.concrete(), ast_json(ex, prog, c.v.fields[kf.index('value')].v, model)] for c in f('elements').items]
    elif k == 'Expref': out['ast'] = ast_json(ex, prog, f('ast'), model)
    elif k == 'Function':
        out['name'] = f('name').concrete(); out['args'] = [ast_json(ex, prog, c.v, model) for c in f('args').items]
    return out
