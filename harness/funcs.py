"""Built-in functions: the signature table and the value semantics transcribed from the JMESPath function specification
(jmespath.org/specification.html#built-in-functions) and the texts of properties C02/C06 -- NOT from functions.rs.
Values are plain Python JSON; numbers int/float; expression references are ('expref', text)."""
import json, math
from fractions import Fraction

# name -> (parameter types, variadic type or None, result types)
T_ANY = ('any',)
SIG = {
 'abs': ([('number',)], None, ('number',)),
 'avg': ([('array-number',)], None, ('number', 'null')),
 'ceil': ([('number',)], None, ('number',)),
 'contains': ([('array', 'string'), T_ANY], None, ('boolean',)),
 'ends_with': ([('string',), ('string',)], None, ('boolean',)),
 'floor': ([('number',)], None, ('number',)),
 'join': ([('string',), ('array-string',)], None, ('string',)),
 'keys': ([('object',)], None, ('array',)),
 'length': ([('string', 'array', 'object')], None, ('number',)),
 'map': ([('expref',), ('array',)], None, ('array',)),
 'max': ([('array-number', 'array-string')], None, ('number', 'string', 'null')),
 'max_by': ([('array',), ('expref',)], None, ('any',)),
 'merge': ([('object',)], ('object',), ('object',)),
 'min': ([('array-number', 'array-string')], None, ('number', 'string', 'null')),
 'min_by': ([('array',), ('expref',)], None, ('any',)),
 'not_null': ([T_ANY], T_ANY, ('any',)),
 'reverse': ([('string', 'array')], None, ('string', 'array')),
 'sort': ([('array-number', 'array-string')], None, ('array',)),
 'sort_by': ([('array',), ('expref',)], None, ('array',)),
 'starts_with': ([('string',), ('string',)], None, ('boolean',)),
 'sum': ([('array-number',)], None, ('number',)),
 'to_array': ([T_ANY], None, ('array',)),
 'to_number': ([T_ANY], None, ('number', 'null')),
 'to_string': ([T_ANY], None, ('string',)),
 'type': ([T_ANY], None, ('string',)),
 'values': ([('object',)], None, ('array',)),
}
NAMES = sorted(SIG)

def jtype(v):
    if v is None: return 'null'
    if isinstance(v, bool): return 'boolean'
    if isinstance(v, (int, float)): return 'number'
    if isinstance(v, str): return 'string'
    if isinstance(v, list): return 'array'
    if isinstance(v, dict): return 'object'
    if isinstance(v, tuple) and v[0] == 'expref': return 'expref'
    raise ValueError(v)
def accepts(tys, v):
    """does value v belong to the declared parameter type (a union of names)?  `any` accepts every JSON value; whether it also accepts an
    expression reference is left open (returns None = either outcome is accepted): the specification's `any` ranges over JSON values, its
    reference implementation and this crate admit references in some `any` positions (type, to_array, not_null) and not in others (to_string)."""
    t = jtype(v)
    for ty in tys:
        if ty == 'any': return None if t == 'expref' else True
        if ty == t: return True
        if ty == 'array-number' and t == 'array' and all(jtype(x) == 'number' for x in v): return True
        if ty == 'array-string' and t == 'array' and all(jtype(x) == 'string' for x in v): return True
    return False
def check_call(name, args):
    """None if the call satisfies the signature, else the error class the specification requires"""
    if name not in SIG: return 'unknown-function'
    params, var, _ = SIG[name]
    if len(args) < len(params): return 'invalid-arity'
    if var is None and len(args) > len(params): return 'invalid-arity'
    either = False
    for i, a in enumerate(args):
        tys = params[i] if i < len(params) else var
        r = accepts(tys, a)
        if r is None: either = True
        elif not r: return 'invalid-type'
    return 'either' if either else None
ARITY = {'either': ('invalid-type',), 'invalid-arity': ('too-many-arguments', 'not-enough-arguments'), 'invalid-type': ('invalid-type', 'invalid-return-type'), 'unknown-function': ('unknown-function',)}

# ------------------------------------------------------------------ tiny evaluator for the expression references used by the harness
def _eval_expref_text(text, v):
    e = text.lstrip('&').strip()
    if e == '@': return v
    if e in ('a', 'b'): return v.get(e) if isinstance(v, dict) else None
    if e == 'length(@)': return ('ERR', 'invalid-type') if not isinstance(v, (str, list, dict)) or isinstance(v, bool) else len(v)
    if e == 'to_number(@)':
        return spec('to_number', [v])[1]
    if e == 'to_number(a)':
        x = v.get('a') if isinstance(v, dict) else None
        r = spec('to_number', [x])[1]
        return r if not isinstance(r, Pred) else float(x) if isinstance(x, str) else x
    if e == 'a.b': 
        x = v.get('a') if isinstance(v, dict) else None
        return x.get('b') if isinstance(x, dict) else None
    if e == '`1`': return 1
    if e == '`null`': return None
    if e == 'abs(@)':
        return ('ERR', 'invalid-type') if jtype(v) != 'number' else abs(v)
    if e == 'to_array(@)': return v if isinstance(v, list) else [v]
    if e == 'a[0:1]':
        x = v.get('a') if isinstance(v, dict) else None
        return x[0:1] if isinstance(x, list) else None
    if e == '[0:1]': return v[0:1] if isinstance(v, list) else None
    if e == 'nosuch(@)': return ('ERR', 'unknown-function')
    raise ValueError(text)

class Pred:
    """result is any value satisfying the predicate (used where the specification leaves a choice, e.g. ties of max_by)"""
    def __init__(s, f, desc): s.f, s.desc = f, desc
def num_eq(a, b): return Fraction(a) == Fraction(b)
def deep_eq(a, b):
    ta, tb = jtype(a), jtype(b)
    if ta != tb: return False
    if ta == 'number': return num_eq(a, b)
    if ta == 'array': return len(a) == len(b) and all(deep_eq(x, y) for x, y in zip(a, b))
    if ta == 'object': return set(a) == set(b) and all(deep_eq(a[k], b[k]) for k in a)
    return a == b
def cp_key(s): return [ord(c) for c in s]
def json_number_text(s):
    """is s exactly a JSON number (RFC 8259)?"""
    import re
    return re.fullmatch(r'-?(0|[1-9][0-9]*)(\.[0-9]+)?([eE][+-]?[0-9]+)?', s) is not None

def spec(name, args, eval_expref=None):
    eval_expref = eval_expref or _eval_expref_text
    """('ok', value | Pred) or ('err', class).  Precondition: check_call(name, args) is None."""
    a = args
    if name == 'abs': return ('ok', abs(a[0]))
    if name == 'ceil': return ('ok', math.ceil(a[0]) if math.isfinite(a[0]) else a[0])
    if name == 'floor': return ('ok', math.floor(a[0]) if math.isfinite(a[0]) else a[0])
    if name == 'avg':
        if not a[0]: return ('ok', None)
        s = 0.0
        for x in a[0]: s += float(x)
        return ('ok', s / len(a[0]))
    if name == 'sum':
        s = 0.0
        for x in a[0]: s += float(x)
        return ('ok', s)
    if name == 'contains':
        if isinstance(a[0], str): return ('ok', isinstance(a[1], str) and a[1] in a[0])
        return ('ok', any(deep_eq(x, a[1]) for x in a[0]))
    if name == 'ends_with': return ('ok', a[0].endswith(a[1]))
    if name == 'starts_with': return ('ok', a[0].startswith(a[1]))
    if name == 'join': return ('ok', a[0].join(a[1]))
    if name == 'keys': return ('ok', sorted(a[0], key=cp_key))
    if name == 'values': return ('ok', [a[0][k] for k in sorted(a[0], key=cp_key)])
    if name == 'length': return ('ok', len(a[0]))
    if name == 'map':
        out = []
        for x in a[1]:
            r = eval_expref(a[0][1], x)
            if isinstance(r, tuple) and r and r[0] == 'ERR': return ('err', r[1], 'inner')
            out.append(r)
        return ('ok', out)
    if name in ('max', 'min'):
        if not a[0]: return ('ok', None)
        f = max if name == 'max' else min
        if isinstance(a[0][0], str): return ('ok', f(a[0], key=cp_key))
        ext = f(a[0], key=Fraction)
        return ('ok', Pred(lambda r: jtype(r) == 'number' and num_eq(r, ext), f'a number equal to {ext}'))
    if name in ('max_by', 'min_by', 'sort_by'):
        arr = a[0]
        if not arr: return ('ok', None if name != 'sort_by' else [])
        keys = []
        for x in arr:
            k = eval_expref(a[1][1], x)
            if isinstance(k, tuple) and k and k[0] == 'ERR': return ('err', k[1], 'inner')
            keys.append(k)
        kt = jtype(keys[0])
        if kt not in ('number', 'string') or any(jtype(k) != kt for k in keys): return ('err', 'invalid-type', 'outer')
        kf = (lambda k: cp_key(k)) if kt == 'string' else (lambda k: Fraction(k))
        if name == 'sort_by':
            order = sorted(range(len(arr)), key=lambda i: kf(keys[i]))        # Python's sort is stable
            return ('ok', [arr[i] for i in order])
        ext = (max if name == 'max_by' else min)(kf(k) for k in keys)
        cands = [arr[i] for i in range(len(arr)) if kf(keys[i]) == ext]
        return ('ok', Pred(lambda r: any(r is c or r == c for c in cands), 'an input element whose key is extreme'))
    if name == 'merge':
        out = {}
        for o in a: out.update(o)
        return ('ok', out)
    if name == 'not_null':
        for x in a:
            if x is not None: return ('ok', x)
        return ('ok', None)
    if name == 'reverse': return ('ok', a[0][::-1])
    if name == 'sort':
        if a[0] and isinstance(a[0][0], str): return ('ok', sorted(a[0], key=cp_key))
        return ('ok', sorted(a[0], key=Fraction))
    if name == 'to_array': return ('ok', a[0] if isinstance(a[0], list) else [a[0]])
    if name == 'to_number':
        v = a[0]
        if jtype(v) == 'number': return ('ok', v)
        if jtype(v) == 'string' and json_number_text(v):
            f = float(v)
            if math.isinf(f): return ('ok', None)
            return ('ok', Pred(lambda r: jtype(r) == 'number' and float(r) == f, f'the number {v}'))
        if jtype(v) == 'string' and json_number_text(v.strip(' \t\n\r')):
            # the specification does not say whether surrounding whitespace is tolerated: a number (that one) or null, nothing else
            f = float(v.strip(' \t\n\r'))
            return ('ok', Pred(lambda r: r is None or (jtype(r) == 'number' and float(r) == f), f'null or the number {v.strip()}'))
        return ('ok', None)
    if name == 'to_string':
        v = a[0]
        if isinstance(v, str): return ('ok', v)
        return ('ok', Pred(lambda r: isinstance(r, str) and _json_back(r, v), 'a string holding the JSON text of the value'))
    if name == 'type': return ('ok', jtype(a[0]))
    raise ValueError(name)
def _json_back(text, v):
    try: return deep_eq(json.loads(text), v)
    except Exception: return False
