"""Token-level grammar of JMESPath (the published ABNF lifted to the token kinds of lexer.rs), its membership test as an SMT
term over symbolic token kinds (CYK-style, acyclic over span length), a memoised concrete recogniser, and a reference
precedence-climbing parser written from the binding-power order stated in property C04.  None of this is derived from parser.rs."""
import functools, z3

CMP = ['Eq', 'Ne', 'Lt', 'Lte', 'Gt', 'Gte']
TOKENS = ['Identifier', 'QuotedIdentifier', 'Number', 'Literal', 'Dot', 'Star', 'Flatten', 'And', 'Or', 'Pipe', 'Filter', 'Lbracket', 'Rbracket',
          'Comma', 'Colon', 'Not', 'Ne', 'Eq', 'Gt', 'Gte', 'Lt', 'Lte', 'At', 'Ampersand', 'Lparen', 'Rparen', 'Lbrace', 'Rbrace']
# nonterminal -> alternatives (tuples of symbols); terminals are token kind names
G = {
 'expr': [('expr', 'Dot', 'subrhs'), ('expr', 'bracket'), ('bracket',), ('expr', 'cmp', 'expr'), ('expr', 'Or', 'expr'), ('expr', 'And', 'expr'),
          ('expr', 'Pipe', 'expr'), ('Not', 'expr'), ('Lparen', 'expr', 'Rparen'), ('ident',), ('Star',), ('mlist',), ('mhash',), ('Literal',),
          ('func',), ('At',)],
 'subrhs': [('ident',), ('mlist',), ('mhash',), ('func',), ('Star',)],
 'ident': [('Identifier',), ('QuotedIdentifier',)],
 'cmp': [(c,) for c in CMP],
 'mlist': [('Lbracket', 'exprs', 'Rbracket')],
 'exprs': [('expr',), ('expr', 'Comma', 'exprs')],
 'mhash': [('Lbrace', 'kvs', 'Rbrace')],
 'kvs': [('kv',), ('kv', 'Comma', 'kvs')],
 'kv': [('ident', 'Colon', 'expr')],
 'bracket': [('Lbracket', 'Number', 'Rbracket'), ('Lbracket', 'Star', 'Rbracket'), ('Lbracket', 'slice', 'Rbracket'), ('Flatten',), ('Filter', 'expr', 'Rbracket')],
 'slice': [('optnum', 'Colon', 'optnum'), ('optnum', 'Colon', 'optnum', 'Colon', 'optnum')],
 'optnum': [(), ('Number',)],
 'func': [('Identifier', 'Lparen', 'Rparen'), ('Identifier', 'Lparen', 'args', 'Rparen')],
 'args': [('arg',), ('arg', 'Comma', 'args')],
 'arg': [('expr',), ('Ampersand', 'expr')],
}
# Grammar extensions = recorded deviations of the implementation (known findings are keyed by these names, never by example)
EXT = {
 'E2-missing-comma': {'exprs': [('expr', 'exprs')], 'args': [('arg', 'args')]},
 'E3-empty-multiselect': {'mlist': [('Lbracket', 'Rbracket')]},
 'E4-parenthesised-function-name': {'func': [('pname', 'Lparen', 'Rparen'), ('pname', 'Lparen', 'args', 'Rparen')], 'pname': [('Lparen', 'ident', 'Rparen'), ('Lparen', 'pname', 'Rparen')]},
 'E5-multiselect-after-projection': {'expr': [('proj', 'mlist')], 'proj': [('expr', 'Lbracket', 'Star', 'Rbracket'), ('Lbracket', 'Star', 'Rbracket'), ('expr', 'Flatten'), ('Flatten',),
                                                                        ('expr', 'Filter', 'expr', 'Rbracket'), ('Filter', 'expr', 'Rbracket'), ('expr', 'Dot', 'Star'), ('Star',),
                                                                        ('expr', 'Lbracket', 'slice', 'Rbracket'), ('Lbracket', 'slice', 'Rbracket')]},
 'E13-expref-outside-arguments': {'expr': [('Ampersand', 'expr')], 'subrhs': [('Ampersand', 'expr')]},
}
def grammar(exts=()):
    g = {k: list(v) for k, v in G.items()}
    for e in exts:
        for nt, alts in EXT[e].items(): g.setdefault(nt, []).extend(alts)
    return g

def _nullable(g, sym): return sym in g and any(a == () for a in g[sym])

def accepts(tokens, g=None):
    """concrete recogniser: the same construction as member_term, evaluated on known token kinds"""
    toks = list(tokens)
    return z3.is_true(z3.simplify(member_term(toks, lambda i, name: toks[i] == name, g)))

def member_term(kinds, is_tok, g=None):
    """kinds: list of per-position handles; is_tok(i, name) -> z3 Bool / python bool. Returns z3 Bool: the sequence derives 'expr'.
    Unit cycles do not occur in G (no nonterminal derives itself by unit productions), so the recursion over (symbol, span) is well founded
    once left-recursive alternatives are required to consume at least one token on their right."""
    g = g or G; n = len(kinds)
    T, F = z3.BoolVal(True), z3.BoolVal(False)
    @functools.lru_cache(maxsize=None)
    def d(sym, i, j):
        if sym not in g:
            if j != i + 1: return F
            r = is_tok(i, sym); return (T if r else F) if isinstance(r, bool) else r
        alts = [seq(alt, i, j) for alt in g[sym]]
        alts = [a for a in alts if not z3.is_false(a)]
        if not alts: return F
        if any(z3.is_true(a) for a in alts): return T
        return z3.Or(*alts) if len(alts) > 1 else alts[0]
    @functools.lru_cache(maxsize=None)
    def seq(alt, i, j):
        if not alt: return T if i == j else F
        first, rest = alt[0], alt[1:]
        if not rest: return d(first, i, j) if (j > i or _nullable(g, first)) else F
        minrest = sum(0 if _nullable(g, x) else 1 for x in rest)
        lo = i if _nullable(g, first) else i + 1
        terms = []
        for k in range(lo, j - minrest + 1):
            a = d(first, i, k) if (k > i or _nullable(g, first)) else F
            if z3.is_false(a): continue
            b = seq(rest, k, j)
            if z3.is_false(b): continue
            terms.append(b if z3.is_true(a) else (a if z3.is_true(b) else z3.And(a, b)))
        if not terms: return F
        return z3.Or(*terms) if len(terms) > 1 else terms[0]
    return d('expr', 0, n) if n else F

# =====================================================================================================
# Reference parser: precedence climbing from the binding-power order of property C04
#   pipe < or < and < comparison < flatten < wildcard/filter < dot < not < bracket < call ; binary operators left-associative ;
#   a projection's right-hand side extends until a token that binds looser than a projection.
# Produces trees in the crate's node vocabulary (offsets erased), see DESIGN C04 for the mapping.
# =====================================================================================================
BP = {'Pipe': 1, 'Or': 2, 'And': 3, 'Eq': 5, 'Ne': 5, 'Lt': 5, 'Lte': 5, 'Gt': 5, 'Gte': 5, 'Flatten': 9, 'Star': 20, 'Filter': 21, 'Dot': 40, 'Not': 45,
      'Lbrace': 50, 'Lbracket': 55, 'Lparen': 60}
PROJ_STOP = 10
CMPNAME = {'Eq': 'Equal', 'Ne': 'NotEqual', 'Lt': 'LessThan', 'Lte': 'LessThanEqual', 'Gt': 'GreaterThan', 'Gte': 'GreaterThanEqual'}
class RefError(Exception): pass
class RefParser:
    """tokens: list of (kind, payload). payload identifies the token (name / number handle / literal handle)."""
    def __init__(s, tokens): s.t = list(tokens) + [('Eof', None)]; s.i = 0
    def peek(s, k=0): return s.t[min(s.i + k, len(s.t) - 1)][0]
    def next(s):
        tk = s.t[min(s.i, len(s.t) - 1)]; s.i += 1; return tk
    def expect(s, kind):
        k, p = s.next()
        if k != kind: raise RefError(f'expected {kind}, found {k}')
        return p
    def bp(s, kind): return BP.get(kind, 0)
    def parse(s):
        e = s.expr(0)
        if s.peek() != 'Eof': raise RefError('trailing tokens')
        return e
    def expr(s, rbp):
        left = s.nud()
        while rbp < s.bp(s.peek()): left = s.led(left)
        return left
    def nud(s):
        k, p = s.next()
        if k == 'At': return ('Identity',)
        if k == 'Identifier': return ('Field', p)
        if k == 'QuotedIdentifier':
            if s.peek() == 'Lparen': raise RefError('quoted identifier is not a function name')
            return ('Field', p)
        if k == 'Star': return ('Projection', ('ObjectValues', ('Identity',)), s.proj_rhs(BP['Star']))
        if k == 'Literal': return ('Literal', p)
        if k == 'Lbracket':
            if s.peek() in ('Number', 'Colon'): return s.index_or_slice()
            if s.peek() == 'Star' and s.peek(1) == 'Rbracket':
                s.next(); s.next(); return ('Projection', ('Identity',), s.proj_rhs(BP['Star']))
            return ('MultiList', tuple(s.list_until('Rbracket', allow_empty=False, allow_expref=False)))
        if k == 'Flatten': return ('Projection', ('Flatten', ('Identity',)), s.proj_rhs(BP['Flatten']))
        if k == 'Lbrace': return s.multihash()
        if k == 'Not': return ('Not', strip(s.expr(BP['Not'])))
        if k == 'Filter': return s.filter(('Identity',))
        if k == 'Lparen':
            e = s.expr(0); s.expect('Rparen'); return ('Paren', e)
        raise RefError(f'unexpected token {k}')
    def led(s, left):
        k, p = s.next()
        if k == 'Dot':
            if s.peek() == 'Star':
                s.next(); return ('Projection', ('ObjectValues', strip(left)), s.proj_rhs(BP['Star']))
            return ('Subexpr', strip(left), s.dot_rhs(BP['Dot']))
        if k == 'Lbracket':
            if s.peek() in ('Number', 'Colon'): return ('Subexpr', strip(left), s.index_or_slice())
            if s.peek() == 'Star':
                s.next(); s.expect('Rbracket'); return ('Projection', strip(left), s.proj_rhs(BP['Star']))
            raise RefError('expected number, colon or star after [')
        if k == 'Or': return ('Or', strip(left), strip(s.expr(BP['Or'])))
        if k == 'And': return ('And', strip(left), strip(s.expr(BP['And'])))
        if k == 'Pipe': return ('Subexpr', strip(left), strip(s.expr(BP['Pipe'])))
        if k in CMPNAME: return ('Comparison', CMPNAME[k], strip(left), strip(s.expr(BP['Eq'])))
        if k == 'Flatten': return ('Projection', ('Flatten', strip(left)), s.proj_rhs(BP['Flatten']))
        if k == 'Filter': return s.filter(strip(left))
        if k == 'Lparen':
            if left[0] != 'Field' or left[1][0] == 'q': raise RefError('only an unquoted identifier can be called')
            return ('Function', left[1], tuple(s.list_until('Rparen', allow_empty=True, allow_expref=True)))
        raise RefError(f'unexpected infix token {k}')
    def dot_rhs(s, bp):
        k = s.peek()
        if k == 'Lbracket':
            s.next(); return ('MultiList', tuple(s.list_until('Rbracket', allow_empty=False, allow_expref=False)))
        if k in ('Identifier', 'QuotedIdentifier', 'Star', 'Lbrace'): return strip(s.expr(bp))
        raise RefError('bad token after dot')
    def proj_rhs(s, bp):
        k = s.peek()
        if s.bp(k) < PROJ_STOP: return ('Identity',)
        if k == 'Dot':
            s.next(); return s.dot_rhs(bp)
        if k in ('Lbracket', 'Filter'):
            if k == 'Lbracket' and not (s.peek(1) in ('Number', 'Colon') or (s.peek(1) == 'Star' and s.peek(2) == 'Rbracket')):
                raise RefError('a multi-select cannot follow a projection directly')
            return strip(s.expr(bp))
        raise RefError('bad token after projection')
    def filter(s, left):
        cond = strip(s.expr(0)); s.expect('Rbracket')
        return ('Projection', left, ('Condition', cond, s.proj_rhs(BP['Filter'])))
    def index_or_slice(s):
        parts = [None, None, None]; pos = 0; seen_colon = False
        while True:
            k, p = s.next()
            if k == 'Number':
                if parts[pos] is not None: raise RefError('two numbers')
                parts[pos] = p
                if s.peek() not in ('Colon', 'Rbracket'): raise RefError('expected : or ]')
            elif k == 'Colon':
                pos += 1; seen_colon = True
                if pos > 2: raise RefError('too many colons')
            elif k == 'Rbracket': break
            else: raise RefError('bad token in brackets')
        if not seen_colon:
            if parts[0] is None: raise RefError('empty brackets')
            return ('Index', parts[0])
        return ('Projection', ('Slice', parts[0], parts[1], parts[2] if parts[2] is not None else 'ONE'), s.proj_rhs(BP['Star']))
    def list_until(s, closing, allow_empty, allow_expref):
        out = []
        if s.peek() == closing:
            if not allow_empty: raise RefError('empty list')
            s.next(); return out
        while True:
            if s.peek() == 'Ampersand':
                if not allow_expref: raise RefError('expression reference outside a function argument list')
                s.next(); out.append(('Expref', strip(s.expr(0))))
            else: out.append(strip(s.expr(0)))
            k, p = s.next()
            if k == closing: return out
            if k != 'Comma': raise RefError('expected , or closing')
    def multihash(s):
        pairs = []
        while True:
            k, p = s.next()
            if k not in ('Identifier', 'QuotedIdentifier'): raise RefError('key expected')
            s.expect('Colon'); pairs.append((p, strip(s.expr(0))))
            k, _ = s.next()
            if k == 'Rbrace': return ('MultiHash', tuple(pairs))
            if k != 'Comma': raise RefError('expected , or }')
def strip(t):
    """parentheses only group: ('Paren', e) -> e"""
    while t[0] == 'Paren': t = t[1]
    return t
def deep_strip(t):
    if isinstance(t, tuple):
        t = strip(t) if t and t[0] == 'Paren' else t
        return tuple(deep_strip(x) for x in t)
    return t
def ref_parse(tokens): return deep_strip(RefParser(tokens).parse())
