"""./check <ID> --replay <file>: re-run a recorded counterexample on the native build (dev and release)."""
import json, sys
from . import native as nat
def main(pid, path):
    rec = json.load(open(path))
    nat.build_driver(('dev', 'release'))
    rc = 0
    for prof in ('dev', 'release'):
        n = nat.Native(prof); obs = n.request(rec['request']); n.close()
        print(f'[{prof}] request={json.dumps(rec["request"])[:300]}')
        print(f'[{prof}] observed={json.dumps(obs)[:600]}')
    print(f'expected (by the property): {json.dumps(rec.get("expected"))[:600]}')
    print(f'recorded observation      : {json.dumps(rec.get("observed"))[:600]}')
    return 0
