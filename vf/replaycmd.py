"""./check <ID> --replay <file>: re-run a recorded counterexample on the native build (dev and release)."""
import json, sys
from . import native as nat
def main(pid, path):
    rec = json.load(open(path))
    nat.build_driver(('dev', 'release'))
    rc = 0
    if rec['request'].get('op') == 'cli':          # C18: the real jp binary vs the library in-process
        from harness import c18
        for prof in ('dev', 'release'):
            a = c18.run_jp(rec['request'], prof); n = nat.Native(prof)
            lib = n.request({'op': 'cli_oracle', 'expr': rec['request']['expr'], 'json': rec['request']['json'], 'unquoted': rec['request']['unquoted'], 'ast': rec['request']['ast']}); n.close()
            print(f'[{prof}] invocation={json.dumps(rec["request"])[:400]}')
            print(f'[{prof}] jp={json.dumps(a)[:600]}')
            print(f'[{prof}] library={json.dumps(lib)[:600]}  verdict={c18.native_verdict(rec["request"], a, lib)}')
        return 0
    for prof in ('dev', 'release'):
        n = nat.Native(prof); obs = n.request(rec['request']); n.close()
        print(f'[{prof}] request={json.dumps(rec["request"])[:300]}')
        print(f'[{prof}] observed={json.dumps(obs)[:600]}')
    print(f'expected (by the property): {json.dumps(rec.get("expected"))[:600]}')
    print(f'recorded observation      : {json.dumps(rec.get("observed"))[:600]}')
    return 0
