"""Regenerate the encoding inputs from /repo's *current working tree*: MIR text via the nightly toolchain
(-Zunpretty=mir), and the enum/struct declaration tables from the sources.  Nothing is cached between runs."""
import os, subprocess, tempfile, shutil, hashlib, time, sys
REPO = os.environ.get('VERIF_REPO', '/repo')
CRATE = os.path.join(REPO, 'jmespath')
VERIF = os.path.dirname(os.path.dirname(os.path.abspath(__file__)))
EVIDENCE_DIR = os.environ.get('VERIF_EVIDENCE_DIR') or os.path.join(VERIF, 'evidence')

def crate_copy(name):
    """/verif/<name> (replay | kani) as it is when the repository under test is /repo; for another tree (VERIF_REPO, used only to
    evaluate seeded changes in scratch worktrees) a scratch copy whose path dependency points there."""
    src = os.path.join(VERIF, name)
    if os.path.realpath(REPO) == '/repo': return src
    import hashlib, shutil
    dst = os.path.join(os.environ.get('VERIF_SCRATCH') or '/var/tmp', 'jmverif-' + name + '-' + hashlib.sha1(REPO.encode()).hexdigest()[:10])
    os.makedirs(os.path.join(dst, 'src'), exist_ok=True)
    for f in ['Cargo.toml', 'Cargo.lock'] + ['src/' + x for x in os.listdir(os.path.join(src, 'src'))]:
        txt = open(os.path.join(src, f)).read()
        if f == 'Cargo.toml': txt = txt.replace('/repo/jmespath', CRATE)
        if not os.path.exists(os.path.join(dst, f)) or open(os.path.join(dst, f)).read() != txt: open(os.path.join(dst, f), 'w').write(txt)
    return dst

def scratch_dir(prefix='jmverif-'):
    base = os.environ.get('VERIF_SCRATCH') or os.environ.get('TMPDIR') or '/var/tmp'
    os.makedirs(base, exist_ok=True)
    return tempfile.mkdtemp(prefix=prefix, dir=base)

def cargo_env(extra=None):
    env = dict(os.environ, CARGO_NET_OFFLINE='true')
    env.pop('RUSTFLAGS', None)
    if extra: env.update(extra)
    return env

def mir_text(features=()):
    """returns (mir_text, sha256, seconds). Builds in a scratch target dir that is removed afterwards."""
    t0 = time.time()
    d = scratch_dir('jmverif-mir-')
    try:
        cmd = ['cargo', '+nightly', 'rustc', '--offline', '--lib']
        if features: cmd += ['--features', ','.join(features)]
        cmd += ['--', '-Zunpretty=mir', '-C', 'debug-assertions=off', '-C', 'overflow-checks=on']
        r = subprocess.run(cmd, cwd=CRATE, env=cargo_env({'CARGO_TARGET_DIR': os.path.join(d, 'target')}), capture_output=True, text=True)
        if r.returncode != 0 or 'fn ' not in r.stdout:
            sys.stderr.write(r.stderr[-4000:])
            raise RuntimeError('MIR generation failed (does /repo compile on nightly?)')
        txt = r.stdout
    finally:
        shutil.rmtree(d, ignore_errors=True)
    return txt, hashlib.sha256(txt.encode()).hexdigest(), time.time() - t0

def load_program(features=()):
    from mirsym import core, models  # noqa: F401  (models registers itself)
    txt, sha, secs = mir_text(features)
    decls = core.Decls(CRATE)
    prog = core.Program(txt, decls)
    prog.mir_sha = sha; prog.mir_secs = secs; prog.mir_lines = txt.count('\n'); prog.features = tuple(features)
    return prog

# ---------------------------------------------------------------------------------------------- the jp command-line tool (C18)
CLI = os.path.join(REPO, 'jmespath-cli')
def cli_copy():
    """a scratch copy of /repo/jmespath-cli (src + Cargo.toml, path dependency rewritten to the crate under test, own [workspace], no lock file:
    the lock file in the repository pins crates that are not in the offline cache). Re-synchronised from /repo on every call."""
    dst = os.path.join(os.environ.get('VERIF_SCRATCH') or '/var/tmp', 'jmverif-cli-' + hashlib.sha1(REPO.encode()).hexdigest()[:10])
    os.makedirs(os.path.join(dst, 'src'), exist_ok=True)
    toml = open(os.path.join(CLI, 'Cargo.toml')).read().replace('path = "../jmespath"', f'path = "{CRATE}"') + '\n[workspace]\n'
    files = {'Cargo.toml': toml}
    for f in os.listdir(os.path.join(CLI, 'src')): files['src/' + f] = open(os.path.join(CLI, 'src', f)).read()
    for f, txt in files.items():
        p = os.path.join(dst, f)
        if not os.path.exists(p) or open(p).read() != txt: open(p, 'w').write(txt)
    for f in os.listdir(os.path.join(dst, 'src')):
        if 'src/' + f not in files: os.remove(os.path.join(dst, 'src', f))
    return dst

def cli_mir_text():
    t0 = time.time(); d = cli_copy(); td = scratch_dir('jmverif-climir-')
    try:
        cmd = ['cargo', '+nightly', 'rustc', '--offline', '--bin', 'jp', '--', '-Zunpretty=mir', '-C', 'debug-assertions=off', '-C', 'overflow-checks=on']
        r = subprocess.run(cmd, cwd=d, env=cargo_env({'CARGO_TARGET_DIR': os.path.join(td, 'target')}), capture_output=True, text=True)
        if r.returncode != 0 or 'fn main' not in r.stdout:
            sys.stderr.write(r.stderr[-4000:]); raise RuntimeError('MIR generation for jmespath-cli failed')
        txt = r.stdout
    finally:
        shutil.rmtree(td, ignore_errors=True)
    return txt, hashlib.sha256(txt.encode()).hexdigest(), time.time() - t0

def cli_binary(profile='dev'):
    """build the real jp binary (stable toolchain) from the scratch copy; returns its path"""
    d = cli_copy()
    cmd = ['cargo', 'build', '--offline', '--quiet'] + (['--release'] if profile == 'release' else [])
    r = subprocess.run(cmd, cwd=d, env=cargo_env(), capture_output=True, text=True)
    if r.returncode != 0:
        sys.stderr.write(r.stderr[-3000:]); raise RuntimeError('jp build failed')
    return os.path.join(d, 'target', 'debug' if profile == 'dev' else 'release', 'jp')

def load_cli_program():
    """library MIR + CLI MIR in one program (the CLI's calls into the library resolve to the library's MIR)"""
    from mirsym import core, models  # noqa: F401
    lib, sha1, s1 = mir_text(())
    cli, sha2, s2 = cli_mir_text()
    decls = core.Decls(CRATE)
    prog = core.Program(lib + '\n' + cli, decls)
    prog.mir_sha = hashlib.sha256((sha1 + sha2).encode()).hexdigest(); prog.mir_secs = s1 + s2; prog.mir_lines = lib.count('\n') + cli.count('\n'); prog.features = ()
    prog.cli_fns = [l.split('(')[0][3:] for l in cli.split('\n') if l.startswith('fn ')]
    return prog
