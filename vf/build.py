"""Regenerate the encoding inputs from /repo's *current working tree*: MIR text via the nightly toolchain
(-Zunpretty=mir), and the enum/struct declaration tables from the sources.  Nothing is cached between runs."""
import os, subprocess, tempfile, shutil, hashlib, time, sys
REPO = os.environ.get('VERIF_REPO', '/repo')
CRATE = os.path.join(REPO, 'jmespath')
VERIF = os.path.dirname(os.path.dirname(os.path.abspath(__file__)))
EVIDENCE_DIR = os.environ.get('VERIF_EVIDENCE_DIR') or os.path.join(VERIF, 'evidence')

def crate_copy(name):
    """/verif/<name> (replay | kani) as it is when the repository under test is /repo; for another tree (VERIF_REPO, used only to
    evaluate seeded changes in scratch worktrees) a scratch copy whose path dependency points there."""
    src = os.path.join(VERIF, name)
    if os.path.realpath(REPO) == '/repo': return src
    import hashlib, shutil
    dst = os.path.join(os.environ.get('VERIF_SCRATCH') or '/var/tmp', 'jmverif-' + name + '-' + hashlib.sha1(REPO.encode()).hexdigest()[:10])
    os.makedirs(os.path.join(dst, 'src'), exist_ok=True)
    for f in ['Cargo.toml', 'Cargo.lock'] + ['src/' + x for x in os.listdir(os.path.join(src, 'src'))]:
        txt = open(os.path.join(src, f)).read()
        if f == 'Cargo.toml': txt = txt.replace('/repo/jmespath', CRATE)
        if not os.path.exists(os.path.join(dst, f)) or open(os.path.join(dst, f)).read() != txt: open(os.path.join(dst, f), 'w').write(txt)
    return dst

def scratch_dir(prefix='jmverif-'):
    base = os.environ.get('VERIF_SCRATCH') or os.environ.get('TMPDIR') or '/var/tmp'
    os.makedirs(base, exist_ok=True)
    return tempfile.mkdtemp(prefix=prefix, dir=base)

def cargo_env(extra=None):
    env = dict(os.environ, CARGO_NET_OFFLINE='true')
    env.pop('RUSTFLAGS', None)
    if extra: env.update(extra)
    return env

def mir_text(features=()):
    """returns (mir_text, sha256, seconds). Builds in a scratch target dir that is removed afterwards."""
    t0 = time.time()
    d = scratch_dir('jmverif-mir-')
    try:
        cmd = ['cargo', '+nightly', 'rustc', '--offline', '--lib']
        if features: cmd += ['--features', ','.join(features)]
        cmd += ['--', '-Zunpretty=mir', '-C', 'debug-assertions=off', '-C', 'overflow-checks=on']
        r = subprocess.run(cmd, cwd=CRATE, env=cargo_env({'CARGO_TARGET_DIR': os.path.join(d, 'target')}), capture_output=True, text=True)
        if r.returncode != 0 or 'fn ' not in r.stdout:
            sys.stderr.write(r.stderr[-4000:])
            raise RuntimeError('MIR generation failed (does /repo compile on nightly?)')
        txt = r.stdout
    finally:
        shutil.rmtree(d, ignore_errors=True)
    return txt, hashlib.sha256(txt.encode()).hexdigest(), time.time() - t0

def load_program(features=()):
    from mirsym import core, models  # noqa: F401  (models registers itself)
    txt, sha, secs = mir_text(features)
    decls = core.Decls(CRATE)
    prog = core.Program(txt, decls)
    prog.mir_sha = sha; prog.mir_secs = secs; prog.mir_lines = txt.count('\n'); prog.features = tuple(features)
    return prog
