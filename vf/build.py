"""Regenerate the encoding inputs from /repo's *current working tree*: MIR text via the nightly toolchain
(-Zunpretty=mir), and the enum/struct declaration tables from the sources.  Nothing is cached between runs."""
import os, subprocess, tempfile, shutil, hashlib, time, sys
REPO = os.environ.get('VERIF_REPO', '/repo')
CRATE = os.path.join(REPO, 'jmespath')
VERIF = os.path.dirname(os.path.dirname(os.path.abspath(__file__)))

def scratch_dir(prefix='jmverif-'):
    base = os.environ.get('VERIF_SCRATCH') or os.environ.get('TMPDIR') or '/var/tmp'
    os.makedirs(base, exist_ok=True)
    return tempfile.mkdtemp(prefix=prefix, dir=base)

def cargo_env(extra=None):
    env = dict(os.environ, CARGO_NET_OFFLINE='true')
    env.pop('RUSTFLAGS', None)
    if extra: env.update(extra)
    return env

def mir_text(features=()):
    """returns (mir_text, sha256, seconds). Builds in a scratch target dir that is removed afterwards."""
    t0 = time.time()
    d = scratch_dir('jmverif-mir-')
    try:
        cmd = ['cargo', '+nightly', 'rustc', '--offline', '--lib']
        if features: cmd += ['--features', ','.join(features)]
        cmd += ['--', '-Zunpretty=mir', '-C', 'debug-assertions=off', '-C', 'overflow-checks=on']
        r = subprocess.run(cmd, cwd=CRATE, env=cargo_env({'CARGO_TARGET_DIR': os.path.join(d, 'target')}), capture_output=True, text=True)
        if r.returncode != 0 or 'fn ' not in r.stdout:
            sys.stderr.write(r.stderr[-4000:])
            raise RuntimeError('MIR generation failed (does /repo compile on nightly?)')
        txt = r.stdout
    finally:
        shutil.rmtree(d, ignore_errors=True)
    return txt, hashlib.sha256(txt.encode()).hexdigest(), time.time() - t0

def load_program(features=()):
    from mirsym import core, models  # noqa: F401  (models registers itself)
    txt, sha, secs = mir_text(features)
    decls = core.Decls(CRATE)
    prog = core.Program(txt, decls)
    prog.mir_sha = sha; prog.mir_secs = secs; prog.mir_lines = txt.count('\n'); prog.features = tuple(features)
    return prog
