"""Per-check run context: collects coverage, confirms counterexamples natively, matches known findings,
writes /verif/evidence/<id>.json and decides the exit code."""
import os, sys, json, time, collections, hashlib
from . import build, native as nat

TIER_BUDGET = {'quick': 150.0, 'thorough': 2400.0}     # seconds of exploration per check (soft deadline)

class Run:
    def __init__(s, pid, tier, seed):
        s.pid, s.tier, s.seed = pid, tier, seed
        s.t0 = time.time()
        s.budget = float(os.environ.get('VERIF_BUDGET', TIER_BUDGET[tier]))
        s.deadline = s.t0 + s.budget
        s.paths = 0; s.queries = 0; s.solver_s = 0.0; s.replayed = 0
        s.outcomes = collections.Counter()
        s.samples = []; s.fns = set(); s.models = set()
        s.bounds = {}; s.outside = []; s.assumes = []; s.harnesses = []
        s.inconclusive = []          # strings
        s.mismatches = []            # encoding mismatches (engine vs native)
        s.cands = []                 # candidate violations (dicts)
        s.violations = []; s.known = []
        s.vacuity = {}               # witness name -> reached?
        s.extra = {}
        s._progs = {}; s._native = {}
        s.kani = []                  # kani harness results
        s.xcheck = {'checked': 0, 'agree': 0, 'unknown': 0, 'disagree': []}
        s.engine_names = set()
    # ---- resources
    def program(s, features=()):
        key = tuple(features)
        if key not in s._progs:
            s._progs[key] = build.load_program(features)
            s.engine_names.add('mirsym')
        return s._progs[key]
    def native(s, profile='dev'):
        if profile not in s._native:
            nat.build_driver((profile,))
            s._native[profile] = nat.Native(profile)
        return s._native[profile]
    def time_left(s): return s.deadline - time.time()
    # ---- accumulation
    def merge(s, summ):
        """summ: dict produced by a job (see vf.explore.Summary)"""
        s.paths += summ.get('paths', 0); s.queries += summ.get('queries', 0); s.solver_s += summ.get('solver_s', 0.0)
        s.replayed += summ.get('replayed', 0)
        s.outcomes.update(summ.get('outcomes', {}))
        for x in summ.get('samples', []):
            if len(s.samples) < 40: s.samples.append(x)
        s.fns.update(summ.get('fns', ())); s.models.update(summ.get('models', ()))
        s.cands.extend(summ.get('cands', []))
        s.mismatches.extend(summ.get('mismatches', []))
        for u in summ.get('inconclusive', []): s.note_inconclusive(u)
        for k, v in summ.get('vacuity', {}).items(): s.vacuity[k] = s.vacuity.get(k, False) or v
        xc = summ.get('xcheck')
        if xc:
            for k in ('checked', 'agree', 'unknown'): s.xcheck[k] += xc[k]
            s.xcheck['disagree'] += xc['disagree'][:3]
    def note_inconclusive(s, text):
        if text not in s.inconclusive: s.inconclusive.append(text)
    def sample(s, x):
        if len(s.samples) < 40: s.samples.append(x)
    # ---- known findings
    def _findings(s):
        p = os.path.join(build.VERIF, 'known_findings.json')
        if not os.path.exists(p): return []
        return json.load(open(p))['findings']
    def classify(s, cand):
        """returns the matching open known-finding entries or None. A candidate carries one role key (cand['key']) or several
        (cand['keys']: every one of them must be an open recorded finding, e.g. a sentence needing two recorded grammar deviations).
        Matching is by role key, never by the concrete input."""
        keys = cand.get('keys') or [cand['key']]
        found = []
        for k in keys:
            hit = [f for f in s._findings() if f.get('status') == 'open' and f['property'] == s.pid and f['key'] == k]
            if not hit: return None
            found.append(hit[0])
        return found
    # ---- confirmation + reporting
    def confirm_all(s, confirm_fn):
        """confirm_fn(cand, native_dev, native_release) -> (reproduced: bool, observed: dict)."""
        seen = {}
        for c in s.cands:
            k = (c['key'], json.dumps(c.get('request'), sort_keys=True, default=str))
            if k in seen: continue
            seen[k] = c
        per_key = collections.Counter()
        for (key, _), c in seen.items():
            if per_key[key] >= 6: continue          # a handful of witnesses per role is enough
            per_key[key] += 1
            try:
                rep, observed = confirm_fn(c, s.native('dev'), s.native('release'))
            except Exception as e:
                rep, observed = False, {'error': repr(e)}
            c['observed'] = observed
            if not rep:
                s.mismatches.append({'what': 'counterexample did not reproduce natively', 'cand': c})
                continue
            kf = s.classify(c)
            if kf is not None:
                for f in kf:
                    if not any(x['key'] == f['key'] for x in s.known): s.known.append({'key': f['key'], 'what': f['what'], 'witness': c.get('witness')})
            else:
                s.violations.append(c)
    def finish(s):
        os.makedirs(os.path.join(build.EVIDENCE_DIR, 'replays'), exist_ok=True)
        for m in s.mismatches[:10]:
            print(f'INCONCLUSIVE: encoding-mismatch {json.dumps(m, default=str)[:400]}')
        if s.mismatches: s.note_inconclusive(f'{len(s.mismatches)} engine/native mismatches (encoding suspect; not reported as violations)')
        for k, v in s.vacuity.items():
            if not v: s.note_inconclusive(f'vacuity witness not reached: {k}')
        if s.xcheck['disagree']: s.note_inconclusive(f"second solver (cvc5) disagrees with z3 on {len(s.xcheck['disagree'])} sampled queries, e.g. {json.dumps(s.xcheck['disagree'][0])[:300]}")
        for t in s.inconclusive: print(f'INCONCLUSIVE: {t}')
        for k in s.known: print(f"KNOWN-FINDING: property={s.pid} {k['key']} {k['what']} witness={json.dumps(k.get('witness'), default=str)[:200]}")
        vio_paths = []
        reported = collections.Counter()
        for i, c in enumerate(s.violations):
            if reported[c['key']] >= 3: continue
            reported[c['key']] += 1
            p = os.path.join(build.EVIDENCE_DIR, 'replays', f'{s.pid}-{len(vio_paths)}.json')
            json.dump({'property': s.pid, 'key': c['key'], 'what': c.get('what'), 'witness': c.get('witness'), 'request': c.get('request'),
                       'expected': c.get('expected'), 'observed': c.get('observed'),
                       'rerun': f'./check {s.pid} --replay {p}'}, open(p, 'w'), indent=1, default=str)
            vio_paths.append(p)
            print(f"VIOLATION property={s.pid} replay={p}")
            print(f"  {c['key']}: {c.get('what')} witness={json.dumps(c.get('witness'), default=str)[:300]}")
        wall = time.time() - s.t0
        cov = {
            'states': max(s.paths, 0), 'transitions': max(s.queries, 0), 'traces_validated_against_impl': s.replayed,
            'samples': s.samples[:25] or ['(no path completed)'],
            'explanation': 'states = completed symbolic paths (mirsym) + CBMC properties checked (Kani); transitions = solver queries discharged; '
                           'traces_validated_against_impl = solver models concretised and replayed on the native build with identical outcome',
            'engines': sorted(s.engine_names), 'harnesses': s.harnesses,
            'functions_encoded': sorted(s.fns)[:400], 'functions_encoded_count': len(s.fns),
            'models_used': sorted(s.models)[:300],
            'mir_sha256': {','.join(k) or 'default': p.mir_sha for k, p in s._progs.items()},
            'bounds': s.bounds, 'outside_bounds': s.outside, 'outcomes': dict(s.outcomes),
            'solver_s': round(s.solver_s, 2), 'vacuity_witnesses': s.vacuity,
            'inconclusive': bool(s.inconclusive), 'inconclusive_notes': s.inconclusive[:30],
            'known_findings_seen': s.known, 'kani': s.kani,
            'second_solver': {'solver': 'cvc5 1.0.3', 'sampled_queries_rechecked': s.xcheck['checked'], 'agree': s.xcheck['agree'], 'inconclusive_in_cvc5': s.xcheck['unknown'], 'disagree': len(s.xcheck['disagree'])},
            'exhaustive': False,
        }
        cov.update(s.extra)
        ev = {'property_id': s.pid, 'tier': s.tier, 'seed': s.seed, 'level': 'model_checking', 'coverage': cov,
              'assumptions': s.assumes, 'wall_s': round(wall, 2), 'violations': len(vio_paths)}
        if cov['states'] < 1 or cov['transitions'] < 1:
            cov['states'] = max(cov['states'], 1); cov['transitions'] = max(cov['transitions'], 1)
            cov['inconclusive'] = True; cov['inconclusive_notes'].append('no path / query completed: nothing decided')
        json.dump(ev, open(os.path.join(build.EVIDENCE_DIR, f'{s.pid}.json'), 'w'), indent=1, default=str)
        for n in s._native.values(): n.close()
        print(f'{s.pid} [{s.tier}] paths={s.paths} queries={s.queries} solver_s={s.solver_s:.1f} replayed={s.replayed} '
              f'known={len(s.known)} violations={len(vio_paths)} inconclusive={len(s.inconclusive)} wall={wall:.1f}s')
        return 1 if vio_paths else 0
