"""Native replay: talks to /verif/replay's driver built against /repo's current working tree."""
import os, subprocess, json, select, time, sys
from . import build
REPLAY_DIR = build.crate_copy('replay')

def _tdir(features): return 'target' if not features else 'target-' + '-'.join(features)
def build_driver(profiles=('dev',), features=()):
    """(re)build the driver; the path dependency makes cargo rebuild the crate from /repo's working tree. With features (C17) the crate is built with
    them (own target directory; `specialized` needs the nightly toolchain)."""
    out = {}
    for p in profiles:
        cmd = ['cargo'] + (['+nightly'] if 'specialized' in features else []) + ['build', '--offline', '--quiet'] + (['--release'] if p == 'release' else [])
        if features: cmd += ['--features', ','.join(features), '--target-dir', _tdir(features)]
        r = subprocess.run(cmd, cwd=REPLAY_DIR, env=build.cargo_env(), capture_output=True, text=True)
        if r.returncode != 0:
            sys.stderr.write(r.stderr[-3000:])
            raise RuntimeError('replay driver build failed')
        out[p] = os.path.join(REPLAY_DIR, _tdir(features), 'debug' if p == 'dev' else 'release', 'jmreplay')
    return out

class Native:
    def __init__(s, profile='dev', timeout=10.0, features=()):
        s.bin = os.path.join(REPLAY_DIR, _tdir(features), 'debug' if profile == 'dev' else 'release', 'jmreplay')
        s.timeout = timeout; s.p = None; s.n = 0; s.profile = profile
    def _start(s):
        s.p = subprocess.Popen([s.bin], stdin=subprocess.PIPE, stdout=subprocess.PIPE, stderr=subprocess.DEVNULL, text=True, bufsize=1)
    def request(s, req):
        if s.p is None or s.p.poll() is not None: s._start()
        s.n += 1
        try:
            s.p.stdin.write(json.dumps(req) + '\n'); s.p.stdin.flush()
        except BrokenPipeError:
            s.p = None; return {'kind': 'abort', 'message': 'driver died before request'}
        r, _, _ = select.select([s.p.stdout], [], [], s.timeout)
        if not r:
            s.p.kill(); s.p.wait(); s.p = None
            return {'kind': 'hang', 'message': f'no answer within {s.timeout}s'}
        line = s.p.stdout.readline()
        if not line:
            rc = s.p.wait(); s.p = None
            return {'kind': 'abort', 'message': f'driver exited with {rc} (stack overflow / abort)'}
        return json.loads(line)
    def close(s):
        if s.p is not None:
            try: s.p.stdin.close(); s.p.wait(timeout=2)
            except Exception: s.p.kill()
            s.p = None

# ---- exact JSON <-> tagged numbers
def tag_num(kind, val):
    """kind: 'pos' | 'neg' | 'float' ; val: python int or float"""
    import struct
    if kind == 'pos': return {'$u': str(val)}
    if kind == 'neg': return {'$i': str(val)}
    return {'$f': '%016x' % struct.unpack('<Q', struct.pack('<d', val))[0]}
def untag(v):
    """tagged JSON -> (python json with exact ints/floats)"""
    import struct
    if isinstance(v, list): return [untag(x) for x in v]
    if isinstance(v, dict):
        if len(v) == 1:
            if '$u' in v: return int(v['$u'])
            if '$i' in v: return int(v['$i'])
            if '$f' in v: return struct.unpack('<d', struct.pack('<Q', int(v['$f'], 16)))[0]
        return {k: untag(x) for k, x in v.items()}
    return v
