"""fork-based parallel map: the task callable and the (large, read-only) program are inherited by fork."""
import multiprocessing as mp, os, traceback, sys
_TASK = None
def _run(item):
    try:
        return ('ok', _TASK(item))
    except BaseException as e:           # noqa
        return ('exc', f'{type(e).__name__}: {e}\n{traceback.format_exc()[-1500:]}')
def ncpu():
    try: n = len(os.sched_getaffinity(0))
    except Exception: n = os.cpu_count() or 1
    return max(1, min(16, n))
def pmap(task, items, nproc=None, chunksize=1):
    """returns list of ('ok', result) | ('exc', text) in item order"""
    global _TASK
    items = list(items)
    nproc = min(nproc or ncpu(), max(1, len(items)))
    _TASK = task
    if nproc <= 1 or os.environ.get('VERIF_SERIAL'):
        return [_run(i) for i in items]
    ctx = mp.get_context('fork')
    with ctx.Pool(nproc, maxtasksperchild=None) as pool:
        return pool.map(_run, items, chunksize)
def pmap_unordered(task, items, nproc=None):
    global _TASK
    items = list(items)
    nproc = min(nproc or ncpu(), max(1, len(items)))
    _TASK = task
    if nproc <= 1 or os.environ.get('VERIF_SERIAL'):
        for i in items: yield _run(i)
        return
    ctx = mp.get_context('fork')
    with ctx.Pool(nproc) as pool:
        for r in pool.imap_unordered(_run, items, 1): yield r
