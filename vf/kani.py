"""Engine K: run Kani proof harnesses of /verif/kani (path dependency on /repo/jmespath => current working tree),
parse CBMC's per-check verdicts, extract concrete counterexample values (-Z concrete-playback) for native replay."""
import os, re, subprocess, time, json, resource, concurrent.futures as cf
from . import build
KDIR = build.crate_copy('kani')

def _limits():
    gb = int(os.environ.get('VERIF_KANI_MEM_GB', '20'))
    resource.setrlimit(resource.RLIMIT_AS, (gb << 30, gb << 30))

def codegen(features=()):
    cmd = ['cargo', 'kani', '-Z', 'stubbing', '--only-codegen'] + (['--features', ','.join(features)] if features else [])
    t = time.time()
    r = subprocess.run(cmd, cwd=KDIR, env=build.cargo_env(), capture_output=True, text=True)
    return r.returncode == 0, (r.stdout + r.stderr)[-3000:], time.time() - t

CHECK_RE = re.compile(r'^Check (\d+): (\S+)\n\t - Status: (\w+)\n\t - Description: "(.*?)"\n(?:\t - Location: (.*?)\n)?', re.M)

def parse(out):
    checks = [{'id': m.group(2), 'status': m.group(3), 'desc': m.group(4), 'loc': m.group(5)} for m in CHECK_RE.finditer(out)]
    verdict = 'SUCCESSFUL' if 'VERIFICATION:- SUCCESSFUL' in out else ('FAILED' if 'VERIFICATION:- FAILED' in out else None)
    tm = re.search(r'Verification Time: ([\d.]+)s', out)
    return checks, verdict, float(tm.group(1)) if tm else None

def playback_values(out):
    """concrete values printed by --concrete-playback=print, in kani::any() order: list of byte lists"""
    m = re.search(r'let concrete_vals: Vec<Vec<u8>> = vec!\[(.*?)\];', out, re.S)
    if not m: return None
    vals = []
    for vm in re.finditer(r'vec!\[([\d, ]*)\]', m.group(1)):
        vals.append([int(x) for x in vm.group(1).split(',') if x.strip()])
    return vals

def run_one(name, timeout, features=(), playback=False):
    cmd = ['cargo', 'kani', '-Z', 'stubbing', '--harness', name, '--output-format', 'regular']
    if features: cmd += ['--features', ','.join(features)]
    if playback: cmd += ['-Z', 'concrete-playback', '--concrete-playback=print']
    t = time.time()
    try:
        p = subprocess.run(cmd, cwd=KDIR, env=build.cargo_env(), capture_output=True, text=True, timeout=timeout, preexec_fn=_limits)
        out = p.stdout + p.stderr; to = False
    except subprocess.TimeoutExpired as e:
        out = ((e.stdout or b'').decode(errors='replace') if isinstance(e.stdout, bytes) else (e.stdout or '')); to = True
    wall = time.time() - t
    checks, verdict, vt = parse(out)
    res = {'harness': name, 'wall_s': round(wall, 1), 'verification_s': vt, 'timeout': to, 'verdict': verdict, 'n_checks': len(checks),
           'failed': [c for c in checks if c['status'] == 'FAILURE'],
           'undetermined': [c for c in checks if c['status'] in ('UNDETERMINED', 'ERROR')],
           'covers': {c['desc']: c['status'] for c in checks if '.cover.' in c['id']},
           'tail': out[-1500:] if verdict is None else ''}
    if playback: res['values'] = playback_values(out)
    return res

def run_harnesses(run, names, timeout, features=(), tolerate=None, jobs=None):
    """names: harness function names. tolerate: {harness: [description substrings]} failed-check classes that are not Rust panics
    (CBMC's extra 'NaN on division' check). Returns list of results; failures carry playback values."""
    run.engine_names.add('kani')
    okc, log, secs = codegen(features)
    if not okc:
        run.note_inconclusive('kani codegen failed: ' + log[-400:]); return []
    tolerate = tolerate or {}
    jobs = jobs or max(1, min(len(names), int(os.environ.get('VERIF_KANI_JOBS', '8'))))
    results = []
    with cf.ThreadPoolExecutor(jobs) as ex:
        futs = {ex.submit(run_one, n, timeout, features): n for n in names}
        for f in cf.as_completed(futs): results.append(f.result())
    for r in results:
        tol = tolerate.get(r['harness'], []) + ['NaN on']
        real = [c for c in r['failed'] if not any(t in c['desc'] for t in tol)]
        r['tolerated'] = [c['desc'] for c in r['failed'] if c not in real]
        r['failed'] = real
        if r['timeout'] or r['verdict'] is None:
            run.note_inconclusive(f"kani {r['harness']}: {'timeout' if r['timeout'] else 'no verdict (OOM/error)'} after {r['wall_s']}s {r['tail'][-200:]!r}")
        elif r['undetermined']:
            run.note_inconclusive(f"kani {r['harness']}: {len(r['undetermined'])} checks undetermined, e.g. {r['undetermined'][0]['desc']}")
        for d, st in r['covers'].items():
            run.vacuity[f"kani {r['harness']}: {d}"] = (st == 'SATISFIED')
        if r['verdict'] is not None and not r['covers']:
            run.vacuity[f"kani {r['harness']}: (no cover witness)"] = False
        if real:
            pb = run_one(r['harness'], timeout, features, playback=True)
            r['values'] = pb.get('values')
        run.paths += r['n_checks']; run.queries += 1 if r['verdict'] else 0
        run.solver_s += r['verification_s'] or 0.0
        run.kani.append({k: r[k] for k in ('harness', 'wall_s', 'verification_s', 'verdict', 'n_checks', 'tolerated', 'covers')} | {'failed': [c['desc'] for c in real]})
    return results

# ---- decoding helpers for playback values (little endian)
def le(bs, signed=False): return int.from_bytes(bytes(bs), 'little', signed=signed)
def f64(bs):
    import struct
    return struct.unpack('<d', bytes(bs))[0]

def playback_native(name, features=(), values=None):
    """replay a Kani counterexample natively: a unit test feeding the concrete kani::any() values to the harness function is appended to the
    harness module, run with `cargo kani playback` (the crate under test is the native build, dev profile), and removed again.
    Returns (reproduced, output)."""
    import glob
    if values is None:
        r = run_one(name, 3600, features, playback=True); values = r.get('values')
    if not values: return False, 'no concrete values'
    src = None
    for pth in glob.glob(os.path.join(KDIR, 'src', '*.rs')):
        if re.search(r'\b' + re.escape(name) + r'\b', open(pth).read()): src = pth; break
    if src is None: return False, 'harness source not found'
    backup = open(src).read()
    vals = ', '.join('vec![' + ', '.join(str(b) for b in v) + ']' for v in values)
    test = f"\n#[test]\nfn kani_concrete_playback_verif() {{\n    let concrete_vals: Vec<Vec<u8>> = vec![{vals}];\n    kani::concrete_playback_run(concrete_vals, {name});\n}}\n"
    try:
        open(src, 'w').write(backup + test)
        cmd = ['cargo', 'kani', 'playback', '-Z', 'concrete-playback'] + (['--features', ','.join(features)] if features else []) + ['--', 'kani_concrete_playback_verif']
        p = subprocess.run(cmd, cwd=KDIR, env=build.cargo_env(), capture_output=True, text=True, timeout=1800)
        out = p.stdout + p.stderr
        ran = 'running 1 test' in out or 'test result' in out
        return (ran and ('FAILED' in out or 'panicked' in out or 'test failed' in out)), out
    finally:
        open(src, 'w').write(backup)

