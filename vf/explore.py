"""Job-level helpers: Summary (picklable), translator validation, common crate entry points through the engine."""
import time, json, glob, os, collections
import z3
from mirsym.core import *
from mirsym import models as MM, sym as SY
from . import build, native as nat

class Summary(dict):
    def __init__(s):
        super().__init__(paths=0, queries=0, solver_s=0.0, replayed=0, outcomes=collections.Counter(), samples=[], fns=set(), models=set(),
                         cands=[], mismatches=[], inconclusive=[], vacuity={})
    def absorb_engine(s, eng, q0=0, t0=0.0):
        s['queries'] += eng.queries - q0; s['solver_s'] += eng.qtime - t0
        s['fns'] |= eng.fn_used; s['models'] |= eng.models_used
        xc = s.setdefault('xcheck', {'checked': 0, 'agree': 0, 'unknown': 0, 'disagree': []})
        for k in ('checked', 'agree', 'unknown'): xc[k] += eng.xcheck[k]
        xc['disagree'] += eng.xcheck['disagree'][:3]
        if getattr(eng, 'no_model', 0): s.inconclusive(f'{eng.no_model} completed path(s) had no model under their completion constraints (nothing was reported for them)')
    def sample(s, x, cap=6):
        if len(s['samples']) < cap: s['samples'].append(x)
    def inconclusive(s, t):
        t = t[:300]
        if t not in s['inconclusive'] and len(s['inconclusive']) < 40: s['inconclusive'].append(t)
    def cand(s, key, what, witness, request, expected=None):
        if sum(1 for c in s['cands'] if c['key'] == key) < 8:
            s['cands'].append({'key': key, 'what': what, 'witness': witness, 'request': request, 'expected': expected})

_NATIVE = None
def worker_native():
    """per-process native driver (dev profile); the binary must have been built by the parent (run.native('dev'))"""
    global _NATIVE
    import os
    if _NATIVE is None or _NATIVE[0] != os.getpid():
        _NATIVE = (os.getpid(), nat.Native('dev'))
    return _NATIVE[1]

def short_unsupported(msg): return msg.split('   [in')[0][:160]

# ---------------------------------------------------------------- crate entry points
def mk_runtime(ex):
    rt = ex.call('Runtime::new', [])
    cell = Cell(rt)
    ex.call('Runtime::register_builtin_functions', [Ptr(cell)])
    return cell

def parse_expr(ex, expr):
    return ex.call('parse', [Ptr(Cell(rstr(expr)))])

def interpret(ex, ast, data_rc, expr, rtc):
    ctx = ex.call('Context::new', [Ptr(Cell(rstr(expr))), Ptr(rtc)])
    return ex.call('interpret', [Ptr(Cell(data_rc)), Ptr(Cell(ast)), Ptr(Cell(ctx))])

def reason_kind(e):
    """JmespathError value -> kind string as the replay driver reports it"""
    r = err_field(e, 'reason')
    if r.variant == 'Parse': return 'parse'
    k = r.fields[0].v.variant
    return {'InvalidSlice': 'invalid-slice', 'TooManyArguments': 'too-many-arguments', 'NotEnoughArguments': 'not-enough-arguments',
            'UnknownFunction': 'unknown-function', 'InvalidType': 'invalid-type', 'InvalidReturnType': 'invalid-return-type'}[k]
ERR_FIELDS = None
def err_field(e, name):
    # JmespathError field order is read from the source by Decls
    global ERR_FIELDS
    return e.fields[ERR_FIELDS.index(name)].v
def init_decls(prog):
    global ERR_FIELDS
    ERR_FIELDS = prog.decls.structs['JmespathError']

SUITE_KIND = {'parse': 'syntax', 'invalid-slice': 'invalid-value', 'too-many-arguments': 'invalid-arity', 'not-enough-arguments': 'invalid-arity',
              'unknown-function': 'unknown-function', 'invalid-type': 'invalid-type', 'invalid-return-type': 'invalid-type'}

def json_eq(a, b):
    if isinstance(a, bool) or isinstance(b, bool): return a is b
    if isinstance(a, (int, float)) and isinstance(b, (int, float)):
        return float(a) == float(b) or abs(float(a) - float(b)) <= 1e-9 * max(abs(a), abs(b))
    if type(a) != type(b): return False
    if isinstance(a, list): return len(a) == len(b) and all(json_eq(x, y) for x, y in zip(a, b))
    if isinstance(a, dict): return set(a) == set(b) and all(json_eq(a[k], b[k]) for k in a)
    return a == b

# ---------------------------------------------------------------- translator validation on the repo's compliance suite
def compliance_cases():
    out = []
    for f in sorted(glob.glob(os.path.join(build.CRATE, 'tests', 'compliance', '*.json'))):
        name = os.path.basename(f)
        if name == 'benchmarks.json': continue
        for si, suite in enumerate(json.load(open(f))):
            for ci, case in enumerate(suite['cases']):
                if 'result' in case or 'error' in case:
                    out.append((name, si, ci, case['expression'], suite['given'], case))
    return out

def tv_case(eng, expr, doc):
    """concrete (expr, doc) through parse -> interpret on the MIR. returns ('ok', pyjson) | ('err', kind) | ('compile-err', kind) | ('panic', msg) | ('unsupported', msg)"""
    res = {}
    def body(ex):
        r = parse_expr(ex, expr)
        if r.variant == 'Err': return ('compile-err', reason_kind(r.fields[0].v))
        rtc = mk_runtime(ex)
        data = Ptr(Cell(MM.py_to_variable(doc)), 'rc')
        out = interpret(ex, r.fields[0].v, data, expr, rtc)
        if out.variant == 'Err': return ('err', reason_kind(out.fields[0].v))
        return ('ok', MM.variable_to_py(ex, out.fields[0].v))
    def on_path(ex, r): res['r'] = r
    eng.explore(body, on_path)
    k, v = res['r']
    return v if k == 'ok' else (k, v)

def translator_validation(prog, cases):
    """runs in a worker: returns dict(total, passed, failed:[...], unsupported:[...])"""
    eng = Engine(prog); init_decls(prog)
    out = {'total': 0, 'passed': 0, 'failed': [], 'unsupported': [], 'queries': 0}
    for (name, si, ci, expr, doc, case) in cases:
        out['total'] += 1
        try:
            k, v = tv_case(eng, expr, doc)
        except Exception as e:
            out['unsupported'].append((name, expr, f'CRASH {type(e).__name__}: {e}'[:200])); continue
        if k == 'unsupported': out['unsupported'].append((name, expr, short_unsupported(v))); continue
        if 'error' in case:
            got = SUITE_KIND.get(v) if k in ('err', 'compile-err') else f'no-error({k})'
            okk = got == case['error']
        else:
            okk = k == 'ok' and json_eq(v, case['result'])
        if okk: out['passed'] += 1
        else: out['failed'].append((name, expr, str(case.get('result', case.get('error')))[:100], str((k, v))[:100]))
    out['fns'] = eng.fn_used; out['models'] = eng.models_used
    return out

def run_translator_validation(run, prog, every=8):
    """translator validation step shared by all mirsym checks: (rotating) subset of the compliance suite concretely through the MIR."""
    from . import par
    cases = compliance_cases()
    if every > 1: cases = [c for i, c in enumerate(cases) if (i + run.seed) % every == 0]
    n = par.ncpu(); chunks = [cases[i::n] for i in range(n)]
    tot = {'total': 0, 'passed': 0, 'failed': [], 'unsupported': []}
    for st, r in par.pmap(lambda ch: translator_validation(prog, ch), chunks):
        if st != 'ok': run.note_inconclusive('translator validation crashed: ' + r[:200]); continue
        tot['total'] += r['total']; tot['passed'] += r['passed']; tot['failed'] += r['failed']; tot['unsupported'] += r['unsupported']
        run.fns |= r['fns']; run.models |= r['models']
    run.extra['translator_validation'] = {'compliance_cases_through_encoder': tot['total'], 'reproduced': tot['passed'],
                                          'failed': tot['failed'][:10], 'unsupported': tot['unsupported'][:10]}
    if tot['failed']: run.note_inconclusive(f"translator validation: {len(tot['failed'])} compliance cases not reproduced by the encoder, e.g. {tot['failed'][0]}")
    if tot['unsupported']: run.note_inconclusive(f"translator validation: {len(tot['unsupported'])} cases hit unsupported constructs, e.g. {tot['unsupported'][0]}")
    return tot
