//! Native replay driver: executes requests (one JSON object per line) against the natively built crate from
//! /repo's current working tree and prints one JSON answer per line. Panics are caught and reported.
use jmespath::ast::Ast;
use jmespath::functions::{ArgumentType, CustomFunction, Signature};
use jmespath::{Context, ErrorReason, JmespathError, Rcvar, Runtime, RuntimeError, Variable};
use serde_json::{json, Value};
use std::collections::BTreeMap;
use std::io::{self, BufRead, Write};
use std::sync::{Arc, Mutex};

/// JSON with tagged numbers -> Variable. {"$u":"123"} {"$i":"-5"} {"$f":"<hex bits>"} are exact numbers.
fn to_var(v: &Value) -> Rcvar {
    Rcvar::new(match v {
        Value::Null => Variable::Null,
        Value::Bool(b) => Variable::Bool(*b),
        Value::Number(n) => Variable::Number(n.clone()),
        Value::String(s) => Variable::String(s.clone()),
        Value::Array(a) => Variable::Array(a.iter().map(to_var).collect()),
        Value::Object(o) => {
            if o.len() == 1 {
                if let Some(Value::String(s)) = o.get("$u") {
                    return Rcvar::new(Variable::Number(serde_json::Number::from(s.parse::<u64>().unwrap())));
                }
                if let Some(Value::String(s)) = o.get("$i") {
                    return Rcvar::new(Variable::Number(serde_json::Number::from(s.parse::<i64>().unwrap())));
                }
                if let Some(Value::String(s)) = o.get("$f") {
                    let f = f64::from_bits(u64::from_str_radix(s, 16).unwrap());
                    return Rcvar::new(Variable::Number(serde_json::Number::from_f64(f).unwrap()));
                }
                if let Some(Value::String(s)) = o.get("$expref") {
                    let ast = jmespath::parse(s).unwrap();
                    return Rcvar::new(Variable::Expref(ast));
                }
            }
            let mut m = BTreeMap::new();
            for (k, x) in o.iter() {
                m.insert(k.clone(), to_var(x));
            }
            Variable::Object(m)
        }
    })
}

/// Variable -> JSON with tagged numbers (exact).
fn from_var(v: &Variable) -> Value {
    match v {
        Variable::Null => Value::Null,
        Variable::Bool(b) => Value::Bool(*b),
        Variable::String(s) => Value::String(s.clone()),
        Variable::Number(n) => {
            if let Some(u) = n.as_u64() {
                json!({ "$u": u.to_string() })
            } else if let Some(i) = n.as_i64() {
                json!({ "$i": i.to_string() })
            } else {
                json!({ "$f": format!("{:016x}", n.as_f64().unwrap().to_bits()) })
            }
        }
        Variable::Array(a) => Value::Array(a.iter().map(|x| from_var(x)).collect()),
        Variable::Object(o) => {
            // keep iteration order visible: list of pairs
            let mut m = serde_json::Map::new();
            for (k, x) in o.iter() {
                m.insert(k.clone(), from_var(x));
            }
            Value::Object(m)
        }
        Variable::Expref(a) => json!({ "$expref_ast": format!("{:?}", a) }),
    }
}

fn reason_kind(r: &ErrorReason) -> &'static str {
    match r {
        ErrorReason::Parse(_) => "parse",
        ErrorReason::Runtime(RuntimeError::InvalidSlice) => "invalid-slice",
        ErrorReason::Runtime(RuntimeError::TooManyArguments { .. }) => "too-many-arguments",
        ErrorReason::Runtime(RuntimeError::NotEnoughArguments { .. }) => "not-enough-arguments",
        ErrorReason::Runtime(RuntimeError::UnknownFunction(_)) => "unknown-function",
        ErrorReason::Runtime(RuntimeError::InvalidType { .. }) => "invalid-type",
        ErrorReason::Runtime(RuntimeError::InvalidReturnType { .. }) => "invalid-return-type",
        #[allow(unreachable_patterns)]
        _ => "other",          // a variant the tree under test added
    }
}

fn err_json(kind: &str, e: &JmespathError) -> Value {
    json!({"kind": kind, "reason_kind": reason_kind(&e.reason), "reason": format!("{:?}", e.reason),
           "offset": e.offset, "line": e.line, "column": e.column, "expression": e.expression,
           "display": format!("{}", e)})
}

fn object_order(v: &Variable, out: &mut Vec<Vec<String>>) {
    match v {
        Variable::Array(a) => a.iter().for_each(|x| object_order(x, out)),
        Variable::Object(o) => {
            out.push(o.keys().cloned().collect());
            o.values().for_each(|x| object_order(x, out))
        }
        _ => {}
    }
}

fn do_search(rt: &Runtime, expr: &str, doc: &Value) -> Value {
    match rt.compile(expr) {
        Err(e) => err_json("compile-err", &e),
        Ok(x) => {
            let data = to_var(doc);
            let before = format!("{:?}", data);
            let r = x.search(data.clone());
            let unchanged = before == format!("{:?}", data);
            match r {
                Ok(v) => json!({"kind": "ok", "value": from_var(&v), "json": v.to_string(), "doc_unchanged": unchanged}),
                Err(e) => {
                    let mut j = err_json("err", &e);
                    j["doc_unchanged"] = json!(unchanged);
                    j
                }
            }
        }
    }
}

fn to_ast(v: &Value) -> Ast {
    let b = |x: &Value| Box::new(to_ast(x));
    let offset = v["offset"].as_u64().unwrap_or(0) as usize;
    let oi = |x: &Value| x.as_i64().map(|n| n as i32);
    match v["k"].as_str().unwrap() {
        "Identity" => Ast::Identity { offset },
        "Field" => Ast::Field { offset, name: v["name"].as_str().unwrap().to_string() },
        "Literal" => Ast::Literal { offset, value: to_var(&v["value"]) },
        "Index" => Ast::Index { offset, idx: v["idx"].as_i64().unwrap() as i32 },
        "Slice" => Ast::Slice { offset, start: oi(&v["start"]), stop: oi(&v["stop"]), step: v["step"].as_i64().unwrap() as i32 },
        "Not" => Ast::Not { offset, node: b(&v["node"]) },
        "ObjectValues" => Ast::ObjectValues { offset, node: b(&v["node"]) },
        "Flatten" => Ast::Flatten { offset, node: b(&v["node"]) },
        "Subexpr" => Ast::Subexpr { offset, lhs: b(&v["lhs"]), rhs: b(&v["rhs"]) },
        "Or" => Ast::Or { offset, lhs: b(&v["lhs"]), rhs: b(&v["rhs"]) },
        "And" => Ast::And { offset, lhs: b(&v["lhs"]), rhs: b(&v["rhs"]) },
        "Projection" => Ast::Projection { offset, lhs: b(&v["lhs"]), rhs: b(&v["rhs"]) },
        "Condition" => Ast::Condition { offset, predicate: b(&v["predicate"]), then: b(&v["then"]) },
        "Comparison" => {
            use jmespath::ast::Comparator::*;
            let c = match v["cmp"].as_str().unwrap() {
                "Equal" => Equal, "NotEqual" => NotEqual, "LessThan" => LessThan, "LessThanEqual" => LessThanEqual,
                "GreaterThan" => GreaterThan, _ => GreaterThanEqual,
            };
            Ast::Comparison { offset, comparator: c, lhs: b(&v["lhs"]), rhs: b(&v["rhs"]) }
        }
        "MultiList" => Ast::MultiList { offset, elements: v["elements"].as_array().unwrap().iter().map(to_ast).collect() },
        "MultiHash" => Ast::MultiHash {
            offset,
            elements: v["elements"].as_array().unwrap().iter()
                .map(|kv| jmespath::ast::KeyValuePair { key: kv[0].as_str().unwrap().to_string(), value: to_ast(&kv[1]) }).collect(),
        },
        "Expref" => Ast::Expref { offset, ast: b(&v["ast"]) },
        "Function" => Ast::Function { offset, name: v["name"].as_str().unwrap().to_string(), args: v["args"].as_array().unwrap().iter().map(to_ast).collect() },
        k => panic!("ast kind {}", k),
    }
}

/// A value of the serde data model, described in JSON by the harness: ["u8", 7] / ["struct", "S", [["x", [...]], ...]] ...
struct DM(Value);
fn leak(s: &str) -> &'static str { Box::leak(s.to_string().into_boxed_str()) }
impl serde::Serialize for DM {
    fn serialize<S: serde::Serializer>(&self, ser: S) -> Result<S::Ok, S::Error> {
        use serde::ser::*;
        let v = &self.0; let k = v[0].as_str().unwrap();
        let int = |x: &Value| -> i128 { x.as_str().map(|s| s.parse::<i128>().unwrap()).unwrap_or_else(|| x.as_i64().map(|n| n as i128).unwrap_or_else(|| x.as_u64().unwrap() as i128)) };
        match k {
            "u8" => ser.serialize_u8(int(&v[1]) as u8), "u16" => ser.serialize_u16(int(&v[1]) as u16), "u32" => ser.serialize_u32(int(&v[1]) as u32), "u64" => ser.serialize_u64(int(&v[1]) as u64),
            "i8" => ser.serialize_i8(int(&v[1]) as i8), "i16" => ser.serialize_i16(int(&v[1]) as i16), "i32" => ser.serialize_i32(int(&v[1]) as i32), "i64" => ser.serialize_i64(int(&v[1]) as i64),
            "f64" => ser.serialize_f64(f64::from_bits(u64::from_str_radix(v[1].as_str().unwrap(), 16).unwrap())),
            "f32" => ser.serialize_f32(f64::from_bits(u64::from_str_radix(v[1].as_str().unwrap(), 16).unwrap()) as f32),
            "bool" => ser.serialize_bool(v[1].as_bool().unwrap()),
            "char" => ser.serialize_char(std::char::from_u32(v[1].as_u64().unwrap() as u32).unwrap()),
            "str" => ser.serialize_str(v[1].as_str().unwrap()),
            "bytes" => ser.serialize_bytes(&v[1].as_array().unwrap().iter().map(|b| b.as_u64().unwrap() as u8).collect::<Vec<u8>>()),
            "unit" => ser.serialize_unit(), "none" => ser.serialize_none(),
            "some" => ser.serialize_some(&DM(v[1].clone())),
            "unit_struct" => ser.serialize_unit_struct(leak(v[1].as_str().unwrap())),
            "unit_variant" => ser.serialize_unit_variant(leak(v[1].as_str().unwrap()), v[2].as_u64().unwrap() as u32, leak(v[3].as_str().unwrap())),
            "newtype_struct" => ser.serialize_newtype_struct(leak(v[1].as_str().unwrap()), &DM(v[2].clone())),
            "newtype_variant" => ser.serialize_newtype_variant(leak(v[1].as_str().unwrap()), v[2].as_u64().unwrap() as u32, leak(v[3].as_str().unwrap()), &DM(v[4].clone())),
            "seq" => { let items = v[1].as_array().unwrap(); let mut st = ser.serialize_seq(Some(items.len()))?; for i in items { st.serialize_element(&DM(i.clone()))?; } st.end() }
            "tuple" => { let items = v[1].as_array().unwrap(); let mut st = ser.serialize_tuple(items.len())?; for i in items { st.serialize_element(&DM(i.clone()))?; } st.end() }
            "tuple_struct" => { let items = v[2].as_array().unwrap(); let mut st = ser.serialize_tuple_struct(leak(v[1].as_str().unwrap()), items.len())?; for i in items { st.serialize_field(&DM(i.clone()))?; } st.end() }
            "tuple_variant" => { let items = v[4].as_array().unwrap(); let mut st = ser.serialize_tuple_variant(leak(v[1].as_str().unwrap()), v[2].as_u64().unwrap() as u32, leak(v[3].as_str().unwrap()), items.len())?; for i in items { st.serialize_field(&DM(i.clone()))?; } st.end() }
            "map" => { let items = v[1].as_array().unwrap(); let mut st = ser.serialize_map(Some(items.len()))?; for kv in items { st.serialize_key(&DM(kv[0].clone()))?; st.serialize_value(&DM(kv[1].clone()))?; } st.end() }
            "map_entry" => { let items = v[1].as_array().unwrap(); let mut st = ser.serialize_map(Some(items.len()))?; for kv in items { st.serialize_entry(&DM(kv[0].clone()), &DM(kv[1].clone()))?; } st.end() }
            "struct" => { let items = v[2].as_array().unwrap(); let mut st = ser.serialize_struct(leak(v[1].as_str().unwrap()), items.len())?; for kv in items { st.serialize_field(leak(kv[0].as_str().unwrap()), &DM(kv[1].clone()))?; } st.end() }
            "struct_variant" => { let items = v[4].as_array().unwrap(); let mut st = ser.serialize_struct_variant(leak(v[1].as_str().unwrap()), v[2].as_u64().unwrap() as u32, leak(v[3].as_str().unwrap()), items.len())?; for kv in items { st.serialize_field(leak(kv[0].as_str().unwrap()), &DM(kv[1].clone()))?; } st.end() }
            _ => Err(S::Error::custom("unknown data model kind")),
        }
    }
}
/// Recording visitor: the stream of serde visit_* events a Deserializer produces, as JSON (for the crate's Variable and for serde_json::Value)
#[derive(Clone, Copy)]
struct Rec { enum_mode: bool }
impl<'de> serde::de::DeserializeSeed<'de> for Rec {
    type Value = Value;
    fn deserialize<D: serde::Deserializer<'de>>(self, d: D) -> Result<Value, D::Error> { d.deserialize_any(self) }
}
impl<'de> serde::de::Visitor<'de> for Rec {
    type Value = Value;
    fn expecting(&self, f: &mut std::fmt::Formatter) -> std::fmt::Result { f.write_str("anything") }
    fn visit_unit<E>(self) -> Result<Value, E> { Ok(json!(["unit"])) }
    fn visit_none<E>(self) -> Result<Value, E> { Ok(json!(["none"])) }
    fn visit_bool<E>(self, v: bool) -> Result<Value, E> { Ok(json!(["bool", v])) }
    fn visit_u64<E>(self, v: u64) -> Result<Value, E> { Ok(json!(["u64", v.to_string()])) }
    fn visit_i64<E>(self, v: i64) -> Result<Value, E> { Ok(json!(["i64", v.to_string()])) }
    fn visit_f64<E>(self, v: f64) -> Result<Value, E> { Ok(json!(["f64", format!("{:016x}", v.to_bits())])) }
    fn visit_str<E>(self, v: &str) -> Result<Value, E> { Ok(json!(["str", v])) }
    fn visit_some<D: serde::Deserializer<'de>>(self, d: D) -> Result<Value, D::Error> { Ok(json!(["some", d.deserialize_any(self)?])) }
    fn visit_newtype_struct<D: serde::Deserializer<'de>>(self, d: D) -> Result<Value, D::Error> { Ok(json!(["newtype", d.deserialize_any(self)?])) }
    fn visit_seq<A: serde::de::SeqAccess<'de>>(self, mut a: A) -> Result<Value, A::Error> { let mut out = vec![]; while let Some(x) = a.next_element_seed(self)? { out.push(x); } Ok(json!(["seq", out])) }
    fn visit_map<A: serde::de::MapAccess<'de>>(self, mut a: A) -> Result<Value, A::Error> { let mut out = vec![]; while let Some(k) = a.next_key_seed(self)? { let v = a.next_value_seed(self)?; out.push(json!([k, v])); } Ok(json!(["map", out])) }
}
/// the four variant access forms, each tried on its own deserialisation of the value
struct EnumRec { form: u8 }
impl<'de> serde::de::Visitor<'de> for EnumRec {
    type Value = Value;
    fn expecting(&self, f: &mut std::fmt::Formatter) -> std::fmt::Result { f.write_str("enum") }
    fn visit_enum<A: serde::de::EnumAccess<'de>>(self, a: A) -> Result<Value, A::Error> {
        use serde::de::VariantAccess;
        let (name, va) = a.variant_seed(Rec { enum_mode: false })?;
        let r = match self.form {
            0 => va.unit_variant().map(|_| json!(["ok"])),
            1 => va.newtype_variant_seed(Rec { enum_mode: false }).map(|v| json!(["ok", v])),
            2 => va.tuple_variant(2, Rec { enum_mode: false }).map(|v| json!(["ok", v])),
            _ => va.struct_variant(&[], Rec { enum_mode: false }).map(|v| json!(["ok", v])),
        };
        Ok(json!([name, r.unwrap_or_else(|_| json!(["err"]))]))
    }
}
fn record<'de, D: serde::Deserializer<'de> + Clone>(d: D, entry: &str) -> Value where D::Error: std::fmt::Display {
    let r = Rec { enum_mode: false };
    match entry {
        "any" => d.deserialize_any(r).unwrap_or_else(|_| json!("ERR")),
        "option" => d.deserialize_option(r).unwrap_or_else(|_| json!("ERR")),
        "newtype" => d.deserialize_newtype_struct("N", r).unwrap_or_else(|_| json!("ERR")),
        _ => {
            let mut forms = vec![];
            for f in 0..4u8 { forms.push(d.clone().deserialize_enum("E", &[], EnumRec { form: f }).unwrap_or_else(|_| json!("ERR"))); }
            json!(forms)
        }
    }
}
fn value_tagged(v: &Value) -> Value {
    match v {
        Value::Number(n) => { if let Some(u) = n.as_u64() { json!({"$u": u.to_string()}) } else if let Some(i) = n.as_i64() { json!({"$i": i.to_string()}) } else { json!({"$f": format!("{:016x}", n.as_f64().unwrap().to_bits())}) } }
        Value::Array(a) => Value::Array(a.iter().map(value_tagged).collect()),
        Value::Object(o) => Value::Object(o.iter().map(|(k, x)| (k.clone(), value_tagged(x))).collect()),
        x => x.clone(),
    }
}

fn arg_type(s: &str) -> ArgumentType {
    match s {
        "any" => ArgumentType::Any,
        "null" => ArgumentType::Null,
        "string" => ArgumentType::String,
        "number" => ArgumentType::Number,
        "bool" => ArgumentType::Bool,
        "object" => ArgumentType::Object,
        "array" => ArgumentType::Array,
        "expref" => ArgumentType::Expref,
        _ => panic!("arg type"),
    }
}

fn handle(req: &Value) -> Value {
    let op = req["op"].as_str().unwrap_or("search");
    match op {
        "search" => {
            let mut rt = Runtime::new();
            rt.register_builtin_functions();
            do_search(&rt, req["expr"].as_str().unwrap(), &req["doc"])
        }
        "search_ast" => {
            let mut rt = Runtime::new();
            rt.register_builtin_functions();
            let ast = to_ast(&req["ast"]);
            let x = jmespath::Expression::new(req["expr"].as_str().unwrap_or(""), ast, &rt);
            match x.search(to_var(&req["doc"])) {
                Ok(v) => json!({"kind": "ok", "value": from_var(&v)}),
                Err(e) => err_json("err", &e),
            }
        }
        "pipe" => {
            // search('(L) | (R)', d) vs search(R, search(L, d))
            let mut rt = Runtime::new();
            rt.register_builtin_functions();
            let l = req["L"].as_str().unwrap(); let r = req["R"].as_str().unwrap();
            let whole = format!("({}) | ({})", l, r);
            let d = to_var(&req["doc"]);
            let a = rt.compile(&whole).and_then(|x| x.search(d.clone()));
            let b = rt.compile(l).and_then(|x| x.search(d.clone())).and_then(|m| rt.compile(r).and_then(|x| x.search(m)));
            match (a, b) {
                (Ok(x), Ok(y)) => json!({"kind": "ok", "equal": format!("{:?}", x) == format!("{:?}", y), "whole": from_var(&x), "parts": from_var(&y)}),
                (Err(x), Err(y)) => json!({"kind": "ok", "equal": reason_kind(&x.reason) == reason_kind(&y.reason)}),
                (x, y) => json!({"kind": "ok", "equal": false, "whole_ok": x.is_ok(), "parts_ok": y.is_ok()}),
            }
        }
        "boolform" => {
            // search('!(L)' / '(L) && (R)' / '(L) || (R)', d) vs the truth-table combination of search(L, d), search(R, d)
            let mut rt = Runtime::new();
            rt.register_builtin_functions();
            let l = req["L"].as_str().unwrap(); let r = req["R"].as_str().unwrap(); let form = req["form"].as_str().unwrap();
            let whole = match form { "not" => format!("!({})", l), "and" => format!("({}) && ({})", l, r), _ => format!("({}) || ({})", l, r) };
            let d = to_var(&req["doc"]);
            let a = rt.compile(&whole).and_then(|x| x.search(d.clone()));
            let b = rt.compile(l).and_then(|x| x.search(d.clone())).and_then(|m| {
                if form == "not" { Ok(Rcvar::new(Variable::Bool(!m.is_truthy()))) }
                else if (form == "and") == m.is_truthy() { rt.compile(r).and_then(|x| x.search(d.clone())) }
                else { Ok(m) }
            });
            match (a, b) {
                (Ok(x), Ok(y)) => json!({"kind": "ok", "equal": format!("{:?}", x) == format!("{:?}", y), "whole": from_var(&x), "parts": from_var(&y)}),
                (Err(x), Err(y)) => json!({"kind": "ok", "equal": reason_kind(&x.reason) == reason_kind(&y.reason)}),
                (x, y) => json!({"kind": "ok", "equal": false, "whole_ok": x.is_ok(), "parts_ok": y.is_ok()}),
            }
        }
        "serde" => {
            // a value of the serde data model searched through the library vs its serde_json image
            let dm = DM(req["value"].clone());
            let a = Variable::from_serializable(&dm);
            let b = serde_json::to_value(&dm);
            json!({"kind": "ok", "library": a.map(|v| from_var(&v)).map_err(|e| format!("{}", e)).unwrap_or_else(|e| json!({"$error": e})),
                   "serde_json": b.map(|v| value_tagged(&v)).unwrap_or_else(|e| json!({"$error": format!("{}", e)}))})
        }
        "serde_repeat" => {
            // the same conversion n times on one thread, then an unrelated flat value: outcomes must be what they were at the start
            let dm = DM(req["value"].clone()); let n = req["n"].as_u64().unwrap();
            let s = |r: Result<Rcvar, JmespathError>| match r { Ok(v) => format!("{:?}", v), Err(e) => format!("ERR {}", e) };
            let first = s(Variable::from_serializable(&dm).map(Rcvar::new)); let p0 = s(Variable::from_serializable(&(7u8, "x")).map(Rcvar::new));
            let mut last = first.clone();
            for _ in 0..n { last = s(Variable::from_serializable(&dm).map(Rcvar::new)); }
            let p1 = s(Variable::from_serializable(&(7u8, "x")).map(Rcvar::new));
            json!({"kind": "ok", "stable": first == last && p0 == p1, "first": first, "last": last, "probe_before": p0, "probe_after": p1})
        }
        "json_identity" => {
            // from_json -> search('@') -> to_string -> compare with serde_json's own reading of the input and of the output
            let text = req["text"].as_str().unwrap();
            match Variable::from_json(text) {
                Err(e) => json!({"kind": "err", "message": e, "serde_json_accepts": serde_json::from_str::<Value>(text).is_ok()}),
                Ok(v) => {
                    let r = jmespath::compile("@").unwrap().search(v).unwrap();
                    let printed = r.to_string();
                    let a: Result<Value, _> = serde_json::from_str(text);
                    let b: Result<Value, _> = serde_json::from_str(&printed);
                    let eq = match (&a, &b) { (Ok(x), Ok(y)) => value_tagged(x) == value_tagged(y), _ => false };
                    json!({"kind": "ok", "printed": printed, "equal": eq})
                }
            }
        }
        "deser" => {
            // the visit_* event stream of the crate's Deserializer for a Variable vs serde_json's for the same JSON value
            let var = to_var(&req["value"]);
            let val: Value = serde_json::to_value(&*var).unwrap();
            let entry = req["entry"].as_str().unwrap();
            let a = record((*var).clone(), entry);
            let b = record(val, entry);
            json!({"kind": "ok", "equal": a == b, "library": a, "serde_json": b})
        }
        "value_conv" => {
            // serde_json::Value -> Variable through the named conversion; compared with the value itself
            fn untag(v: &Value) -> Value {
                match v {
                    Value::Array(a) => Value::Array(a.iter().map(untag).collect()),
                    Value::Object(o) => {
                        if o.len() == 1 {
                            if let Some(Value::String(s)) = o.get("$u") { return Value::Number(serde_json::Number::from(s.parse::<u64>().unwrap())); }
                            if let Some(Value::String(s)) = o.get("$i") { return Value::Number(serde_json::Number::from(s.parse::<i64>().unwrap())); }
                            if let Some(Value::String(s)) = o.get("$f") { return Value::Number(serde_json::Number::from_f64(f64::from_bits(u64::from_str_radix(s, 16).unwrap())).unwrap()); }
                        }
                        Value::Object(o.iter().map(|(k, x)| (k.clone(), untag(x))).collect())
                    }
                    x => x.clone(),
                }
            }
            use std::convert::TryFrom;
            let val = untag(&req["value"]);
            let r = match req["entry"].as_str().unwrap() {
                "try_from_ref" => Variable::try_from(&val),
                "try_from_owned" => Variable::try_from(val.clone()),
                _ => return json!({"kind": "skipped"}),
            };
            match r { Ok(v) => json!({"kind": "ok", "equal": from_var(&v) == value_tagged(&val), "library": from_var(&v)}), Err(e) => err_json("err", &e) }
        }
        "from_json" => match Variable::from_json(req["text"].as_str().unwrap()) {
            Ok(v) => json!({"kind": "ok", "value": from_var(&v)}),
            Err(e) => json!({"kind": "err", "message": e}),
        },
        "search_default" => {
            // through the crate-level compile() (DEFAULT_RUNTIME)
            match jmespath::compile(req["expr"].as_str().unwrap()) {
                Err(e) => err_json("compile-err", &e),
                Ok(x) => match x.search(to_var(&req["doc"])) {
                    Ok(v) => json!({"kind": "ok", "value": from_var(&v)}),
                    Err(e) => err_json("err", &e),
                },
            }
        }
        "repeat" => {
            // the same search n times on one thread: the last outcome, and the outcome of an unrelated fresh probe afterwards, must be what they were at the start
            let e = req["expr"].as_str().unwrap(); let n = req["n"].as_u64().unwrap();
            let s = |r: &Result<Rcvar, JmespathError>| match r { Ok(v) => format!("{:?}", v), Err(e) => format!("ERR {:?}", e.reason) };
            let probe = |txt: &str| match jmespath::compile(txt) { Ok(x) => s(&x.search(to_var(&req["doc"]))), Err(e) => format!("COMPILE {:?}", e.reason) };
            let x = match jmespath::compile(e) { Ok(x) => x, Err(e) => return err_json("compile-err", &e) };
            let first = s(&x.search(to_var(&req["doc"]))); let p0 = probe("[@, `1`]");
            let mut last = first.clone();
            for _ in 0..n { last = s(&x.search(to_var(&req["doc"]))); }
            let p1 = probe("[@, `1`]"); let fresh = probe(e);
            json!({"kind": "ok", "stable": first == last && p0 == p1 && fresh == first, "first": first, "last": last, "fresh_after": fresh, "probe_before": p0, "probe_after": p1})
        }
        "reuse" => {
            // one compiled expression searched on docs[0] then docs[1]  vs  a fresh expression on docs[1]
            let e = req["expr"].as_str().unwrap();
            let x = match jmespath::compile(e) { Ok(x) => x, Err(e) => return err_json("compile-err", &e) };
            let _ = x.search(to_var(&req["docs"][0]));
            let used = x.search(to_var(&req["docs"][1]));
            let fresh = jmespath::compile(e).unwrap().search(to_var(&req["docs"][1]));
            let s = |r: &Result<Rcvar, JmespathError>| match r { Ok(v) => format!("{:?}", v), Err(e) => format!("ERR {:?}", e.reason) };
            json!({"kind": "ok", "equal": s(&used) == s(&fresh), "used": s(&used), "fresh": s(&fresh)})
        }
        "deep" => {
            // an expression with k levels of one nesting / chaining form: compile it, search null with it, drop it (stack exhaustion aborts the driver: the client sees that)
            let k = req["k"].as_u64().unwrap() as usize;
            let e = match req["form"].as_str().unwrap() {
                "paren" => format!("{}a{}", "(".repeat(k), ")".repeat(k)),
                "not" => format!("{}a", "!".repeat(k)),
                "list" => format!("{}a{}", "[".repeat(k), "]".repeat(k)),
                "hash" => format!("{}a{}", "{k:".repeat(k), "}".repeat(k)),
                "dot" => format!("a{}", ".a".repeat(k)),
                "pipe" => format!("a{}", "|a".repeat(k)),
                "or" => format!("a{}", "||a".repeat(k)),
                "index" => format!("a{}", "[0]".repeat(k)),
                "flatten" => format!("a{}", "[]".repeat(k)),
                "call" => format!("{}a{}", "abs(".repeat(k), ")".repeat(k)),
                "expref" => format!("{}a{}", "map(&".repeat(k), ",@)".repeat(k)),
                _ => return json!({"kind": "skipped"}),
            };
            match jmespath::compile(&e) {
                Err(e) => err_json("compile-err", &e),
                Ok(x) => { let r = x.search(to_var(&Value::Null)); let ok = r.is_ok(); drop(r); drop(x); json!({"kind": "ok", "search_ok": ok}) }
            }
        }
        "cli_oracle" => {
            // what jp must report for (expression, JSON text, flags), computed with the library in-process
            let e = req["expr"].as_str().unwrap();
            let x = match jmespath::compile(e) { Ok(x) => x, Err(_) => return json!({"kind": "ok", "class": "fail", "stage": "compile"}) };
            if req["ast"].as_bool() == Some(true) { return json!({"kind": "ok", "class": "ok", "stdout": format!("{:#?}\n", x.as_ast())}); }
            let v = match Variable::from_json(req["json"].as_str().unwrap()) { Ok(v) => v, Err(_) => return json!({"kind": "ok", "class": "fail", "stage": "json"}) };
            match x.search(Rcvar::new(v)) {
                Err(_) => json!({"kind": "ok", "class": "fail", "stage": "search"}),
                Ok(r) => {
                    let out = if req["unquoted"].as_bool() == Some(true) && r.is_string() { format!("{}\n", r.as_string().unwrap()) } else { format!("{}\n", serde_json::to_string_pretty(&r).unwrap()) };
                    json!({"kind": "ok", "class": "ok", "stdout": out})
                }
            }
        }
        "compile_default" => match jmespath::compile(req["expr"].as_str().unwrap()) {
            Ok(x) => json!({"kind": "ok", "ast": format!("{:?}", x.as_ast())}),
            Err(e) => err_json("compile-err", &e),
        },
        "compile" => match jmespath::parse(req["expr"].as_str().unwrap()) {
            Ok(ast) => json!({"kind": "ok", "ast": format!("{:?}", ast)}),
            Err(e) => err_json("compile-err", &e),
        },
        "slice" => {
            // array [0,1,..,len-1]; returns the selected positions
            let len = req["len"].as_u64().unwrap() as usize;
            let arr = Variable::Array((0..len).map(|i| Rcvar::new(Variable::Number(serde_json::Number::from(i as u64)))).collect());
            let o = |v: &Value| v.as_i64().map(|x| x as i32);
            let r = arr.slice(o(&req["start"]), o(&req["stop"]), req["step"].as_i64().unwrap() as i32);
            json!({"kind": "ok", "value": r.map(|v| v.iter().map(|x| x.as_number().unwrap() as u64).collect::<Vec<_>>())})
        }
        "errnew" => {
            let e = JmespathError::new(req["expr"].as_str().unwrap(), req["offset"].as_u64().unwrap() as usize, ErrorReason::Parse("x".to_owned()));
            json!({"kind": "ok", "line": e.line, "column": e.column, "offset": e.offset, "expression": e.expression, "display": format!("{}", e)})
        }
        "compare" => {
            let a = to_var(&req["a"]);
            let b = to_var(&req["b"]);
            let cmps = [
                jmespath::ast::Comparator::Equal, jmespath::ast::Comparator::NotEqual, jmespath::ast::Comparator::LessThan,
                jmespath::ast::Comparator::LessThanEqual, jmespath::ast::Comparator::GreaterThan, jmespath::ast::Comparator::GreaterThanEqual,
            ];
            json!({"kind": "ok", "value": cmps.iter().map(|c| a.compare(c, &b)).collect::<Vec<_>>()})
        }
        "registry" => {
            // ops: [["reg", name, fid], ["dereg", name], ["builtins"]]; fid: 0 = closure returning "f0", 1 = closure "f1",
            // 2 = CustomFunction(signature [sig...]) returning "f2". Each custom function records its arguments.
            let log: Arc<Mutex<Vec<Value>>> = Arc::new(Mutex::new(vec![]));
            let mut rt = Runtime::new();
            for o in req["ops"].as_array().unwrap() {
                let kind = o[0].as_str().unwrap();
                match kind {
                    "builtins" => rt.register_builtin_functions(),
                    "dereg" => { rt.deregister_function(o[1].as_str().unwrap()); }
                    "reg" => {
                        let fid = o[2].as_u64().unwrap();
                        let name = o[1].as_str().unwrap();
                        let lg = log.clone();
                        let body = move |args: &[Rcvar], _ctx: &mut Context<'_>| {
                            lg.lock().unwrap().push(json!({"fid": fid, "args": args.iter().map(|a| from_var(a)).collect::<Vec<_>>()}));
                            Ok(Rcvar::new(Variable::String(format!("f{}", fid))))
                        };
                        if fid >= 2 {
                            let sig: Vec<ArgumentType> = o[3].as_array().unwrap().iter().map(|s| arg_type(s.as_str().unwrap())).collect();
                            let variadic = o.get(4).and_then(|v| v.as_str()).map(arg_type);
                            rt.register_function(name, Box::new(CustomFunction::new(Signature::new(sig, variadic), Box::new(body))));
                        } else {
                            rt.register_function(name, Box::new(body));
                        }
                    }
                    _ => panic!("registry op"),
                }
            }
            let mut r = do_search(&rt, req["expr"].as_str().unwrap(), &req["doc"]);
            r["calls"] = Value::Array(log.lock().unwrap().clone());
            r
        }
        "seq" => {
            // history independence: run a list of sub-requests in this process, return all answers
            Value::Array(req["reqs"].as_array().unwrap().iter().map(handle_caught).collect())
        }
        "order" => {
            let mut rt = Runtime::new();
            rt.register_builtin_functions();
            match rt.compile(req["expr"].as_str().unwrap()) {
                Err(e) => err_json("compile-err", &e),
                Ok(x) => match x.search(to_var(&req["doc"])) {
                    Ok(v) => { let mut o = vec![]; object_order(&v, &mut o); json!({"kind": "ok", "order": o}) }
                    Err(e) => err_json("err", &e),
                },
            }
        }
        _ => json!({"kind": "bad-request"}),
    }
}

fn handle_caught(req: &Value) -> Value {
    let r = std::panic::catch_unwind(|| handle(req));
    match r {
        Ok(j) => j,
        Err(p) => {
            let msg = if let Some(s) = p.downcast_ref::<String>() { s.clone() } else if let Some(s) = p.downcast_ref::<&str>() { s.to_string() } else { "?".to_string() };
            json!({"kind": "panic", "message": msg})
        }
    }
}

#[allow(dead_code)]
fn _unused(_: &Ast) {}

fn main() {
    std::panic::set_hook(Box::new(|_| {}));
    let stdin = io::stdin();
    let out = io::stdout();
    for line in stdin.lock().lines() {
        let line = line.unwrap();
        if line.trim().is_empty() { continue; }
        let req: Value = match serde_json::from_str(&line) { Ok(v) => v, Err(_) => { println!("{}", json!({"kind": "bad-request"})); continue; } };
        let j = handle_caught(&req);
        let mut o = out.lock();
        writeln!(o, "{}", j).unwrap();
        o.flush().unwrap();
    }
}
