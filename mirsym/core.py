#!/usr/bin/env python3-vt
"""mirsym prototype 1 (design-phase probe): symbolic interpreter for rustc MIR text (-Zunpretty=mir) of the
jmespath crate, z3 as the solver. Heap structure concrete per path, scalars/tags symbolic, forking on symbolic
branches. std / serde_json calls are Python models. Unknown construct/callee => Unsupported."""
import re, sys, os, time, json, glob
import z3

SRC = os.environ.get('JM_SRC', '/repo/jmespath')

# =====================================================================================================
# text utilities
# =====================================================================================================
OPEN, CLOSE = '([{<', ')]}>'

def split_top(s, sep=','):
    out, depth, cur, i, n = [], 0, [], 0, len(s)
    while i < n:
        c = s[i]
        if c == '"' or (c == 'b' and i + 1 < n and s[i + 1] == '"' and (i == 0 or not (s[i - 1].isalnum() or s[i - 1] == '_'))):
            j = i + (2 if c == 'b' else 1)
            while s[j] != '"':
                j += 2 if s[j] == '\\' else 1
            cur.append(s[i:j + 1]); i = j + 1; continue
        if c == "'" and i + 2 < n:
            # char literal 'x' or '\n' or '\u{..}' ; lifetimes ('_ , 'a) have no closing quote nearby
            m = re.match(r"'(\\u\{[0-9a-fA-F]+\}|\\.|[^\\'])'", s[i:])
            if m:
                cur.append(m.group(0)); i += len(m.group(0)); continue
        if c in '([{':
            depth += 1
        elif c in ')]}':
            depth -= 1
        elif c == '<':
            # generic bracket unless it is a comparison (never in MIR operands) or '<-'
            depth += 1
        elif c == '>':
            if i > 0 and s[i - 1] in '-=':
                pass
            else:
                depth -= 1
        if c == sep and depth == 0:
            out.append(''.join(cur).strip()); cur = []
        else:
            cur.append(c)
        i += 1
    t = ''.join(cur).strip()
    if t:
        out.append(t)
    return out

def strip_generics(path):
    """remove ::<...> turbofish segments and lifetimes: Parser::<'_>::expr -> Parser::expr"""
    out, i, n = [], 0, len(path)
    while i < n:
        if path.startswith('::<', i) and not path.startswith('::<impl ', i):
            d, j = 0, i + 2
            while True:
                if path[j] == '<': d += 1
                elif path[j] == '>' and path[j - 1] not in '-=':
                    d -= 1
                    if d == 0: break
                j += 1
            i = j + 1
        else:
            out.append(path[i]); i += 1
    return ''.join(out)

def unescape_rust(s):
    out, i = [], 0
    while i < len(s):
        c = s[i]
        if c == '\\':
            d = s[i + 1]
            if d == 'n': out.append('\n'); i += 2
            elif d == 't': out.append('\t'); i += 2
            elif d == 'r': out.append('\r'); i += 2
            elif d == '0': out.append('\0'); i += 2
            elif d == 'x': out.append(chr(int(s[i + 2:i + 4], 16))); i += 4
            elif d == 'u':
                j = s.index('}', i); out.append(chr(int(s[i + 3:j], 16))); i = j + 1
            else: out.append(d); i += 2
        else:
            out.append(c); i += 1
    return ''.join(out)

# =====================================================================================================
# declarations from source (variant order, field order)
# =====================================================================================================
class Decls:
    def __init__(s, srcdir):
        s.enums, s.structs = {}, {}
        s.files = {}
        for f in glob.glob(os.path.join(srcdir, 'src', '*.rs')):
            txt = open(f).read()
            s.files['src/' + os.path.basename(f)] = txt.split('\n')
            s._scan(txt)
        # std / serde_json enums used by the crate
        s.enums.update({
            'Option': [('None', []), ('Some', ['0'])],
            'Result': [('Ok', ['0']), ('Err', ['0'])],
            'ControlFlow': [('Continue', ['0']), ('Break', ['0'])],
            'Ordering': [('Less', []), ('Equal', []), ('Greater', [])],
            'Value': [('Null', []), ('Bool', ['0']), ('Number', ['0']), ('String', ['0']), ('Array', ['0']), ('Object', ['0'])],
            'Unexpected': [('Bool', ['0']), ('Unsigned', ['0']), ('Signed', ['0']), ('Float', ['0']), ('Char', ['0']), ('Str', ['0']), ('Bytes', ['0']), ('Unit', []), ('Option', []), ('NewtypeStruct', []),
                           ('Seq', []), ('Map', []), ('Enum', []), ('UnitVariant', []), ('NewtypeVariant', []), ('TupleVariant', []), ('StructVariant', []), ('Other', ['0'])],
        })
        s.discr = {'Ordering': {'Less': -1, 'Equal': 0, 'Greater': 1}}
    def _scan(s, txt):
        # strip comments
        txt = re.sub(r'//[^\n]*', '', txt)
        for m in re.finditer(r'\b(enum|struct)\s+(\w+)\s*(<[^>{(]*>)?\s*([({;])', txt):
            kind, name, _, opener = m.groups()
            if opener == ';':
                s.structs[name] = []; continue
            i = m.end() - 1
            body, j = s._balanced(txt, i)
            if kind == 'struct':
                if opener == '(':
                    s.structs[name] = [str(k) for k in range(len(split_top(body)))]
                else:
                    s.structs[name] = s._fields(body)
            else:
                vs = []
                for part in split_top(body):
                    part = re.sub(r'#\[[^\]]*\]', '', part).strip()
                    if not part: continue
                    vm = re.match(r'(\w+)\s*([({])?', part)
                    vname = vm.group(1)
                    if vm.group(2) == '(':
                        inner, _ = s._balanced(part, part.index('('))
                        vs.append((vname, [str(k) for k in range(len(split_top(inner)))]))
                    elif vm.group(2) == '{':
                        inner, _ = s._balanced(part, part.index('{'))
                        vs.append((vname, s._fields(inner)))
                    else:
                        vs.append((vname, []))
                s.enums[name] = vs
    def _balanced(s, txt, i):
        o = txt[i]; c = {'(': ')', '{': '}'}[o]; d = 0
        for j in range(i, len(txt)):
            if txt[j] == o: d += 1
            elif txt[j] == c:
                d -= 1
                if d == 0: return txt[i + 1:j], j
        raise ValueError('unbalanced')
    def _fields(s, body):
        fs = []
        for part in split_top(body):
            part = re.sub(r'#\[[^\]]*\]', '', part).strip()
            fm = re.match(r'(?:pub(?:\([^)]*\))?\s+)?(\w+)\s*:', part)
            if fm: fs.append(fm.group(1))
        return fs
    def variant_index(s, enum, variant):
        for i, (v, _) in enumerate(s.enums[enum]):
            if v == variant: return i
        raise KeyError((enum, variant))
    def discr_value(s, enum, idx):
        name = s.enums[enum][idx][0]
        return s.discr.get(enum, {}).get(name, idx)
    def span_text(s, file, l1, c1, l2, c2):
        lines = s.files[file]
        if l1 == l2: return lines[l1 - 1][c1 - 1:c2 - 1]
        return lines[l1 - 1][c1 - 1:] + ' ' + ' '.join(lines[l1:l2 - 1]) + ' ' + lines[l2 - 1][:c2 - 1]

# =====================================================================================================
# MIR program
# =====================================================================================================
class Fn:
    __slots__ = ('name', 'params', 'ret', 'locals', 'blocks', 'key')
    def __init__(s, name, params, ret, locals_, blocks):
        s.name, s.params, s.ret, s.locals, s.blocks = name, params, ret, locals_, blocks

SPAN = r'src/\w+\.rs:(\d+):(\d+): (\d+):(\d+)'

class Program:
    def __init__(s, mirtext, decls):
        s.decls = decls
        s.fns, s.consts = {}, {}
        s.allocs = {}
        s.by_key = {}       # ('Type','method') or ('Trait','Type','method') -> Fn
        s.closures = {}     # span string -> Fn
        s._parse(mirtext)
        s.drop_types = {k[1]: f for k, f in s.by_key.items() if len(k) == 3 and k[0] == 'Drop' and k[2] == 'drop' and f is not None}
    def _parse(s, text):
        lines = text.split('\n')
        s._last_const = None
        i, n = 0, len(lines)
        while i < n:
            ln = lines[i]
            if ln.startswith(('fn ', 'const ', 'static ')) and ln.endswith(' {'):
                j = i + 1
                while lines[j] != '}': j += 1
                s._item(ln, lines[i + 1:j]); i = j + 1; continue
            m = re.match(r'^const (\S+): (\S+) = const (.+);$', ln)
            if m: s.consts[m.group(1)] = m.group(3)
            m = re.match(r'^(alloc\d+) \(static: ([\w:]+)', ln)
            if m: s.allocs[m.group(1)] = m.group(2)
            i += 1
    def _item(s, header, body_lines):
        kind, rest = header.split(' ', 1)
        rest = rest[:-2]
        if kind == 'fn':
            # name(params) -> ret  : split at the top-level '(' that starts the parameter list
            k = rest.rindex(') -> ')
            ret = rest[k + 5:]
            # find matching '(' for the ')' at k
            d = 0; p = k
            while True:
                if rest[p] == ')': d += 1
                elif rest[p] == '(':
                    d -= 1
                    if d == 0: break
                p -= 1
            name, params = rest[:p], rest[p + 1:k]
        else:
            m = re.match(r'^(?:mut )?(.*): (.+?) =$', rest)
            name, params, ret = m.group(1), '', m.group(2)
        body = '\n'.join(body_lines) + '\n'
        locals_ = {}
        for lm in re.finditer(r'^\s+let (?:mut )?(_\d+): (.+);$', body, re.M):
            locals_[lm.group(1)] = lm.group(2)
        ps = []
        if params:
            for p_ in split_top(params):
                pm = re.match(r'(_\d+): (.+)$', p_, re.S)
                if pm: ps.append(pm.group(1)); locals_[pm.group(1)] = pm.group(2)
        blocks = {}
        for bm in re.finditer(r'^    (bb\d+)(?: \(cleanup\))?: \{\n(.*?)^    \}', body, re.S | re.M):
            blocks[bm.group(1)] = [parse_stmt(l.strip()) for l in bm.group(2).split('\n') if l.strip()]
        fn = Fn(name, ps, ret, locals_, blocks)
        if kind == 'fn' and name == '__rust_std_internal_init_fn' and s._last_const:
            fn.name = name = f'__rust_std_internal_init_fn@{s._last_const}'
        if kind != 'fn' and 'LocalKey<' in ret: s._last_const = name.split('::')[-1]
        if kind == 'fn':
            if name in s.fns:
                if '<impl at' in name and fn.ret != s.fns[name].ret:
                    fn.name = name + '#' + fn.ret
                    s.fns[fn.name] = fn
                    s.by_key[(fn.ret.split('::')[-1], name.split('::')[-1])] = fn
                return
            s.fns[name] = fn
            s._index(fn)
        else:
            s.consts[name] = fn
    def _index(s, fn):
        name = fn.name
        cm = re.match(r'^(.*)::\{closure#(\d+)\}$', name)
        if cm and fn.params:
            t = fn.locals[fn.params[0]]
            sm = re.search(r'\{closure@(' + SPAN + r')\}', t)
            if sm: s.closures.setdefault(sm.group(1), []).append(fn)
            return
        xm = re.match(r'^(?:[\w:]*::)?<impl at (/[^>]*)>::(\w+)$', name)
        if xm and fn.params:
            # impl generated by an external macro (lazy_static!): key it by the receiver type
            ty = re.sub(r"<.*>", '', fn.locals[fn.params[0]].replace('&', '').replace('mut ', '')).strip().split('::')[-1]
            meth = xm.group(2)
            s.by_key[('*', ty, meth)] = fn
            if meth in ('deref', 'deref_mut'): s.by_key[('Deref', ty, meth)] = fn; s.by_key[('DerefMut', ty, meth)] = fn
            return
        im = re.match(r'^(?:[\w:]*::)?<impl at (src/\w+\.rs):(\d+):(\d+): (\d+):(\d+)>::(\w+)$', name)
        if im:
            f, l1, c1, l2, c2, meth = im.groups()
            head = s.decls.span_text(f, int(l1), int(c1), int(l2), int(c2)).strip()
            if re.match(r'^\w+$', head):          # derive(Trait): find the item that follows
                trait = head
                lines = s.decls.files[f]
                ty = None
                for k in range(int(l1) - 1, min(len(lines), int(l1) + 12)):
                    dm = re.match(r'\s*(?:pub\s+)?(?:enum|struct)\s+(\w+)', lines[k])
                    if dm: ty = dm.group(1); break
                s.by_key[(trait, ty, meth)] = fn
            else:
                hm = re.match(r'^impl\s*(<[^>]*>)?\s*(.*)$', head)
                rest = hm.group(2)
                rest = re.sub(r"<[^<>]*>", '', rest)      # drop generic args
                rest = re.sub(r"<[^<>]*>", '', rest)
                tm = re.match(r'^([\w:]+)\s+for\s+(&?)\s*(?:\'\w+\s+)?([\w:]+)', rest)
                if tm:
                    trait, ty = tm.group(1).split('::')[-1], tm.group(3).split('::')[-1]
                    if tm.group(2):          # impl Trait for &T is a different impl than impl Trait for T
                        s.by_key[(trait, '&' + ty, meth)] = fn
                        s.by_key.setdefault((trait, ty, meth), fn)
                    else:
                        s.by_key[(trait, ty, meth)] = fn
                    s.by_key.setdefault(('*', ty, meth), fn)
                else:
                    tm2 = re.match(r'^([\w:]+)', rest)
                    if not tm2:
                        if '$' in head:
                            s.by_key[(fn.ret.split('::')[-1], meth)] = fn; return
                        print('WARN: impl head not understood:', repr(head), name, file=sys.stderr); return
                    ty = tm2.group(1).split('::')[-1]
                    s.by_key[(ty, meth)] = fn
    def resolve(s, callee):
        """callee text from a call statement -> Fn or None"""
        if callee in s.fns: return s.fns[callee]
        c = strip_generics(callee)
        if c in s.fns: return s.fns[c]
        m = re.match(r'^<(.+) as (.+)>::(\w+)$', c)
        if m:
            ty, trait, meth = m.groups()
            if ty.startswith('&'):
                base = re.sub(r"<.*>", '', ty).replace('&', '').replace('mut ', '')
                base = re.sub(r"'\w+\s+", '', base).strip().split('::')[-1]
                return s.by_key.get((re.sub(r"<.*>", '', trait).split('::')[-1], '&' + base, meth))      # crate impls for references; std blanket impls -> models
            ty = re.sub(r"<.*>", '', ty).replace('&', '').replace('mut ', '').strip().split('::')[-1]
            trait = re.sub(r"<.*>", '', trait).split('::')[-1]
            f = s.by_key.get((trait, ty, meth))
            if f is None:
                # impls nested inside a function body (visitor structs): `outer::<impl at ..>::f::<impl at ..>::meth` with receiver type `ty`
                key = ('nested', ty, meth)
                if key not in s.by_key:
                    cands = [g for n, g in s.fns.items() if n.endswith('>::' + meth) and n.count('<impl at') >= 2 and g.params and re.sub(r'[&\s]|mut ', '', g.locals[g.params[0]]).split('::')[-1] == ty]
                    s.by_key[key] = cands[0] if len(cands) == 1 else None
                f = s.by_key[key]
            return f
        m = re.match(r'^([\w:]+)::(\w+)$', c)
        if m:
            ty, meth = m.group(1).split('::')[-1], m.group(2)
            return s.by_key.get((ty, meth)) or s.by_key.get(('*', ty, meth))
        return None

# ---- statement pre-parse -----------------------------------------------------------------------------
CALL_RE = re.compile(r'^(.+?) = (.+?)\((.*)\) -> \[return: (bb\d+), unwind[^\]]*\];$', re.S)
CALL_NORET_RE = re.compile(r'^(.+?) = (.+?)\((.*)\) -> unwind[^;]*;$', re.S)
BUILTIN_RV = re.compile(r'^(AddWithOverflow|SubWithOverflow|MulWithOverflow|Add|Sub|Mul|Div|Rem|BitAnd|BitOr|BitXor|Shl|Shr|Eq|Ne|Lt|Le|Gt|Ge|Cmp|Offset|Not|Neg|discriminant|PtrMetadata|Len|AddUnchecked|SubUnchecked|MulUnchecked|ShlUnchecked|ShrUnchecked)$')

def parse_stmt(st):
    if st.startswith(('StorageLive', 'StorageDead', 'nop', 'FakeRead', 'PlaceMention', 'Retag', 'Coverage', 'AscribeUserType', 'ConstEvalCounter')):
        return ('nop',)
    if st == 'return;': return ('return',)
    if st == 'unreachable;': return ('unreachable',)
    if st == 'resume;': return ('resume',)
    m = re.match(r'^goto -> (bb\d+);$', st)
    if m: return ('goto', m.group(1))
    m = re.match(r'^switchInt\((.*)\) -> \[(.*)\];$', st)
    if m:
        targets = []
        for t in split_top(m.group(2)):
            k, b = t.rsplit(': ', 1)
            targets.append((k, b))
        return ('switch', m.group(1), targets)
    m = re.match(r'^assert\((!?)(.*?), "(.*?)"(?:, .*)?\) -> \[success: (bb\d+), unwind.*\];$', st)
    if m: return ('assert', m.group(1) == '!', m.group(2), m.group(3), m.group(4))
    m = re.match(r'^drop\((.*)\) -> \[return: (bb\d+), unwind.*\];$', st)
    if m: return ('drop', m.group(1), m.group(2))
    if ' -> [return: ' in st or re.search(r'\) -> unwind', st):
        m = re.match(r'^(.+?) = (.*?)(?: -> \[return: (bb\d+), unwind[^\]]*\]| -> unwind[^;]*);$', st, re.S)
        if m:
            dst, rhs, ret = m.group(1).strip(), m.group(2), m.group(3)
            # split callee / args at the first '(' outside <...>
            d = 0; k = None
            for i, ch in enumerate(rhs):
                if ch == '<': d += 1
                elif ch == '>' and rhs[i - 1] not in '-=': d -= 1
                elif ch == '(' and d == 0: k = i; break
            if k is not None and rhs.endswith(')'):
                callee, args = rhs[:k].strip(), rhs[k + 1:-1]
                return ('call', dst, callee, split_top(args), ret)
    m = re.match(r'^(.+?) = ([\w:<>]+(?:::<.*>)?)\((.*)\) -> (?:unwind )?bb\d+;$', st, re.S)
    if m and balanced(m.group(3)): return ('call', m.group(1).strip(), m.group(2).strip(), split_top(m.group(3)), None)
    m = re.match(r'^(.+?) = (.*);$', st, re.S)
    if m: return ('assign', m.group(1).strip(), m.group(2).strip())
    return ('unknown', st)

def is_aggregate_head(h):
    return False

# =====================================================================================================
# values
# =====================================================================================================
INT_BITS = {'i8': 8, 'i16': 16, 'i32': 32, 'i64': 64, 'isize': 64, 'i128': 128, 'u8': 8, 'u16': 16, 'u32': 32, 'u64': 64, 'usize': 64, 'u128': 128, 'char': 32}

class Cell:
    __slots__ = ('v', 'frozen')
    def __init__(s, v=None): s.v = v; s.frozen = False
    def __repr__(s): return f'Cell({s.v!r})'

class Int:
    """machine integer / char: python int when concrete (fast path), z3 bit-vector otherwise"""
    __slots__ = ('_bv', 'ty', 'c')
    def __init__(s, bv, ty):
        s.ty = ty
        if isinstance(bv, int):
            nb = INT_BITS[ty]; bv &= (1 << nb) - 1
            s.c = bv - (1 << nb) if (ty[0] == 'i' and bv >> (nb - 1)) else bv
            s._bv = None
        else:
            s._bv = bv; s.c = False       # False = not yet known, None = known symbolic
    @property
    def bv(s):
        if s._bv is None: s._bv = z3.BitVecVal(s.c, INT_BITS[s.ty])
        return s._bv
    @property
    def signed(s): return s.ty[0] == 'i'
    def concrete(s):
        if s.c is False:
            v = z3.simplify(s._bv)
            if z3.is_bv_value(v): s.c = v.as_signed_long() if s.signed else v.as_long()
            else: s.c = None
        return s.c
    def __repr__(s):
        c = s.concrete()
        return f'{c}_{s.ty}' if c is not None else f'{s.ty}:{z3.simplify(s.bv)}'

class Bool:
    __slots__ = ('_b', 'c')
    def __init__(s, b):
        if isinstance(b, bool): s.c = b; s._b = None
        else: s._b = b; s.c = 0           # 0 = not yet known (distinct from False/True/None)
    @property
    def b(s):
        if s._b is None: s._b = z3.BoolVal(s.c)
        return s._b
    def concrete(s):
        if s.c == 0 and s.c is not False:
            v = z3.simplify(s._b)
            s.c = True if z3.is_true(v) else (False if z3.is_false(v) else None)
        return s.c
    def __repr__(s): return f'bool:{s.concrete() if s.concrete() is not None else z3.simplify(s.b)}'

class F64:
    __slots__ = ('f',)
    def __init__(s, f): s.f = z3.FPVal(float(f), z3.Float64()) if isinstance(f, (int, float)) else f
    def __repr__(s): return f'f64:{z3.simplify(s.f)}'

class Agg:
    """struct / tuple / enum variant / array / closure"""
    __slots__ = ('kind', 'ty', 'variant', 'fields', 'lazy')
    def __init__(s, kind, ty, variant, fields, lazy=None):
        s.kind, s.ty, s.variant, s.fields, s.lazy = kind, ty, variant, fields, lazy
    def __repr__(s):
        if s.kind == 'enum': return f'{s.ty}::{s.variant}({", ".join(repr(c.v) for c in s.fields)})'
        return f'{s.ty or s.kind}{{{", ".join(repr(c.v) for c in s.fields)}}}'

class Ptr:
    """reference, raw pointer, Box, Rc/Arc: points to a Cell"""
    __slots__ = ('cell', 'kind')
    def __init__(s, cell, kind='ref'): s.cell, s.kind = cell, kind
    def __repr__(s): return f'{s.kind}->{s.cell.v!r}'

class VecV:
    __slots__ = ('items',)
    def __init__(s, items=None): s.items = items if items is not None else []
    def __repr__(s): return f'vec{[c.v for c in s.items]!r}'

class SliceRef:
    """&[T] : a window of cells"""
    __slots__ = ('items',)
    def __init__(s, items): s.items = items
    def __repr__(s): return f'&{[c.v for c in s.items]!r}'

class StrV:
    """String (mutable, owned) or &str (view); chars: list of Python str (len 1) or Int(char)"""
    __slots__ = ('chars',)
    def __init__(s, chars): s.chars = list(chars)
    def concrete(s):
        if all(isinstance(c, str) for c in s.chars): return ''.join(s.chars)
        return None
    def __repr__(s):
        c = s.concrete()
        return repr(c) if c is not None else f'symstr{s.chars!r}'

class MapV:
    """BTreeMap<String, V> / HashMap<String, V> with concrete keys"""
    __slots__ = ('d', 'ordered', 'ik')
    def __init__(s, ordered=True): s.d = {}; s.ordered = ordered; s.ik = None          # ik: for integer-keyed maps, internal key -> the Int it stands for
    def keys(s): return sorted(s.d, key=lambda k: k.encode('utf-8')) if s.ordered else list(s.d)
    def __repr__(s): return f'map{{{", ".join(f"{k!r}: {s.d[k].v!r}" for k in s.keys())}}}'

class IterV:
    """iterator model: a Python iterator producing values, with adaptors applied lazily"""
    __slots__ = ('it', 'peeked')
    def __init__(s, it): s.it = it; s.peeked = []
class FnItem:
    __slots__ = ('name',)
    def __init__(s, name): s.name = name
    def __repr__(s): return f'fn<{s.name}>'
class PyFn:
    """harness-provided callable standing for a user closure: fn(ex, args) -> value"""
    __slots__ = ('fn', 'name')
    def __init__(s, fn, name='pyfn'): s.fn, s.name = fn, name
    def __repr__(s): return f'<pyfn {s.name}>'
class Opaque:
    __slots__ = ('tag',)
    def __init__(s, tag): s.tag = tag
    def __repr__(s): return f'<{s.tag}>'
class NumberV:
    """serde_json::Number : kind in {'pos','neg','float'} possibly symbolic via lazy enum; here concrete kind"""
    __slots__ = ('kind', 'val')
    def __init__(s, kind, val): s.kind, s.val = kind, val
    def __repr__(s): return f'Number::{s.kind}({s.val!r})'

UNIT = Agg('tuple', None, None, [])

class Panic(Exception): pass
class Unsupported(Exception): pass
class PathAbort(Exception): pass

def mk_enum(ty, variant, vals):
    return Agg('enum', ty, variant, [Cell(v) for v in vals])
def some(v): return mk_enum('Option', 'Some', [v])
def none(): return mk_enum('Option', 'None', [])
def ok(v): return mk_enum('Result', 'Ok', [v])
def err(v): return mk_enum('Result', 'Err', [v])
def rstr(pystr): return StrV(list(pystr))

def deep_copy(v):
    if isinstance(v, Agg):
        if v.lazy is not None: return v          # shared until materialised (copy of a still-lazy value keeps identity)
        return Agg(v.kind, v.ty, v.variant, [Cell(deep_copy(c.v)) for c in v.fields])
    return v

# =====================================================================================================
# engine
# =====================================================================================================
class Engine:
    def __init__(s, prog):
        s.prog = prog; s.solver = z3.Solver(); s.queries = 0; s.qtime = 0.0; s.cache = {}; s.stack = []; s.keep = None
        s.solver.set('timeout', int(os.environ.get('VERIF_QUERY_TIMEOUT_MS', '60000')))
        s.models = {}
        s.unsupported = {}
        s.fn_used = set(); s.models_used = set()
        s.deadline = None
        # second solver: every XCHECK-th discharged query is re-decided by cvc5 (SMT-LIB2 export); disagreements make the run inconclusive
        s.xcheck_every = int(os.environ.get('VERIF_XCHECK_EVERY', '1500')); s.xcheck = {'checked': 0, 'agree': 0, 'unknown': 0, 'disagree': []}
    def check(s, pc):
        """sat?(conjunction of pc) with model. The solver's assertion stack mirrors the longest common prefix with the previous
        query, so that successive queries of one path only add their new constraints."""
        key = tuple(c.get_id() for c in pc)
        skey = tuple(sorted(key))
        if skey in s.cache: return s.cache[skey][:2]
        if len(s.cache) > 60000: s.cache.clear()
        t = time.time()
        st = s.stack; k = 0; n = min(len(st), len(key))
        while k < n and st[k] == key[k]: k += 1
        if len(st) > k:
            s.solver.pop(len(st) - k); del st[k:]
        for i in range(k, len(key)):
            s.solver.push(); s.solver.add(pc[i]); st.append(key[i])
        s.keep = pc          # keep the ASTs alive: ids must stay unique while they are on the stack
        r = s.solver.check()
        m = s.solver.model() if r == z3.sat else None
        s.queries += 1; s.qtime += time.time() - t
        if r == z3.unknown:
            s.solver.pop(len(st)); del st[:]
            raise Unsupported('solver unknown: ' + s.solver.reason_unknown())
        s.cache[skey] = (r == z3.sat, m, pc)      # pc kept: AST ids are only unique among live ASTs
        if s.xcheck_every and s.queries % s.xcheck_every == 0: s.cross_check(pc, r == z3.sat)
        return s.cache[skey][:2]
    def cross_check(s, pc, z3_sat):
        import subprocess
        try:
            sol = z3.Solver(); sol.add(*pc); txt = '(set-logic ALL)\n' + sol.to_smt2()
            r = subprocess.run(['cvc5', '--lang', 'smt2', '--tlimit=8000'], input=txt, capture_output=True, text=True, timeout=20)
            out = r.stdout.strip().split('\n')[0] if r.stdout.strip() else ''
            s.xcheck['checked'] += 1
            if '(error' in r.stdout or out not in ('sat', 'unsat'): s.xcheck['unknown'] += 1
            elif (out == 'sat') == z3_sat: s.xcheck['agree'] += 1
            else: s.xcheck['disagree'].append({'z3': 'sat' if z3_sat else 'unsat', 'cvc5': out, 'query': txt[:600]})
        except Exception:
            s.xcheck['checked'] += 1; s.xcheck['unknown'] += 1
    def explore(s, body, on_path, max_paths=10**9, prefixes=None, stop_at_stack=None):
        """body(ex) runs one path; returns result. DFS with re-execution from decision prefixes.
        Returns (paths_completed, remaining_prefixes). remaining is non-empty when the deadline / max_paths / stop_at_stack hit."""
        stack = [list(p) for p in (prefixes if prefixes is not None else [[]])]; n = 0
        while stack and n < max_paths:
            if s.deadline is not None and time.time() > s.deadline: break
            if stop_at_stack is not None and len(stack) >= stop_at_stack: break
            prefix = stack.pop()
            ex = PathExec(s, prefix)
            try:
                r = ('ok', body(ex))
            except Panic as p:
                r = ('panic', str(p))
            except PathAbort as p:
                r = ('abort', str(p))
            except Unsupported as u:
                r = ('unsupported', str(u))
            n += 1
            on_path(ex, r)
            stack.extend(ex.alternatives)
        return n, stack

class Frame:
    __slots__ = ('fn', 'locals')
    def __init__(s, fn): s.fn = fn; s.locals = {}
    def cell(s, name):
        c = s.locals.get(name)
        if c is None:
            c = s.locals[name] = Cell()
        return c

PLACE_LOCAL = re.compile(r'^_\d+$')

class PathExec:
    def __init__(s, eng, prefix):
        s.eng, s.prog, s.prefix = eng, eng.prog, prefix
        s.decisions, s.alternatives, s.pc = [], [], []
        s.steps = 0; s.nfresh = 0
        s.depth = 0; s.max_depth = 0
        s.log = []
        s.cur_fn = None
    # ---- symbolic helpers
    def fresh(s, name, sort_bits):
        s.nfresh += 1
        return z3.BitVec(f'{name}!{len(s.decisions)}_{s.nfresh}', sort_bits)
    def assume(s, c): s.pc.append(c)
    def choose(s, conds):
        """conds: list of (label, z3 bool | python bool); returns label of the branch taken on this path."""
        simp = []
        for lab, c in conds:
            if c is True: return lab
            if c is False: continue
            c2 = z3.simplify(c)
            if z3.is_true(c2): return lab       # decided without solver, not a decision point
            if z3.is_false(c2): continue
            simp.append((lab, c2))
        if not simp: raise PathAbort('no feasible branch')
        k = len(s.decisions)
        if k < len(s.prefix):
            lab = s.prefix[k]
            for l2, c in simp:
                if l2 == lab:
                    s.pc.append(c); s.decisions.append(lab); return lab
            raise Unsupported(f'decision prefix does not replay (label {lab!r} not offered)')
        feas = []
        for lab, c in simp:
            sat, _ = s.eng.check(s.pc + [c])
            if sat: feas.append((lab, c))
        if not feas: raise PathAbort('infeasible path')
        for lab, c in feas[1:]:
            s.alternatives.append(s.decisions + [lab])
        lab, c = feas[0]
        s.pc.append(c); s.decisions.append(lab); return lab
    def branch_bool(s, b):
        if isinstance(b, Bool):
            c = b.concrete()
            if c is not None: return c
            b = b.b
        return s.choose([(True, b), (False, z3.Not(b))])
    def concretize_int(s, v, what='value', limit=64):
        """fork over the feasible concrete values of an Int (used for small domains such as lengths/tags)"""
        c = v.concrete()
        if c is not None: return c
        # enumerate by repeated solving
        vals = []
        pc = list(s.pc)
        while len(vals) <= limit:
            sat, m = s.eng.check(pc)
            if not sat: break
            x = m.eval(v.bv, model_completion=True)
            vals.append(x); pc.append(v.bv != x)
        if len(vals) > limit: raise Unsupported(f'too many values for {what}')
        lab = s.choose([(xv.as_long(), v.bv == xv) for xv in vals])
        return lab if not v.signed else z3.BitVecVal(lab, v.bv.size()).as_signed_long()

    def index_or_oob(s, iv, n):
        """fork over the in-range values 0..n-1 of an (unsigned) index and one out-of-bounds branch; returns int or None"""
        c = iv.concrete()
        if c is not None: return c if 0 <= c < n else None
        nb = iv.bv.size()
        conds = [(k, iv.bv == z3.BitVecVal(k, nb)) for k in range(n)] + [(None, z3.UGE(iv.bv, z3.BitVecVal(n, nb)))]
        return s.choose(conds)
    # ---- places -> Cell
    def place(s, fr, p):
        p = p.strip()
        if PLACE_LOCAL.match(p): return fr.cell(p)
        if p.startswith('('):
            j = match_paren(p, 0)
            if j == len(p) - 1: return s.place(fr, p[1:-1])
            inner, rest = p[:j + 1], p[j + 1:]
            return s.project(fr, s.place(fr, inner), rest)
        if p.startswith('*'):
            c = s.place(fr, p[1:])
            return s.deref(c.v)
        m = re.match(r'^(_\d+)(.*)$', p, re.S)
        if m: return s.project(fr, fr.cell(m.group(1)), m.group(2))
        raise Unsupported(f'place {p}')
    def deref(s, v):
        if isinstance(v, Ptr): return v.cell
        raise Unsupported(f'deref of {type(v).__name__} {v!r}')
    def project(s, fr, cell, rest):
        rest = rest.strip()
        while rest:
            m = re.match(r'^\.(\d+): ', rest)
            if m:
                # type annotation extends to the end of this (already paren-delimited) segment
                idx = int(m.group(1)); rest = ''
                cell = s.field(cell, idx); continue
            m = re.match(r'^\s*as (\w+)$', rest)
            if m:
                s.force_variant(cell, m.group(1)); rest = ''; continue
            m = re.match(r'^\[(_\d+)\]', rest)
            if m:
                iv = fr.cell(m.group(1)).v
                cell = s.index(cell, iv); rest = rest[m.end():]; continue
            m = re.match(r'^\[(\d+) of (\d+)\]', rest)
            if m:
                cell = s.index(cell, Int(int(m.group(1)), 'usize')); rest = rest[m.end():]; continue
            raise Unsupported(f'projection {rest}')
        return cell
    def field(s, cell, idx):
        v = cell.v
        if isinstance(v, Agg):
            if v.lazy is not None: raise Unsupported('field of unmaterialised lazy value')
            if idx >= len(v.fields): raise Unsupported(f'field .{idx} of {v!r}')
            return v.fields[idx]
        if isinstance(v, Ptr) and idx == 0:     # Box -> Unique -> NonNull chain: identity
            return Cell(v)
        if isinstance(v, NumberV) and idx == 0: return Cell(v)
        raise Unsupported(f'field .{idx} of {type(v).__name__}')
    def force_variant(s, cell, variant):
        v = cell.v
        if isinstance(v, Agg) and v.kind == 'enum':
            if v.lazy is not None:
                if getattr(v.lazy, 'tagvar', None) is not None: v.lazy(s, v, want=variant)
                else: s.materialize(v)
            if v.variant != variant: raise Unsupported(f'downcast {v.ty}::{v.variant} as {variant}')
            return
        if isinstance(v, Agg) and v.kind == 'coroutine': return
        raise Unsupported(f'downcast of {v!r}')
    def index(s, cell, iv):
        v = cell.v
        items = v.items if isinstance(v, (VecV, SliceRef)) else (v.fields if isinstance(v, Agg) and v.kind == 'array' else None)
        if items is None: raise Unsupported(f'index into {v!r}')
        i = s.index_or_oob(iv, len(items))
        if i is None: raise Panic('index out of bounds')
        return items[i]
    def materialize(s, agg):
        """lazy enum: fork over variants"""
        agg.lazy(s, agg)

    # ---- operands
    def operand(s, fr, op):
        op = op.strip()
        if op.startswith('copy '): return deep_copy(s.place(fr, op[5:]).v)
        if op.startswith('move '): return s.place(fr, op[5:]).v
        if op.startswith('const '): return s.const(op[6:].strip())
        if op.startswith('no_retag '): return s.operand(fr, op[9:])
        if re.match(r'^[<\w]', op) and ('::' in op or op in s.prog.fns or strip_generics(op) in s.prog.fns): return FnItem(op)
        raise Unsupported(f'operand {op}')
    def const(s, c):
        m = re.match(r'^(-?\d+)_(\w+)$', c)
        if m: return Int(int(m.group(1)), m.group(2))
        if c == 'true': return Bool(True)
        if c == 'false': return Bool(False)
        if c == '()': return UNIT
        if c.startswith('"'): return Ptr(Cell(rstr(unescape_rust(c[1:-1]))))
        if c.startswith('b"'): return Ptr(Cell(Opaque(('bytes', unescape_rust(c[2:-1])))))
        m = re.match(r"^'(.*)'$", c, re.S)
        if m: return Int(ord(unescape_rust(m.group(1))), 'char')
        m = re.match(r'^(-?[\d.]+(?:[eE][-+]?\d+)?)f64$', c)
        if m: return F64(float(m.group(1)))
        if strip_generics(c) == 'lazy_static::lazy::Lazy::INIT': return Agg('struct', 'LazyUninit', None, [])
        if '::{constant#' in c: return Opaque(('const-item', c))
        am = re.match(r'^\{(alloc\d+): (.+)\}$', c)
        if am: return s.static_ref(am.group(1))
        if c.startswith('ZeroSized: '): return s.zst(c[11:])
        if c in ('std::f64::EPSILON', 'f64::EPSILON'): return F64(2.220446049250313e-16)
        if c in ('std::f64::MIN_POSITIVE', 'f64::MIN_POSITIVE'): return F64(2.2250738585072014e-308)
        if c in ('std::f64::MAX', 'f64::MAX'): return F64(1.7976931348623157e308)
        if c in ('RangeFull', 'std::ops::RangeFull'): return Agg('struct', 'RangeFull', None, [])
        im = re.match(r'^(?:std::|core::)?(?:num::)?(i8|i16|i32|i64|i128|isize|u8|u16|u32|u64|u128|usize)::(MIN|MAX|BITS)$', c)
        if im:
            t, w = im.group(1), im.group(2); nb = INT_BITS[t]
            if w == 'BITS': return Int(nb, 'u32')
            if t[0] == 'i': return Int((1 << (nb - 1)) if w == 'MIN' else (1 << (nb - 1)) - 1, t)
            return Int(0 if w == 'MIN' else (1 << nb) - 1, t)
        fm = re.match(r'^(?:std::|core::)?(f64|f32)::(MAX|MIN|INFINITY|NEG_INFINITY|NAN|EPSILON|MIN_POSITIVE)$', c)
        if fm and fm.group(1) == 'f64':
            import sys as _sys
            return F64({'MAX': _sys.float_info.max, 'MIN': -_sys.float_info.max, 'INFINITY': float('inf'), 'NEG_INFINITY': float('-inf'), 'NAN': float('nan'), 'EPSILON': _sys.float_info.epsilon, 'MIN_POSITIVE': _sys.float_info.min}[fm.group(2)])
        pm = re.match(r'^(.*)::promoted\[(\d+)\]$', c)
        if pm and c not in s.prog.consts:
            base = s.prog.resolve(pm.group(1))
            if base is not None:
                nm = base.name.split('#')[0] + f'::promoted[{pm.group(2)}]'
                if nm in s.prog.consts: return s.run_fn(s.prog.consts[nm], [])
        k = c
        if k not in s.prog.consts and strip_generics(k) not in s.prog.consts and '::' in k:
            # items are printed with their module path at use sites but without it at their definition
            segs = strip_generics(k).split('::')
            for i in range(1, len(segs)):
                if '::'.join(segs[i:]) in s.prog.consts: k = '::'.join(segs[i:]); break
        if k in s.prog.consts or strip_generics(k) in s.prog.consts:
            cf = s.prog.consts.get(k) or s.prog.consts[strip_generics(k)]
            if isinstance(cf, str): return s.const(cf)
            return s.run_fn(cf, [])
        m = re.match(r'^(\w+(?:::\w+)*)$', c)       # unit struct / unit variant as const
        if m:
            last = c.split('::')[-1]
            if last in s.prog.consts:
                cf = s.prog.consts[last]
                return s.const(cf) if isinstance(cf, str) else s.run_fn(cf, [])
            if last in s.prog.decls.structs: return Agg('struct', last, None, [])
            raise Unsupported(f'const path {c}')
        raise Unsupported(f'const {c}')
    def static_ref(s, alloc):
        """&STATIC: statics live once per path (so a sequence of calls executed on one path shares global state)"""
        name = s.prog.allocs.get(alloc)
        if name is None: raise Unsupported(f'anonymous constant allocation {alloc}')
        st = s.__dict__.setdefault('statics', {})
        if name not in st:
            init = s.prog.consts.get(name) or s.prog.consts.get(name.split('::')[-1])
            if init is None: raise Unsupported(f'static {name} has no MIR initialiser')
            st[name] = Cell(s.const(init) if isinstance(init, str) else s.run_fn(init, []))
        return Ptr(st[name], 'ref')
    def zst(s, t):
        m = re.match(r'^\{closure@(' + SPAN + r')\}$', t)
        if m: return Agg('closure', m.group(1), s.cur_fn, [])
        return FnItem(strip_generics(t))

    # ---- rvalues
    def rvalue(s, fr, rv):
        fm = re.match(r'^(?:const )?(.+?) as (?:unsafe )?(?:extern "[^"]*" )?fn\(.*?\)(?: -> .+?)? \(PointerCoercion\((?:ReifyFnPointer|ClosureFnPointer).*\)\)$', rv, re.S)
        if fm:          # a function item / capture-less closure coerced to a function pointer
            op = fm.group(1).strip()
            if op.startswith(('copy ', 'move ')): return s.operand(fr, op)
            return s.fn_value(op) if hasattr(s, 'fn_value') else FnItem(strip_generics(op))
        if rv.startswith(('copy ', 'move ', 'const ', 'no_retag ')):
            cm = re.match(r'^(.*) as ([^()]+?) \((\w+(?:\([\w, ]*\))?)\)$', rv, re.S)
            if cm and balanced(cm.group(1)): return s.cast(s.operand(fr, cm.group(1)), cm.group(2).strip(), cm.group(3))
            return s.operand(fr, rv)
        if rv.startswith('&'):
            m = re.match(r'^&(?:raw (?:const|mut) |mut |fake shallow |fake )?(.*)$', rv, re.S)
            return Ptr(s.place(fr, m.group(1)), 'ref')
        m = re.match(r'^(\w+)\((.*)\)$', rv, re.S)
        if m and BUILTIN_RV.match(m.group(1)):
            return s.builtin(fr, m.group(1), split_top(m.group(2)))
        if rv.startswith('['):
            inner = rv[1:-1]
            rm = re.match(r'^(.*); (\d+)$', inner, re.S)
            if rm and balanced(rm.group(1)):
                v = s.operand(fr, rm.group(1)); return Agg('array', None, None, [Cell(deep_copy(v)) for _ in range(int(rm.group(2)))])
            return Agg('array', None, None, [Cell(s.operand(fr, x)) for x in split_top(inner)])
        if rv.startswith('('):
            return Agg('tuple', None, None, [Cell(s.operand(fr, x)) for x in split_top(rv[1:-1])])
        if rv.startswith('{closure@'):
            m = re.match(r'^\{closure@(' + SPAN + r')\}(?: \{(.*)\})?$', rv, re.S)
            caps = []
            if m.group(6):
                for part in split_top(m.group(6)):
                    caps.append(Cell(s.operand(fr, part.split(': ', 1)[1])))
            return Agg('closure', m.group(1), fr.fn.name, caps)
        return s.aggregate(fr, rv)
    def aggregate(s, fr, rv):
        # Path::<generics>::Variant(ops) | Path { f: op, .. } | Path::Variant | Path
        d0 = 0; k = None
        for i, ch in enumerate(rv):
            if ch == '<': d0 += 1
            elif ch == '>' and rv[i - 1] not in '-=': d0 -= 1
            elif d0 == 0 and (ch == '(' or rv.startswith(' {', i)): k = i; break
        targs = nargs = None
        if k is None: path = strip_generics(rv)
        else:
            path = strip_generics(rv[:k])
            if rv[k] == '(': targs = rv[k + 1:-1]
            else: nargs = rv[k + 2:-1].strip()
        segs = path.split('::')
        d = s.prog.decls
        # enum variant?
        if len(segs) >= 2 and segs[-2] in d.enums and any(v == segs[-1] for v, _ in d.enums[segs[-2]]):
            en, var = segs[-2], segs[-1]
            fnames = dict(d.enums[en])[var]
            if nargs is not None:
                vals = {}
                for part in split_top(nargs):
                    k, op = part.split(': ', 1); vals[k] = s.operand(fr, op)
                return mk_enum(en, var, [vals[f] for f in fnames])
            vals = [s.operand(fr, x) for x in split_top(targs)] if targs else []
            return mk_enum(en, var, vals)
        if segs[-1] in d.structs:
            st = segs[-1]; fnames = d.structs[st]
            if nargs is not None:
                vals = {}
                for part in split_top(nargs):
                    k, op = part.split(': ', 1); vals[k] = s.operand(fr, op)
                return Agg('struct', st, None, [Cell(vals[f]) for f in fnames])
            vals = [s.operand(fr, x) for x in split_top(targs)] if targs else []
            return Agg('struct', st, None, [Cell(v) for v in vals])
        if len(segs) == 1 and segs[0] in ('Less', 'Equal', 'Greater'): return mk_enum('Ordering', segs[0], [])
        if segs[-1] in ('Range',) and nargs is not None:
            return Agg('struct', 'Range', None, [Cell(s.operand(fr, part.split(': ', 1)[1])) for part in split_top(nargs)])
        if nargs is not None:      # struct not found in the declaration table (macro-generated): MIR prints fields in declaration order
            return Agg('struct', segs[-1], None, [Cell(s.operand(fr, part.split(': ', 1)[1])) for part in split_top(nargs)])
        raise Unsupported(f'aggregate {rv}')
    def cast(s, v, ty, kind):
        if kind == 'IntToInt':
            if isinstance(v, Bool):
                v = Int(1 if v.c else 0, 'u8') if v.concrete() is not None else Int(z3.If(v.b, z3.BitVecVal(1, 8), z3.BitVecVal(0, 8)), 'u8')
            if v.concrete() is not None: return Int(v.c, ty)
            nb, ob = INT_BITS[ty], v.bv.size()
            if nb == ob: bv = v.bv
            elif nb < ob: bv = z3.Extract(nb - 1, 0, v.bv)
            else: bv = z3.SignExt(nb - ob, v.bv) if v.signed else z3.ZeroExt(nb - ob, v.bv)
            return Int(bv, ty)
        if kind in ('PointerExposeProvenance', 'PointerExposeAddress') and isinstance(v, Ptr): return s.address_of(v.cell)
        if kind == 'Transmute' or kind.startswith('PtrToPtr') or kind.startswith('PointerCoercion'):
            if isinstance(v, Ptr):
                if kind.startswith('PointerCoercion(Unsize') and isinstance(v.cell.v, Agg) and v.cell.v.kind == 'array':
                    return Ptr(Cell(SliceRef(v.cell.v.fields)))
                return Ptr(v.cell, 'raw' if 'const' in ty or '*mut' in ty else v.kind)
            if isinstance(v, (FnItem, Agg)): return v
            raise Unsupported(f'cast {kind} of {v!r}')
        if kind == 'IntToFloat':
            return F64(z3.fpSignedToFP(z3.RNE(), v.bv, z3.Float64()) if v.signed else z3.fpUnsignedToFP(z3.RNE(), v.bv, z3.Float64()))
        if kind == 'FloatToFloat':
            if ty == 'f64': return v
            return F64(z3.fpToFP(z3.RNE(), z3.fpToFP(z3.RNE(), v.f, z3.Float32()), z3.Float64()))      # f32 values are carried as their exact f64 widening
        if kind == 'FloatToInt':
            nb = INT_BITS[ty]; sg = ty[0] == 'i'
            lo, hi = (-(1 << (nb - 1)), (1 << (nb - 1)) - 1) if sg else (0, (1 << nb) - 1)
            f = v.f; t = z3.fpRoundToIntegral(z3.RTZ(), f)
            conv = z3.fpToSBV(z3.RTZ(), t, z3.BitVecSort(nb)) if sg else z3.fpToUBV(z3.RTZ(), t, z3.BitVecSort(nb))
            flo, fhi = z3.FPVal(float(lo), z3.Float64()), z3.FPVal(float(hi), z3.Float64())
            return Int(z3.If(z3.fpIsNaN(f), z3.BitVecVal(0, nb), z3.If(z3.fpLEQ(f, flo), z3.BitVecVal(lo, nb), z3.If(z3.fpGEQ(f, fhi), z3.BitVecVal(hi, nb), conv))), ty)
        raise Unsupported(f'cast kind {kind}')
    def builtin(s, fr, op, args):
        if op == 'discriminant':
            cell = s.place(fr, args[0]); v = cell.v
            if isinstance(v, Agg) and v.kind == 'enum':
                if v.lazy is not None and getattr(v.lazy, 'tagvar', None) is not None:
                    return Int(v.lazy.tagvar, 'isize')
                if v.lazy is not None: s.materialize(v)
                idx = s.prog.decls.variant_index(v.ty, v.variant)
                return Int(s.prog.decls.discr_value(v.ty, idx) & ((1 << 64) - 1), 'isize')
            raise Unsupported(f'discriminant of {v!r}')
        if op in ('PtrMetadata', 'Len'):
            v = s.operand(fr, args[0]) if op == 'PtrMetadata' else s.place(fr, args[0]).v
            if isinstance(v, Ptr): v = v.cell.v
            if isinstance(v, (SliceRef, VecV)): return Int(len(v.items), 'usize')
            if isinstance(v, StrV): return s.str_byte_len(v)
            if isinstance(v, Agg) and v.kind == 'array': return Int(len(v.fields), 'usize')
            raise Unsupported(f'PtrMetadata of {v!r}')
        vals = [s.operand(fr, a) for a in args]
        a = vals[0]
        if isinstance(a, Int) and a.concrete() is not None and (len(vals) == 1 or (isinstance(vals[1], Int) and vals[1].concrete() is not None)):
            r = s.builtin_concrete(op, a, vals[1] if len(vals) > 1 else None)
            if r is not None: return r
        if isinstance(a, Bool) and a.concrete() is not None and (len(vals) == 1 or (isinstance(vals[1], Bool) and vals[1].concrete() is not None)):
            x = a.c; y = vals[1].c if len(vals) > 1 else None
            if op == 'Not': return Bool(not x)
            if op in ('Eq', 'Ne', 'BitAnd', 'BitOr', 'BitXor'):
                return Bool({'Eq': x == y, 'Ne': x != y, 'BitAnd': x and y, 'BitOr': x or y, 'BitXor': x != y}[op])
        if op == 'Not':
            return Bool(z3.Not(a.b)) if isinstance(a, Bool) else Int(~a.bv, a.ty)
        if op == 'Neg':
            return F64(z3.fpNeg(a.f)) if isinstance(a, F64) else Int(-a.bv, a.ty)
        b = vals[1]
        if isinstance(a, F64):
            f = {'Add': lambda: z3.fpAdd(z3.RNE(), a.f, b.f), 'Sub': lambda: z3.fpSub(z3.RNE(), a.f, b.f), 'Mul': lambda: z3.fpMul(z3.RNE(), a.f, b.f),
                 'Div': lambda: z3.fpDiv(z3.RNE(), a.f, b.f)}
            if op in f: return F64(f[op]())
            c = {'Eq': lambda: z3.fpEQ(a.f, b.f), 'Ne': lambda: z3.Not(z3.fpEQ(a.f, b.f)), 'Lt': lambda: z3.fpLT(a.f, b.f), 'Le': lambda: z3.fpLEQ(a.f, b.f),
                 'Gt': lambda: z3.fpGT(a.f, b.f), 'Ge': lambda: z3.fpGEQ(a.f, b.f)}
            return Bool(c[op]())
        if isinstance(a, Bool):
            c = {'Eq': lambda: a.b == b.b, 'Ne': lambda: a.b != b.b, 'BitAnd': lambda: z3.And(a.b, b.b), 'BitOr': lambda: z3.Or(a.b, b.b), 'BitXor': lambda: z3.Xor(a.b, b.b)}
            return Bool(c[op]())
        if isinstance(a, Ptr) and op in ('Eq', 'Ne'):
            same = a.cell is b.cell
            return Bool(same if op == 'Eq' else not same)
        sg = a.signed
        x, y = a.bv, b.bv
        if op in ('AddWithOverflow', 'SubWithOverflow', 'MulWithOverflow'):
            if op[0] == 'A':
                r = x + y; nov = z3.And(z3.BVAddNoOverflow(x, y, sg), z3.BVAddNoUnderflow(x, y)) if sg else z3.BVAddNoOverflow(x, y, False)
            elif op[0] == 'S':
                r = x - y; nov = z3.And(z3.BVSubNoOverflow(x, y), z3.BVSubNoUnderflow(x, y, True)) if sg else z3.BVSubNoUnderflow(x, y, False)
            else:
                r = x * y; nov = z3.And(z3.BVMulNoOverflow(x, y, sg), z3.BVMulNoUnderflow(x, y)) if sg else z3.BVMulNoOverflow(x, y, False)
            return Agg('tuple', None, None, [Cell(Int(r, a.ty)), Cell(Bool(z3.Not(nov)))])
        ar = {'Add': lambda: x + y, 'Sub': lambda: x - y, 'Mul': lambda: x * y, 'AddUnchecked': lambda: x + y, 'SubUnchecked': lambda: x - y, 'MulUnchecked': lambda: x * y,
              'BitAnd': lambda: x & y, 'BitOr': lambda: x | y, 'BitXor': lambda: x ^ y,
              'Div': lambda: (x / y) if sg else z3.UDiv(x, y), 'Rem': lambda: z3.SRem(x, y) if sg else z3.URem(x, y)}
        if op in ar: return Int(ar[op](), a.ty)
        if op in ('Shl', 'Shr', 'ShlUnchecked', 'ShrUnchecked'):
            yy = y if y.size() == x.size() else (z3.ZeroExt(x.size() - y.size(), y) if y.size() < x.size() else z3.Extract(x.size() - 1, 0, y))
            if op.startswith('Shl'): return Int(x << yy, a.ty)
            return Int((x >> yy) if sg else z3.LShR(x, yy), a.ty)
        c = {'Eq': lambda: x == y, 'Ne': lambda: x != y,
             'Lt': lambda: x < y if sg else z3.ULT(x, y), 'Le': lambda: x <= y if sg else z3.ULE(x, y),
             'Gt': lambda: x > y if sg else z3.UGT(x, y), 'Ge': lambda: x >= y if sg else z3.UGE(x, y)}
        if op in c: return Bool(c[op]())
        raise Unsupported(f'builtin {op}')
    def builtin_concrete(s, op, a, b):
        x = a.c; nb = INT_BITS[a.ty]; sg = a.signed
        lo, hi = (-(1 << (nb - 1)), (1 << (nb - 1)) - 1) if sg else (0, (1 << nb) - 1)
        if b is None:
            if op == 'Not': return Int(~x, a.ty)
            if op == 'Neg': return Int(-x, a.ty)
            return None
        y = b.c
        if op in ('AddWithOverflow', 'SubWithOverflow', 'MulWithOverflow'):
            r = x + y if op[0] == 'A' else (x - y if op[0] == 'S' else x * y)
            return Agg('tuple', None, None, [Cell(Int(r, a.ty)), Cell(Bool(not (lo <= r <= hi)))])
        if op in ('Add', 'AddUnchecked'): return Int(x + y, a.ty)
        if op in ('Sub', 'SubUnchecked'): return Int(x - y, a.ty)
        if op in ('Mul', 'MulUnchecked'): return Int(x * y, a.ty)
        if op == 'BitAnd': return Int(x & y, a.ty)
        if op == 'BitOr': return Int(x | y, a.ty)
        if op == 'BitXor': return Int(x ^ y, a.ty)
        if op == 'Eq': return Bool(x == y)
        if op == 'Ne': return Bool(x != y)
        if op == 'Lt': return Bool(x < y)
        if op == 'Le': return Bool(x <= y)
        if op == 'Gt': return Bool(x > y)
        if op == 'Ge': return Bool(x >= y)
        if op in ('Div', 'Rem') and y != 0:
            q = abs(x) // abs(y); q = -q if (x < 0) != (y < 0) else q
            return Int(q, a.ty) if op == 'Div' else Int(x - q * y, a.ty)
        if op in ('Shl', 'ShlUnchecked'): return Int(x << (y % nb), a.ty)
        if op in ('Shr', 'ShrUnchecked'): return Int(x >> (y % nb), a.ty)
        return None
    def str_byte_len(s, sv):
        n = 0; sym = None
        for ch in sv.chars:
            if isinstance(ch, str): n += len(ch.encode('utf-8'))
            else:
                w = z3.If(z3.ULT(ch.bv, 0x80), z3.BitVecVal(1, 64), z3.If(z3.ULT(ch.bv, 0x800), z3.BitVecVal(2, 64), z3.If(z3.ULT(ch.bv, 0x10000), z3.BitVecVal(3, 64), z3.BitVecVal(4, 64))))
                sym = w if sym is None else sym + w
        return Int(z3.BitVecVal(n, 64) + sym if sym is not None else n, 'usize')

    # ---- execution
    def run_fn(s, fn, args):
        fr = Frame(fn); s.eng.fn_used.add(fn.name)
        for p, a in zip(fn.params, args): fr.locals[p] = Cell(a)
        s.depth += 1
        if s.depth > s.max_depth: s.max_depth = s.depth
        if s.depth > 400: raise Unsupported('recursion depth')
        bb = 'bb0'
        try:
            while True:
                nxt = None
                for st in fn.blocks[bb]:
                    s.steps += 1
                    if s.steps > 2_000_000: raise PathAbort('step budget')
                    try:
                        nxt = s.step(fr, st)
                    except Unsupported as e:
                        if not getattr(e, 'annotated', False):
                            e.annotated = True; e.args = (f'{e.args[0]}   [in {fn.name} {bb}: {st}]',)
                        raise
                    if nxt is not None: break
                if nxt == 'RETURN': return fr.cell('_0').v
                if nxt is None: raise Unsupported(f'fallthrough in {fn.name} {bb}')
                bb = nxt
        finally:
            s.depth -= 1
    def step(s, fr, st):
        k = st[0]; s.cur_fn = fr.fn.name
        if k == 'nop': return None
        if k == 'assign':
            v = s.rvalue(fr, st[2]); dst = s.place(fr, st[1])
            if dst.frozen: raise Panic('WRITE-TO-FROZEN')
            dst.v = v; return None
        if k == 'call':
            _, dst, callee, args, ret = st
            argv = [s.operand(fr, a) for a in args]
            if re.match(r'^(move|copy) [_(*]', callee): r = s.call_value(s.operand(fr, callee), argv)          # call through a function pointer held in a local
            else: r = s.call(callee, argv)
            if ret is None: raise Unsupported(f'diverging call returned: {callee}')
            d = s.place(fr, dst)
            if d.frozen: raise Panic('WRITE-TO-FROZEN')
            d.v = r
            return ret
        if k == 'goto': return st[1]
        if k == 'switch':
            v = s.operand(fr, st[1])
            return s.switch(v, st[2])
        if k == 'assert':
            _, neg, opnd, msg, succ = st
            v = s.operand(fr, opnd)
            vc = v.concrete()
            if vc is not None:
                if vc != neg: return succ
                raise Panic(msg)
            okc = z3.Not(v.b) if neg else v.b
            if s.choose([('ok', okc), ('fail', z3.Not(okc))]) == 'fail': raise Panic(msg)
            return succ
        if k == 'drop':
            if s.prog.drop_types or getattr(s, 'addrs', None): s.run_drop(fr, st[1])
            return st[2]
        if k == 'return': return 'RETURN'
        if k == 'unreachable': raise Unsupported('reached `unreachable`')
        raise Unsupported(f'statement {st}')
    def switch(s, v, targets):
        c = v.concrete()
        if c is not None:
            if isinstance(v, Bool): c = 1 if c else 0
            else: c &= (1 << INT_BITS[v.ty]) - 1
            oth = None
            for kx, b in targets:
                if kx == 'otherwise': oth = b
                elif (int(kx) & ((1 << (INT_BITS[v.ty] if isinstance(v, Int) else 8)) - 1)) == c: return b
            if oth is None: raise Unsupported('switch without matching target')
            return oth
        if isinstance(v, Bool): bv = z3.If(v.b, z3.BitVecVal(1, 8), z3.BitVecVal(0, 8))
        else: bv = v.bv
        conds, others = [], []
        for kx, b in targets:
            if kx == 'otherwise': continue
            c = bv == z3.BitVecVal(int(kx), bv.size()); conds.append(((b, kx), c)); others.append(z3.Not(c))
        for kx, b in targets:
            if kx == 'otherwise': conds.append(((b, 'o'), z3.And(*others) if others else z3.BoolVal(True)))
        return s.choose(conds)[0]

    # ---- addresses: an exposed address is a fresh symbolic word, distinct from the addresses of all objects that are still alive; the address of an object
    # that has been dropped may be handed out again (the allocator's choice = the solver's choice)
    def address_of(s, cell):
        t = s.__dict__.setdefault('addrs', {})
        if id(cell) in t: return t[id(cell)][1]
        a = s.fresh('addr', 64)
        s.assume(z3.And(a != 0, (a & 7) == 0))
        dead = s.__dict__.setdefault('dead', set())
        for c2, a2 in t.values():
            if id(c2) not in dead: s.assume(a != a2.bv)
        r = Int(a, 'usize'); t[id(cell)] = (cell, r)
        return r
    # ---- drops: user `impl Drop` bodies run where the (drop-elaborated) MIR drops an initialised place; std types have no observable drop
    def run_drop(s, fr, place):
        try: cell = s.place(fr, place)
        except (Unsupported, KeyError, AttributeError): return
        s.drop_value(cell, 0)
    def drop_value(s, cell, depth):
        v = cell.v
        if v is None or depth > 12: return
        if getattr(s, 'addrs', None) is not None: s.__dict__.setdefault('dead', set()).add(id(cell))
        if isinstance(v, Agg):
            if v.lazy is not None: return
            f = s.prog.drop_types.get(v.ty) if v.ty else None
            if f is not None: s.run_fn(f, [Ptr(cell, 'ref')]); v = cell.v
            if isinstance(v, Agg):
                for c in v.fields: s.drop_value(c, depth + 1)
        elif isinstance(v, VecV):
            for c in v.items: s.drop_value(c, depth + 1)
        elif isinstance(v, Ptr) and v.kind == 'box': s.drop_value(v.cell, depth + 1)
        elif isinstance(v, MapV):
            for k in list(v.d): s.drop_value(v.d[k], depth + 1)

    # ---- calls
    def call(s, callee, args):
        okey = strip_generics(callee)
        for rx, f in MODEL_OVERRIDES:
            mm = rx.match(okey)
            if mm:
                s.cur_callee = callee
                r = f(s, args, mm)
                if r is not NotImplemented:
                    s.eng.models_used.add(f.__name__); return r
        fn = s.prog.resolve(callee)
        if fn is not None: return s.run_fn(fn, args)
        key = strip_generics(callee)
        s.cur_callee = callee
        m = MODELS.get(key)
        if m is None:
            for rx, f in MODEL_PATTERNS:
                mm = rx.match(key)
                if mm:
                    s.eng.models_used.add(f.__name__); return f(s, args, mm)
            s.eng.unsupported[key] = s.eng.unsupported.get(key, 0) + 1
            raise Unsupported(f'call {key}')
        s.eng.models_used.add(key)
        return m(s, args)
    def call_value(s, f, args):
        """call a closure / fn item value"""
        while isinstance(f, Ptr): f = f.cell.v
        if isinstance(f, PyFn): return f.fn(s, list(args))
        if isinstance(f, Agg) and f.kind == 'closure':
            cands = s.prog.closures.get(f.ty) or []
            if len(cands) > 1 and f.variant:
                pref = f.variant.split('#')[0]
                c2 = [c for c in cands if c.name.startswith(pref + '::{closure')]
                # nested closures: creator may itself be a closure of the same parent
                cands = c2 or [c for c in cands if c.name.startswith(pref.split('::{closure')[0] + '::{closure')]
            if len(cands) != 1: raise Unsupported(f'closure body {f.ty} ({len(cands)} candidates)')
            fn = cands[0]
            selfty = fn.locals[fn.params[0]]
            selfarg = Ptr(Cell(f)) if selfty.startswith('&') else f
            return s.run_fn(fn, [selfarg] + list(args))
        if isinstance(f, FnItem): return s.call(f.name, list(args))
        raise Unsupported(f'call of value {f!r}')

def match_paren(p, i):
    d = 0
    for j in range(i, len(p)):
        if p[j] in '([': d += 1
        elif p[j] in ')]':
            d -= 1
            if d == 0: return j
    raise ValueError(p)
def balanced(sx):
    d = 0
    for c in sx:
        if c in '([{': d += 1
        elif c in ')]}': d -= 1
        if d < 0: return False
    return d == 0

MODELS = {}
MODEL_PATTERNS = []
MODEL_OVERRIDES = []          # models that take precedence over crate MIR (may return NotImplemented to decline)
def model_override(rx):
    def deco(f):
        MODEL_OVERRIDES.append((re.compile(rx), f)); return f
    return deco
def model(*names):
    def deco(f):
        for n in names: MODELS[n] = f
        return f
    return deco
def model_rx(rx):
    def deco(f):
        MODEL_PATTERNS.append((re.compile(rx), f)); return f
    return deco

