"""std / serde_json models for the mirsym prototype (design-phase probe)."""
import re, json, os
import z3
from .core import *
from .core import MODELS, MODEL_PATTERNS, model, model_rx, model_override

def deref_all(v):
    while isinstance(v, Ptr): v = v.cell.v
    return v
def pyint(ex, v, what='int'):
    return ex.concretize_int(v, what)
def MM_branch(ex, b):
    c = b.concrete()
    return c if c is not None else ex.branch_bool(b)
def pybool(ex, v):
    c = v.concrete()
    if c is not None: return c
    return ex.branch_bool(v)
def opt(v): return none() if v is None else some(v)

# ------------------------------------------------------------------------------------------ Try / residuals
@model_rx(r'^<(Result|Option|std::result::Result|std::option::Option)<.*> as Try>::branch$')
def m_try_branch(ex, a, m):
    v = a[0]
    if v.lazy is not None: ex.materialize(v)
    if v.variant in ('Ok', 'Some'):
        return mk_enum('ControlFlow', 'Continue', [v.fields[0].v])
    if v.variant == 'Err':
        return mk_enum('ControlFlow', 'Break', [mk_enum('Result', 'Err', [v.fields[0].v])])
    return mk_enum('ControlFlow', 'Break', [none()])

@model_rx(r'^<(Result|Option)<.*> as FromResidual<.*>>::from_residual$')
def m_from_residual(ex, a, m):
    v = a[0]
    if v.variant == 'Err':
        e = v.fields[0].v
        # From conversion of the error type: serde_json::Error -> JmespathError is a crate impl
        if isinstance(e, Agg) and e.ty == 'SerdeJsonError' and 'JmespathError' in m.group(0).split('FromResidual')[0]:
            f = ex.prog.by_key.get(('From', 'JmespathError', 'from'))
            e = ex.run_fn(f, [e])
        return err(e)
    return none()

# ------------------------------------------------------------------------------------------ Deref / Clone / basic ptr
@model_rx(r'^<(Rc|Arc|Box|std::rc::Rc|std::sync::Arc|std::boxed::Box)<.*> as (Deref|DerefMut|AsRef<.*>|Borrow<.*>)>::(deref|deref_mut|as_ref|borrow)$')
def m_rc_deref(ex, a, m): return Ptr(deref_ptr(a[0]).cell, 'ref')
def deref_ptr(p):
    # a[0] is &Rc<T>: pointer to cell holding Ptr(rc)
    inner = p.cell.v
    if not isinstance(inner, Ptr): raise Unsupported(f'deref of {inner!r}')
    return inner
@model_rx(r'^(Rc|Arc|Box)::new$')
def m_rc_new(ex, a, m): return Ptr(Cell(a[0]), 'rc' if m.group(1) != 'Box' else 'box')
@model_rx(r'^<(Rc|Arc)<.*> as Clone>::clone$')
def m_rc_clone(ex, a, m): return a[0].cell.v
@model_rx(r'^<Box<.*> as Clone>::clone$')
def m_box_clone(ex, a, m):
    return Ptr(Cell(clone_value(ex, a[0].cell.v.cell.v)), 'box')
@model_rx(r'^<Box<.*> as Drop>::drop$')
def m_box_drop(ex, a, m): return UNIT
@model_rx(r'^<Box<dyn .*> as Fn.*>::call$|^<[A-Z] as Fn(Mut|Once)?<.*>>::call(_mut|_once)?$|^<.* as Fn(Mut|Once)?<.*>>::call(_mut|_once)?$')
def m_fn_call(ex, a, m):
    f = a[0]; tup = a[1]
    fv = deref_all(f) if not isinstance(f, Agg) else f
    if fv is None:
        # a capture-less closure is a zero-sized value that MIR never initialises: its identity is in the callee's type
        cm = re.search(r'\{closure@(' + SPAN + r')\}', ex.cur_callee or '')
        if cm: fv = Agg('closure', cm.group(1), ex.cur_fn, [])
    return ex.call_value(fv, [c.v for c in tup.fields])

def clone_value(ex, v):
    """semantic Clone"""
    if isinstance(v, (Int, Bool, F64, NumberV, FnItem, Opaque, PyFn)): return v
    if isinstance(v, StrV): return StrV(v.chars)
    if isinstance(v, Ptr):
        if v.kind in ('rc', 'ref', 'raw'): return v
        return Ptr(Cell(clone_value(ex, v.cell.v)), 'box')
    if isinstance(v, VecV): return VecV([Cell(clone_value(ex, c.v)) for c in v.items])
    if isinstance(v, MapV):
        m = MapV(v.ordered)
        for k in v.d: m.d[k] = Cell(clone_value(ex, v.d[k].v))
        return m
    if isinstance(v, Agg):
        if v.lazy is not None: ex.materialize(v)
        return Agg(v.kind, v.ty, v.variant, [Cell(clone_value(ex, c.v)) for c in v.fields])
    raise Unsupported(f'clone of {v!r}')
@model_rx(r'^<(std::string::String|Vec<.*>|std::option::Option<.*>|BTreeMap<.*>) as Clone>::clone$')
def m_clone(ex, a, m): return clone_value(ex, a[0].cell.v)

# ------------------------------------------------------------------------------------------ strings
def as_str(v):
    v = deref_all(v)
    if isinstance(v, StrV): return v
    raise Unsupported(f'not a string: {v!r}')
def conc(ex, sv, what='string'):
    c = sv.concrete()
    if c is None: raise Unsupported(f'symbolic {what}')
    return c
@model('std::string::String::new')
def m_string_new(ex, a): return StrV([])
@model('<str as ToOwned>::to_owned', '<str as ToString>::to_string', '<std::string::String as From<&str>>::from', '<std::string::String as ToOwned>::to_owned', '<std::string::String as ToString>::to_string', '<&str as Into<std::string::String>>::into')
def m_to_owned(ex, a): return StrV(as_str(a[0]).chars)
@model('<std::string::String as Deref>::deref', '<std::string::String as AsRef<str>>::as_ref', 'std::string::String::as_str', '<std::string::String as Borrow<str>>::borrow')
def m_string_deref(ex, a): return Ptr(a[0].cell, 'ref')
@model_rx(r'^(?:std::string::|alloc::string::)?String::(with_capacity|reserve|reserve_exact|shrink_to_fit|capacity|clear|truncate|pop|insert|insert_str|remove|into_boxed_str|as_mut_str|into_bytes|chars|from_utf8_lossy|extend)$')
def m_string_more(ex, a, m):
    op = m.group(1)
    if op == 'with_capacity': return StrV([])
    sv = a[0].cell.v if isinstance(a[0], Ptr) else a[0]
    if op in ('reserve', 'reserve_exact', 'shrink_to_fit'): return UNIT
    if op == 'capacity': return ex.str_byte_len(sv)
    if op == 'clear': del sv.chars[:]; return UNIT
    if op == 'pop':
        if not sv.chars: return none()
        return some(char_val(sv.chars.pop()))
    if op == 'chars': return IterV(iter([char_val(c) for c in sv.chars]))
    if op in ('into_boxed_str', 'as_mut_str'): return a[0]
    if op in ('truncate', 'insert', 'insert_str', 'remove'):
        # byte positions: exact when every character before the position has a known width
        k = a[1].concrete()
        if k is None: raise Unsupported(f'String::{op} at a symbolic position')
        pos = 0; idx = None
        for i, c in enumerate(sv.chars + [None]):
            if pos == k: idx = i; break
            if c is None: break
            w = ex.str_byte_len(StrV([c])).concrete()
            if w is None: raise Unsupported(f'String::{op} behind a character of unknown width')
            pos += w
            if pos > k: raise Panic(f'String::{op}: byte index {k} is not a char boundary')
        if idx is None:
            if op == 'truncate': return UNIT
            raise Panic(f'String::{op}: byte index {k} out of bounds')
        if op == 'truncate': del sv.chars[idx:]; return UNIT
        if op == 'insert':
            ch = a[2]; c = ch.concrete(); sv.chars.insert(idx, chr(c) if c is not None else ch); return UNIT
        if op == 'insert_str': sv.chars[idx:idx] = list(as_str(a[2]).chars); return UNIT
        if idx >= len(sv.chars): raise Panic('String::remove: cannot remove a char from the end of a string')
        return char_val(sv.chars.pop(idx))
    raise Unsupported('String::' + op)
@model('std::string::String::push')
def m_string_push(ex, a):
    sv = a[0].cell.v; ch = a[1]; c = ch.concrete()
    sv.chars.append(chr(c) if c is not None else ch); return UNIT
@model('std::string::String::push_str')
def m_string_push_str(ex, a):
    a[0].cell.v.chars.extend(as_str(a[1]).chars); return UNIT
@model('<char as ToString>::to_string')
def m_char_to_string(ex, a):
    ch = deref_all(a[0]); c = ch.concrete()
    return StrV([chr(c) if c is not None else ch])
@model('core::str::<impl str>::len', 'std::string::String::len')
def m_str_len(ex, a): return ex.str_byte_len(as_str(a[0]))
@model('std::string::String::is_empty', 'core::str::<impl str>::is_empty')
def m_str_is_empty(ex, a): return Bool(len(as_str(a[0]).chars) == 0)
def char_val(c): return Int(ord(c), 'char') if isinstance(c, str) else c
@model('core::str::<impl str>::chars')
def m_chars(ex, a): return IterV(iter([char_val(c) for c in as_str(a[0]).chars]))
@model('core::str::<impl str>::encode_utf16')
def m_encode_utf16(ex, a):
    out = []
    for c in as_str(a[0]).chars:
        cv = char_val(c); k = cv.concrete()
        if k is None: k_astral = ex.choose([(False, z3.ULT(cv.bv, z3.BitVecVal(0x10000, 32))), (True, z3.UGE(cv.bv, z3.BitVecVal(0x10000, 32)))])
        else: k_astral = k >= 0x10000
        if not k_astral: out.append(Int(k, 'u16') if k is not None else Int(z3.Extract(15, 0, cv.bv), 'u16'))
        elif k is not None: out += [Int(0xD800 + ((k - 0x10000) >> 10), 'u16'), Int(0xDC00 + ((k - 0x10000) & 0x3FF), 'u16')]
        else:
            d = cv.bv - z3.BitVecVal(0x10000, 32)
            out += [Int(z3.Extract(15, 0, z3.BitVecVal(0xD800, 32) + z3.LShR(d, 10)), 'u16'), Int(z3.Extract(15, 0, z3.BitVecVal(0xDC00, 32) + (d & 0x3FF)), 'u16')]
    return IterV(iter(out))
@model('core::str::<impl str>::char_indices')
def m_char_indices(ex, a):
    sv = as_str(a[0]); out = []; pos = Int(0, 'usize')
    for c in sv.chars:
        out.append(Agg('tuple', None, None, [Cell(pos), Cell(char_val(c))]))
        w = ex.str_byte_len(StrV([c]))
        pos = Int(z3.simplify(pos.bv + w.bv), 'usize')
    return IterV(iter(out))
@model_rx(r'^(?:core::|alloc::|std::)?str::<impl str>::replace$')
def m_replace(ex, a, m):
    src, pat, to = as_str(a[0]), conc(ex, as_str(a[1])), conc(ex, as_str(a[2]))
    c0 = src.concrete()
    if c0 is not None: return rstr(c0.replace(pat, to))
    # symbolic chars: left-to-right non-overlapping matching, forking on each character comparison
    out, i, n, k = [], 0, len(src.chars), len(pat)
    def is_ch(c, p):
        if isinstance(c, str): return c == p
        return ex.branch_bool(Bool(c.bv == ord(p)))
    while i < n:
        if i + k <= n and all(is_ch(src.chars[i + j], pat[j]) for j in range(k)):
            out.extend(list(to)); i += k
        else:
            out.append(src.chars[i]); i += 1
    return StrV(out)
@model_rx(r'^(?:core::|alloc::|std::)?str::<impl str>::parse$')
def m_parse_int(ex, a, m):
    """str::parse::<iN/uN>() ; the target type is read from the call's turbofish. Symbolic characters are supported when every one is
    a decimal digit on this path (the lexer only passes digit runs); otherwise the character classes are forked."""
    tm = re.search(r'::parse::<(\w+)>$', ex.cur_callee)
    ty = tm.group(1) if tm else 'i32'
    if ty in ('f64', 'f32'):
        txt = as_str(a[0]).concrete()
        if txt is None: raise Unsupported(f'str::parse::<{ty}> of a symbolic string')
        if not re.fullmatch(r'[+-]?((\d+\.?\d*|\.\d+)([eE][+-]?\d+)?|inf|infinity|nan)', txt, re.I): return err(Opaque('ParseFloatError'))
        x = float(txt)
        if ty == 'f32':
            import struct as _st
            try: x = _st.unpack('<f', _st.pack('<f', x))[0]
            except OverflowError: x = float('inf') if x > 0 else float('-inf')
        return ok(F64(x))
    if ty not in INT_BITS or ty == 'char': raise Unsupported(f'str::parse::<{ty}>')
    sv = as_str(a[0]); txt = sv.concrete()
    nb = INT_BITS[ty]; sg = ty[0] == 'i'
    lo, hi = (-(1 << (nb - 1)), (1 << (nb - 1)) - 1) if sg else (0, (1 << nb) - 1)
    if txt is not None:
        if re.fullmatch(r'[+-]?[0-9]+', txt) and (sg or txt[0] != '-') and lo <= int(txt) <= hi: return ok(Int(int(txt), ty))
        return err(Opaque('ParseIntError'))
    chars = list(sv.chars)
    if not chars: return err(Opaque('ParseIntError'))
    neg = False
    c0 = chars[0]
    def is_c(c, ch):
        if isinstance(c, str): return c == ch
        return MM_branch(ex, Bool(c.bv == ord(ch)))
    if is_c(c0, '-'):
        if not sg or len(chars) == 1: return err(Opaque('ParseIntError'))
        neg = True; chars = chars[1:]
    elif is_c(c0, '+'):
        if len(chars) == 1: return err(Opaque('ParseIntError'))
        chars = chars[1:]
    if len(chars) > 30: raise Unsupported('symbolic number text too long')
    W = 64 if len(chars) <= 18 else 128          # 18 decimal digits fit 63 bits: no wrap-around in the accumulator
    for c in chars:
        if isinstance(c, str):
            if not c.isdigit() or not c.isascii(): return err(Opaque('ParseIntError'))
        elif not MM_branch(ex, Bool(z3.And(z3.UGE(c.bv, 48), z3.ULE(c.bv, 57)))): return err(Opaque('ParseIntError'))
    from .jsonmodel import decimal_value
    acc = decimal_value(ex, chars, W)
    val = -acc if neg else acc
    fits = z3.And(val >= z3.BitVecVal(lo, W), val <= z3.BitVecVal(hi, W))
    if MM_branch(ex, Bool(z3.simplify(fits))): return ok(Int(z3.simplify(z3.Extract(nb - 1, 0, val)), ty))
    return err(Opaque('ParseIntError'))
@model_rx(r'^(?:core::|alloc::|std::)?str::<impl str>::(contains|starts_with|ends_with)$')
def m_str_pred(ex, a, m):
    op = m.group(1); sv = as_str(a[0]); p = deref_all(a[1]) if isinstance(a[1], Ptr) else a[1]
    if isinstance(p, Int) or (isinstance(p, StrV) and len(p.chars) == 1 and (sv.concrete() is None or p.concrete() is None)):
        pc_ = p if isinstance(p, Int) else char_val(p.chars[0])
        eq = lambda c: (char_val(c).bv == pc_.bv)
        if not sv.chars: return Bool(False)
        if op == 'starts_with': return Bool(z3.simplify(eq(sv.chars[0])))
        if op == 'ends_with': return Bool(z3.simplify(eq(sv.chars[-1])))
        return Bool(z3.simplify(z3.Or(*[eq(c) for c in sv.chars])))
    if isinstance(p, Agg) and p.kind == 'closure' or isinstance(p, FnItem): raise Unsupported(f'str::{op} with a predicate')
    s0, pt = conc(ex, sv), conc(ex, as_str(a[1]))
    return Bool({'contains': pt in s0, 'starts_with': s0.startswith(pt), 'ends_with': s0.endswith(pt)}[op])
def _digit_ranges(radix):
    rs = [(ord('0'), min(ord('9'), ord('0') + radix - 1), ord('0'))]
    if radix > 10: rs += [(ord('a'), ord('a') + radix - 11, ord('a') - 10), (ord('A'), ord('A') + radix - 11, ord('A') - 10)]
    return rs
@model('char::methods::<impl char>::is_digit')
def m_is_digit(ex, a):
    c = a[0]; radix = pyint(ex, a[1])
    k = c.concrete()
    if k is not None: return Bool(any(lo <= k <= hi for lo, hi, _ in _digit_ranges(radix)))
    return Bool(z3.Or(*[z3.And(z3.UGE(c.bv, lo), z3.ULE(c.bv, hi)) for lo, hi, _ in _digit_ranges(radix)]))
@model_rx(r'^(?:std::char::|core::char::)?(?:convert::)?(from_u32|from_u32_unchecked|from_digit)$|^char::methods::<impl char>::(from_u32|from_u32_unchecked|from_digit)$')
def m_char_from(ex, a, m):
    op = m.group(1) or m.group(2); x = a[0]
    if op == 'from_digit':
        radix = pyint(ex, a[1]); k = x.concrete()
        if k is None:
            if not ex.branch_bool(Bool(z3.ULT(x.bv, radix))): return none()
            return some(Int(z3.If(z3.ULT(x.bv, 10), x.bv + 48, x.bv + 87), 'char'))
        return some(Int(ord('0123456789abcdefghijklmnopqrstuvwxyz'[k]), 'char')) if k < radix else none()
    k = x.concrete()
    if op == 'from_u32_unchecked': return Int(k, 'char') if k is not None else Int(x.bv, 'char')
    if k is not None: return some(Int(k, 'char')) if (k <= 0x10FFFF and not 0xD800 <= k <= 0xDFFF) else none()
    valid = z3.And(z3.ULE(x.bv, 0x10FFFF), z3.Or(z3.ULT(x.bv, 0xD800), z3.UGT(x.bv, 0xDFFF)))
    return some(Int(x.bv, 'char')) if ex.branch_bool(Bool(valid)) else none()
@model('char::methods::<impl char>::to_digit')
def m_to_digit(ex, a):
    c = a[0]; radix = pyint(ex, a[1]); k = c.concrete()
    if k is not None:
        for lo, hi, base in _digit_ranges(radix):
            if lo <= k <= hi: return some(Int(k - base, 'u32'))
        return none()
    which = ex.choose([((lo, hi, base), z3.And(z3.UGE(c.bv, lo), z3.ULE(c.bv, hi))) for lo, hi, base in _digit_ranges(radix)] + [(None, z3.And(*[z3.Not(z3.And(z3.UGE(c.bv, lo), z3.ULE(c.bv, hi))) for lo, hi, _ in _digit_ranges(radix)]))])
    if which is None: return none()
    return some(Int(z3.simplify(c.bv - which[2]), 'u32'))
_CAT = {}
def category_ranges(prefixes):
    key = tuple(prefixes)
    if key not in _CAT:
        import unicodedata
        out = []; start = None
        for cp in range(0x110000):
            if 0xD800 <= cp <= 0xDFFF: hit = False
            else:
                cat = unicodedata.category(chr(cp)); hit = any(cat.startswith(p) for p in prefixes)
            if hit and start is None: start = cp
            if not hit and start is not None: out.append((start, cp - 1)); start = None
        _CAT[key] = out
    return _CAT[key]
_NUMERIC_RANGES = None
def numeric_ranges():
    """code point ranges with Unicode general category N* (char::is_numeric), from Python's unicodedata"""
    global _NUMERIC_RANGES
    if _NUMERIC_RANGES is None:
        import unicodedata
        out = []; start = None
        for cp in range(0x110000):
            isn = unicodedata.category(chr(cp))[0] == 'N'
            if isn and start is None: start = cp
            if not isn and start is not None: out.append((start, cp - 1)); start = None
        _NUMERIC_RANGES = out
    return _NUMERIC_RANGES
@model('char::methods::<impl char>::is_numeric')
def m_is_numeric(ex, a):
    c = a[0].concrete()
    if c is not None: return Bool(chr(c).isnumeric() or __import__('unicodedata').category(chr(c))[0] == 'N')
    x = a[0].bv
    # ASCII fast path is exact; beyond ASCII the table of the host's Unicode database is used (stated in the evidence as a model)
    return Bool(z3.Or(z3.And(z3.UGE(x, 48), z3.ULE(x, 57)), *[z3.And(z3.UGE(x, lo), z3.ULE(x, hi)) for lo, hi in numeric_ranges() if lo > 127]))
@model_rx(r'^char::methods::<impl char>::(is_alphabetic|is_alphanumeric|is_whitespace|is_ascii_digit|is_ascii_alphabetic|is_ascii_alphanumeric|is_ascii|is_ascii_whitespace|is_ascii_punctuation|is_ascii_uppercase|is_ascii_lowercase|is_ascii_hexdigit|is_control|len_utf8)$')
def m_char_classes(ex, a, m):
    op = m.group(1); v = deref_all(a[0]); x = v.bv
    rng = lambda lo, hi: z3.And(z3.UGE(x, lo), z3.ULE(x, hi))
    if op == 'is_ascii_digit': return Bool(rng(48, 57))
    if op == 'is_ascii_alphabetic': return Bool(z3.Or(rng(65, 90), rng(97, 122)))
    if op == 'is_ascii_alphanumeric': return Bool(z3.Or(rng(48, 57), rng(65, 90), rng(97, 122)))
    if op == 'is_ascii': return Bool(z3.ULT(x, 128))
    if op == 'is_ascii_uppercase': return Bool(rng(65, 90))
    if op == 'is_ascii_lowercase': return Bool(rng(97, 122))
    if op == 'is_ascii_hexdigit': return Bool(z3.Or(rng(48, 57), rng(65, 70), rng(97, 102)))
    if op == 'is_ascii_whitespace': return Bool(z3.Or(x == 32, x == 9, x == 10, x == 12, x == 13))
    if op == 'is_ascii_punctuation': return Bool(z3.Or(rng(33, 47), rng(58, 64), rng(91, 96), rng(123, 126)))
    if op == 'is_control': return Bool(z3.Or(z3.ULT(x, 32), rng(127, 159)))
    if op == 'len_utf8': return Int(z3.If(z3.ULT(x, 0x80), z3.BitVecVal(1, 64), z3.If(z3.ULT(x, 0x800), z3.BitVecVal(2, 64), z3.If(z3.ULT(x, 0x10000), z3.BitVecVal(3, 64), z3.BitVecVal(4, 64)))), 'usize')
    WS = [(9, 13), (32, 32), (0x85, 0x85), (0xA0, 0xA0), (0x1680, 0x1680), (0x2000, 0x200A), (0x2028, 0x2029), (0x202F, 0x202F), (0x205F, 0x205F), (0x3000, 0x3000)]
    c = v.concrete()
    if c is None:
        # Unicode property tables of the host's database (approximation of Rust's: Alphabetic ~ categories L* and Nl); stated as a model
        if op == 'is_whitespace': return Bool(z3.Or(*[rng(lo, hi) for lo, hi in WS]))
        alpha = z3.Or(*[rng(lo, hi) for lo, hi in category_ranges(('L', 'Nl'))])
        if op == 'is_alphabetic': return Bool(alpha)
        return Bool(z3.Or(alpha, *[rng(lo, hi) for lo, hi in numeric_ranges()]))
    ch = chr(c)
    return Bool({'is_alphabetic': ch.isalpha(), 'is_alphanumeric': ch.isalnum(), 'is_whitespace': ch.isspace()}[op])
@model_rx(r'^<&?(std::string::String|str|&str)( as|&) PartialEq.*>::(eq|ne)$|^<&?&?(std::string::String|str) as PartialEq<.*>>::(eq|ne)$|^<&?&?(std::string::String|str) as PartialEq>::(eq|ne)$')
def m_str_eq(ex, a, m):
    sx, sy = as_str(a[0]), as_str(a[1])
    x, y = sx.concrete(), sy.concrete()
    if x is not None and y is not None: r = x == y
    elif len(sx.chars) != len(sy.chars): r = False          # one Unicode scalar value per list element on both sides
    else:
        conds = []; r = True
        for p_, q_ in zip(sx.chars, sy.chars):
            if isinstance(p_, str) and isinstance(q_, str):
                if p_ != q_: r = False; break
            else: conds.append(char_val(p_).bv == char_val(q_).bv)
        if r and conds: r = ex.branch_bool(Bool(z3.And(*conds)))
    return Bool(r if m.group(0).endswith('eq') else not r)
@model('<std::string::String as Ord>::cmp', '<str as Ord>::cmp')
def m_str_cmp(ex, a):
    x, y = conc(ex, as_str(a[0])).encode(), conc(ex, as_str(a[1])).encode()
    return mk_enum('Ordering', 'Less' if x < y else ('Equal' if x == y else 'Greater'), [])

# ------------------------------------------------------------------------------------------ iterators
def iter_next(ex, it):
    if isinstance(it, Agg) and it.ty == 'Range':          # std::ops::Range<usize>: fork on start < end
        st, en = it.fields[0].v, it.fields[1].v
        cs, ce = st.concrete(), en.concrete()
        if cs is not None and ce is not None:
            if not cs < ce: return None
            it.fields[0].v = Int(cs + 1, st.ty); return st
        if not MM_branch(ex, Bool((st.bv < en.bv) if st.signed else z3.ULT(st.bv, en.bv))): return None
        it.fields[0].v = Int(z3.simplify(st.bv + 1), st.ty)
        return st
    if it.peeked: return it.peeked.pop(0)
    try: return next(it.it)
    except StopIteration: return None
@model_rx(r'^<.* as Iterator>::next$')
def m_iter_next(ex, a, m):
    it = a[0].cell.v
    if not isinstance(it, IterV) and not (isinstance(it, Agg) and it.ty == 'Range'): raise Unsupported(f'next on {it!r}')
    return opt(iter_next(ex, it))
@model_rx(r'^Peekable::peek$')
def m_peek(ex, a, m):
    it = a[0].cell.v
    if not it.peeked:
        v = iter_next(ex, it)
        if v is None: return none()
        it.peeked.append(v)
    return some(Ptr(Cell(it.peeked[0]), 'ref'))
@model_rx(r'^<.* as Iterator>::(peekable|cloned|copied|into_iter)$|^<.* as IntoIterator>::into_iter$')
def m_iter_identity(ex, a, m):
    v = a[0]
    if isinstance(v, IterV):
        if m.group(1) in ('cloned', 'copied'):
            src = v
            def gen():
                while True:
                    x = iter_next(ex, src)
                    if x is None: return
                    yield deref_all(x) if not isinstance(deref_all(x), Agg) else clone_value(ex, deref_all(x))
            return IterV(cloned_gen(ex, v))
        return v
    return make_iter(ex, v)
def cloned_gen(ex, src):
    while True:
        x = iter_next(ex, src)
        if x is None: return
        t = x.cell.v if isinstance(x, Ptr) and x.kind == 'ref' else x
        yield t if isinstance(t, Ptr) else clone_value(ex, t)
def make_iter(ex, v):
    if isinstance(v, Agg) and v.ty == 'Range': return v          # a Range of any integer type is its own iterator (iter_next steps it)
    t = deref_all(v) if not isinstance(v, (VecV, MapV)) else v
    if isinstance(v, Ptr):
        t = v.cell.v
        if isinstance(t, Ptr): t = t.cell.v
        if isinstance(t, (VecV, SliceRef)): return IterV(iter([Ptr(c, 'ref') for c in list(t.items)]))
        if isinstance(t, Agg) and t.kind == 'array': return IterV(iter([Ptr(c, 'ref') for c in t.fields]))
        if isinstance(t, MapV): return IterV(iter([Agg('tuple', None, None, [Cell(Ptr(Cell(rstr(k)))), Cell(Ptr(t.d[k]))]) for k in t.keys()]))
    if isinstance(v, VecV): return IterV(iter([c.v for c in v.items]))
    if isinstance(v, MapV): return IterV(iter([Agg('tuple', None, None, [Cell(rstr(k)), Cell(v.d[k].v)]) for k in v.keys()]))
    raise Unsupported(f'into_iter of {v!r}')
@model_rx(r'^core::slice::<impl \[.*\]>::iter$|^Vec::iter$|^VecDeque::iter$')
def m_slice_iter(ex, a, m): return make_iter(ex, a[0])
@model_rx(r'^<.* as Iterator>::take$')
def m_take(ex, a, m):
    src, n = a[0], a[1]
    nn = n.concrete()
    def gen():
        k = 0
        while True:
            if nn is not None:
                if k >= nn: return
            else:
                if not ex.branch_bool(Bool(z3.UGT(n.bv, k))): return
            x = iter_next(ex, src)
            if x is None: return
            k += 1
            yield x
    return IterV(gen())
@model_rx(r'^<.* as Iterator>::enumerate$')
def m_enumerate(ex, a, m):
    src = a[0]
    def gen():
        k = 0
        while True:
            x = iter_next(ex, src)
            if x is None: return
            yield Agg('tuple', None, None, [Cell(Int(k, 'usize')), Cell(x)]); k += 1
    return IterV(gen())
@model_rx(r'^<.* as Iterator>::skip$')
def m_skip(ex, a, m):
    src, n = a[0], a[1]
    nn = n.concrete()
    def gen():
        k = 0
        while True:          # a symbolic count is decided element by element (n > k?), so the forks are bounded by the length of the source
            if nn is not None:
                if k >= nn: break
            elif not ex.branch_bool(Bool(z3.UGT(n.bv, k))): break
            if iter_next(ex, src) is None: return
            k += 1
        while True:
            x = iter_next(ex, src)
            if x is None: return
            yield x
    return IterV(gen())
@model_rx(r'^<.* as Iterator>::rev$')
def m_rev(ex, a, m):
    items = []
    while True:
        x = iter_next(ex, a[0])
        if x is None: break
        items.append(x)
    return IterV(iter(items[::-1]))
@model_rx(r'^<.* as Iterator>::map$')
def m_map(ex, a, m):
    src, f = a[0], a[1]
    def gen():
        while True:
            x = iter_next(ex, src)
            if x is None: return
            yield ex.call_value(f, [x])
    return IterV(gen())
@model_rx(r'^<.* as Iterator>::fold$')
def m_fold(ex, a, m):
    src, acc, f = a
    while True:
        x = iter_next(ex, src)
        if x is None: return acc
        acc = ex.call_value(f, [acc, x])
@model_rx(r'^<.* as Iterator>::(all|any)$')
def m_all_any(ex, a, m):
    src, f = a[0].cell.v, a[1]
    want_all = m.group(1) == 'all'
    while True:
        x = iter_next(ex, src)
        if x is None: return Bool(want_all)
        r = pybool(ex, ex.call_value(f, [x]))
        if want_all and not r: return Bool(False)
        if not want_all and r: return Bool(True)
@model_rx(r'^<.* as Iterator>::count$')
def m_count(ex, a, m):
    n = 0
    while iter_next(ex, a[0]) is not None: n += 1
    return Int(n, 'usize')
@model_rx(r'^<.* as Iterator>::collect$')
def m_collect(ex, a, m):
    callee0 = ex.cur_callee
    items = []
    while True:
        x = iter_next(ex, a[0])
        if x is None: break
        items.append(x)
    tm = re.search(r'::collect::<(.*)>$', callee0, re.S)
    target = tm.group(1) if tm else ''
    if target.startswith(('std::string::String', 'String')):
        return StrV([chr(i.concrete()) if i.concrete() is not None else i for i in items])
    if target.startswith(('Result<', 'std::result::Result<')):
        out = []
        for i in items:
            if i.variant == 'Err': return err(i.fields[0].v)
            out.append(Cell(i.fields[0].v))
        return ok(VecV(out))
    if target.startswith(('Vec<', 'std::vec::Vec<')) or not target:
        return VecV([Cell(i) for i in items])
    tb = re.sub(r'^(std::collections::|alloc::collections::)?(btree_map::|hash_map::)?', '', target)
    if tb.startswith(('BTreeMap<', 'HashMap<')):
        mp = MapV(tb.startswith('BTreeMap<'))
        for i in items:                      # FromIterator inserts in order: a later pair with the same key replaces the earlier one
            mp.d[conc(ex, as_str(i.fields[0].v), 'map key')] = Cell(i.fields[1].v)
        return mp
    if tb.startswith(('BTreeSet<', 'HashSet<')):
        mp = MapV(tb.startswith('BTreeSet<'))
        for i in items: mp.d[conc(ex, as_str(i), 'set element')] = Cell(UNIT)
        return mp
    if tb.startswith('Option<'):
        out = []
        for i in items:
            if i.variant == 'None': return none()
            out.append(Cell(i.fields[0].v))
        return some(VecV(out))
    raise Unsupported(f'collect into {target}')

# ------------------------------------------------------------------------------------------ Option / Result combinators
def is_variant(ex, v, name):
    if v.lazy is not None: ex.materialize(v)
    return v.variant == name
@model_rx(r'^(std::option::)?Option::(is_some|is_none)$')
def m_is_some(ex, a, m):
    v = deref_all(a[0]) if isinstance(a[0], Ptr) else a[0]
    r = is_variant(ex, v, 'Some'); return Bool(r if m.group(2) == 'is_some' else not r)
@model_rx(r'^(std::option::)?Option::unwrap_or$')
def m_unwrap_or(ex, a, m): return a[0].fields[0].v if is_variant(ex, a[0], 'Some') else a[1]
@model_rx(r'^(std::option::)?Option::(unwrap|expect)$')
def m_unwrap(ex, a, m):
    if is_variant(ex, a[0], 'Some'): return a[0].fields[0].v
    raise Panic('called `Option::unwrap()` on a `None` value')
@model_rx(r'^Result::(unwrap|expect)$')
def m_runwrap(ex, a, m):
    if is_variant(ex, a[0], 'Ok'): return a[0].fields[0].v
    raise Panic('called `Result::unwrap()` on an `Err` value')
@model_rx(r'^(std::option::)?Option::map$')
def m_opt_map(ex, a, m): return some(ex.call_value(a[1], [a[0].fields[0].v])) if is_variant(ex, a[0], 'Some') else none()
@model_rx(r'^(std::option::)?Option::map_or$')
def m_opt_map_or(ex, a, m): return ex.call_value(a[2], [a[0].fields[0].v]) if is_variant(ex, a[0], 'Some') else a[1]
@model_rx(r'^(std::option::)?Option::ok_or_else$')
def m_ok_or_else(ex, a, m): return ok(a[0].fields[0].v) if is_variant(ex, a[0], 'Some') else err(ex.call_value(a[1], []))
@model_rx(r'^(std::option::)?Option::(cloned|copied)$')
def m_opt_cloned(ex, a, m):
    if not is_variant(ex, a[0], 'Some'): return none()
    return some(clone_value(ex, a[0].fields[0].v.cell.v))
@model_rx(r'^(std::option::)?Option::take$')
def m_opt_take(ex, a, m):
    c = a[0].cell; v = c.v; c.v = none(); return v
@model_rx(r'^Result::map_err$')
def m_map_err(ex, a, m): return a[0] if is_variant(ex, a[0], 'Ok') else err(ex.call_value(a[1], [a[0].fields[0].v]))
@model_rx(r'^Result::map$')
def m_res_map(ex, a, m): return ok(ex.call_value(a[1], [a[0].fields[0].v])) if is_variant(ex, a[0], 'Ok') else a[0]
@model_rx(r'^Result::and_then$')
def m_and_then(ex, a, m): return ex.call_value(a[1], [a[0].fields[0].v]) if is_variant(ex, a[0], 'Ok') else a[0]
@model_rx(r'^Result::ok$')
def m_res_ok(ex, a, m): return some(a[0].fields[0].v) if is_variant(ex, a[0], 'Ok') else none()
@model_rx(r'^(std::hint::)?must_use$')
def m_must_use(ex, a, m): return a[0]
@model_rx(r'^std::cmp::(max|min)$')
def m_maxmin(ex, a, m):
    x, y = a
    if isinstance(x, Int):
        gt = z3.UGT(x.bv, y.bv) if not x.signed else x.bv > y.bv
        return Int(z3.If(gt, x.bv, y.bv) if m.group(1) == 'max' else z3.If(gt, y.bv, x.bv), x.ty)
    # generic Ord via crate impl (Rc<Variable>): max returns y unless x > y ; min returns x unless x > y
    o = generic_cmp(ex, x, y)
    if m.group(1) == 'max': return x if o == 'Greater' else y
    return y if o == 'Greater' else x
def generic_cmp(ex, x, y):
    xv, yv = deref_all(x), deref_all(y)
    if isinstance(xv, Agg) and ex.prog.by_key.get(('Ord', xv.ty, 'cmp')):
        r = ex.run_fn(ex.prog.by_key[('Ord', xv.ty, 'cmp')], [Ptr(Cell(xv)), Ptr(Cell(yv))])
        return r.variant
    raise Unsupported(f'cmp of {xv!r}')

# ------------------------------------------------------------------------------------------ Vec / VecDeque / slices
@model_rx(r'^(Vec|VecDeque)::(new|with_capacity)$')
def m_vec_new(ex, a, m): return VecV()
@model_rx(r'^(Vec|VecDeque)::(push|push_back)$')
def m_vec_push(ex, a, m): a[0].cell.v.items.append(Cell(a[1])); return UNIT
@model_rx(r'^VecDeque::pop_front$')
def m_pop_front(ex, a, m):
    v = a[0].cell.v
    return some(v.items.pop(0).v) if v.items else none()
@model_rx(r'^(VecDeque|core::slice::<impl \[.*\]>)::get$')
def m_get(ex, a, m):
    v = deref_all(a[0]); i = ex.index_or_oob(a[1], len(v.items))
    return some(Ptr(v.items[i], 'ref')) if i is not None else none()
@model_rx(r'^(Vec|VecDeque)::len$|^core::slice::<impl \[.*\]>::len$')
def m_vec_len(ex, a, m): return Int(len(deref_all(a[0]).items), 'usize')
@model_rx(r'^(Vec|VecDeque)::is_empty$|^core::slice::<impl \[.*\]>::is_empty$')
def m_vec_is_empty(ex, a, m): return Bool(len(deref_all(a[0]).items) == 0)
@model_rx(r'^<Vec<.*> as (Deref|DerefMut)>::(deref|deref_mut)$')
def m_vec_deref(ex, a, m): return Ptr(Cell(SliceRef(a[0].cell.v.items)), 'ref')
@model_rx(r'^<Vec<.*> as std::ops::Index<usize>>::index$|^<Vec<.*> as Index<usize>>::index$')
def m_vec_index(ex, a, m):
    v = a[0].cell.v; i = ex.index_or_oob(a[1], len(v.items))
    if i is None: raise Panic('index out of bounds')
    return Ptr(v.items[i], 'ref')
@model_rx(r'^<Vec<.*> as Extend<.*>>::extend$')
def m_vec_extend(ex, a, m):
    v = a[0].cell.v; it = a[1]
    while True:
        x = iter_next(ex, it)
        if x is None: break
        v.items.append(Cell(x))
    return UNIT
@model_rx(r'^core::slice::<impl \[.*\]>::reverse$')
def m_reverse(ex, a, m):
    v = deref_all(a[0]); vals = [c.v for c in v.items][::-1]
    for c, x in zip(v.items, vals): c.v = x
    return UNIT
@model_rx(r'^std::boxed::box_assume_init_into_vec_unsafe$')
def m_box_into_vec(ex, a, m):
    mu = deref_all(a[0])
    arr = mu.fields[1].v.fields[0].v.fields[0].v
    return VecV(list(arr.fields))
@model_rx(r'^Box::new_uninit$')
def m_box_new_uninit(ex, a, m):
    inner = Agg('struct', 'MaybeDangling', None, [Cell(None)])
    md = Agg('struct', 'ManuallyDrop', None, [Cell(inner)])
    return Ptr(Cell(Agg('struct', 'MaybeUninit', None, [Cell(UNIT), Cell(md)])), 'box')

# ------------------------------------------------------------------------------------------ maps
def map_key(ex, mp, k):
    """internal (string) key of a map for a key value: strings by their text; integers by value -- a symbolic integer is resolved against the integer keys
    already in the map by forking (equal to one of them, or different from all)"""
    kv = deref_all(k) if isinstance(k, Ptr) else k
    if isinstance(kv, StrV): return conc(ex, kv, 'map key')
    if not isinstance(kv, Int): raise Unsupported(f'map key of type {type(kv).__name__}')
    if mp.ik is None: mp.ik = {}
    c = kv.concrete()
    live = [(sk, iv) for sk, iv in mp.ik.items() if sk in mp.d]
    if c is not None and all(iv.concrete() is not None for _, iv in live):
        sk = f'int:{c}'; mp.ik[sk] = kv; return sk
    conds = [(sk, kv.bv == iv.bv) for sk, iv in live]
    conds.append((None, z3.And(*[kv.bv != iv.bv for _, iv in live]) if live else z3.BoolVal(True)))
    sk = ex.choose(conds)
    if sk is None:
        sk = f'int:{c}' if c is not None else f'sym:{len(mp.ik)}:{kv.bv}'
        mp.ik[sk] = kv
    return sk
@model_rx(r'^(BTreeMap|HashMap)::(new|with_capacity)$')
def m_map_new(ex, a, m): return MapV(ordered=m.group(1) == 'BTreeMap')
@model_rx(r'^(BTreeMap|HashMap)::insert$')
def m_map_insert(ex, a, m):
    mp = a[0].cell.v; k = map_key(ex, mp, a[1])
    old = mp.d.get(k); mp.d[k] = Cell(a[2])
    return some(old.v) if old is not None else none()
@model_rx(r'^(BTreeMap|HashMap|serde_json::Map|Map)::get$')
def m_map_get(ex, a, m):
    mp = deref_all(a[0]); k = map_key(ex, mp, a[1])
    c = mp.d.get(k)
    return some(Ptr(c, 'ref')) if c is not None else none()
@model_rx(r'^(BTreeMap|HashMap)::remove$')
def m_map_remove(ex, a, m):
    mp = a[0].cell.v; k = map_key(ex, mp, a[1])
    c = mp.d.pop(k, None)
    return some(c.v) if c is not None else none()
@model_rx(r'^(?:BTreeMap|serde_json::Map|Map)::(values|keys)$')
def m_map_values(ex, a, m):
    mp = deref_all(a[0])
    if m.group(1) == 'values': return IterV(iter([Ptr(mp.d[k], 'ref') for k in mp.keys()]))
    return IterV(iter([Ptr(Cell(rstr(k)), 'ref') for k in mp.keys()]))
@model_rx(r'^(?:BTreeMap|HashMap)::(is_empty|len)$')
def m_map_len(ex, a, m):
    mp = deref_all(a[0])
    return Bool(len(mp.d) == 0) if m.group(1) == 'is_empty' else Int(len(mp.d), 'usize')

# ------------------------------------------------------------------------------------------ equality on std wrappers
def generic_eq(ex, x, y):
    """returns Bool"""
    x, y = deref_all(x), deref_all(y)
    if isinstance(x, Int): return Bool(x.bv == y.bv)
    if isinstance(x, Bool): return Bool(x.b == y.b)
    if isinstance(x, StrV):
        cx, cy = x.concrete(), y.concrete()
        if cx is None or cy is None: raise Unsupported('symbolic string eq')
        return Bool(cx == cy)
    if isinstance(x, (VecV, SliceRef)):
        if len(x.items) != len(y.items): return Bool(False)
        acc = []
        for cx, cy in zip(x.items, y.items):
            r = generic_eq(ex, cx.v, cy.v); rc = r.concrete()
            if rc is False: return Bool(False)
            if rc is None: acc.append(r.b)
        return Bool(z3.And(*acc)) if acc else Bool(True)
    if isinstance(x, MapV):
        if set(x.d) != set(y.d): return Bool(False)
        acc = []
        for k in x.d:
            r = generic_eq(ex, x.d[k].v, y.d[k].v); rc = r.concrete()
            if rc is False: return Bool(False)
            if rc is None: acc.append(r.b)
        return Bool(z3.And(*acc)) if acc else Bool(True)
    if isinstance(x, Agg):
        if x.lazy is not None: ex.materialize(x)
        if isinstance(y, Agg) and y.lazy is not None: ex.materialize(y)
        f = ex.prog.by_key.get(('PartialEq', x.ty, 'eq'))
        if f is not None: return ex.run_fn(f, [Ptr(Cell(x)), Ptr(Cell(y))])
        if x.kind == 'enum' and x.ty in ('Option', 'Result', 'Ordering'):
            if x.variant != y.variant: return Bool(False)
            if not x.fields: return Bool(True)
            return generic_eq(ex, x.fields[0].v, y.fields[0].v)
        if x.kind == 'tuple':
            acc = [generic_eq(ex, cx.v, cy.v) for cx, cy in zip(x.fields, y.fields)]
            return Bool(z3.And(*[r.b for r in acc]))
    raise Unsupported(f'generic eq of {x!r}')
@model_rx(r'^<.* as PartialEq(<.*>)?>::(eq|ne)$')
def m_generic_eq(ex, a, m):
    r = generic_eq(ex, a[0], a[1])
    return r if m.group(2) == 'eq' else Bool(z3.Not(r.b))

# ------------------------------------------------------------------------------------------ floats / numbers
@model('core::f64::<impl f64>::abs', 'f64::<impl f64>::abs')
def m_fabs(ex, a): return F64(z3.fpAbs(a[0].f))
@model('core::f64::<impl f64>::is_normal')
def m_is_normal(ex, a): return Bool(z3.fpIsNormal(a[0].f))
@model('f64::<impl f64>::ceil', 'core::f64::<impl f64>::ceil')
def m_ceil(ex, a): return F64(z3.fpRoundToIntegral(z3.RTP(), a[0].f))
@model('f64::<impl f64>::floor', 'core::f64::<impl f64>::floor')
def m_floor(ex, a): return F64(z3.fpRoundToIntegral(z3.RTN(), a[0].f))
@model('<f64 as PartialOrd>::partial_cmp')
def m_partial_cmp(ex, a):
    x, y = deref_all(a[0]).f, deref_all(a[1]).f
    lab = ex.choose([('Less', z3.fpLT(x, y)), ('Equal', z3.fpEQ(x, y)), ('Greater', z3.fpGT(x, y)), ('None', z3.Or(z3.fpIsNaN(x), z3.fpIsNaN(y)))])
    return none() if lab == 'None' else some(mk_enum('Ordering', lab, []))
def number_as_f64(n):
    if n.kind == 'float': return n.val
    bv = n.val.bv
    return F64(z3.fpUnsignedToFP(z3.RNE(), bv, z3.Float64()) if n.kind == 'pos' else z3.fpSignedToFP(z3.RNE(), bv, z3.Float64()))
@model('serde_json::Number::as_f64')
def m_as_f64(ex, a): return some(number_as_f64(deref_all(a[0])))
@model('serde_json::Number::is_f64')
def m_is_f64(ex, a): return Bool(deref_all(a[0]).kind == 'float')
@model('serde_json::Number::is_u64')
def m_is_u64(ex, a): return Bool(deref_all(a[0]).kind == 'pos')
@model('serde_json::Number::is_i64')
def m_is_i64(ex, a):
    n = deref_all(a[0])
    if n.kind == 'float': return Bool(False)
    if n.kind == 'neg': return Bool(True)
    return Bool(z3.ULE(n.val.bv, z3.BitVecVal((1 << 63) - 1, 64)))
@model('serde_json::Number::as_i64')
def m_as_i64(ex, a):
    n = deref_all(a[0])
    if n.kind == 'float': return none()
    if n.kind == 'neg': return some(Int(n.val.bv, 'i64'))
    return some(Int(n.val.bv, 'i64')) if ex.branch_bool(Bool(z3.ULE(n.val.bv, z3.BitVecVal((1 << 63) - 1, 64)))) else none()
@model('serde_json::Number::as_u64')
def m_as_u64(ex, a):
    n = deref_all(a[0])
    return some(Int(n.val.bv, 'u64')) if n.kind == 'pos' else none()
@model('serde_json::Number::from_f64')
def m_from_f64(ex, a):
    f = a[0].f
    fin = z3.Not(z3.Or(z3.fpIsNaN(f), z3.fpIsInf(f)))
    return some(NumberV('float', F64(f))) if ex.branch_bool(Bool(fin)) else none()
@model_rx(r'^<serde_json::Number as From<(\w+)>>::from$')
def m_number_from(ex, a, m):
    v = a[0]; ty = m.group(1)
    if ty[0] == 'u': return NumberV('pos', Int(z3.ZeroExt(64 - v.bv.size(), v.bv) if v.bv.size() < 64 else v.bv, 'u64'))
    w = Int(z3.SignExt(64 - v.bv.size(), v.bv) if v.bv.size() < 64 else v.bv, 'i64')
    return NumberV('neg', w) if ex.branch_bool(Bool(w.bv < 0)) else NumberV('pos', Int(w.bv, 'u64'))

# ------------------------------------------------------------------------------------------ serde_json::from_str::<Variable> (shortcut model: builds the Variable directly)
def py_to_variable(x):
    if x is None: return mk_enum('Variable', 'Null', [])
    if isinstance(x, bool): return mk_enum('Variable', 'Bool', [Bool(x)])
    if isinstance(x, int):
        if x < 0:
            if x < -(1 << 63): return mk_enum('Variable', 'Number', [NumberV('float', F64(float(x)))])
            return mk_enum('Variable', 'Number', [NumberV('neg', Int(x & ((1 << 64) - 1), 'i64'))])
        if x >= (1 << 64): return mk_enum('Variable', 'Number', [NumberV('float', F64(float(x)))])
        return mk_enum('Variable', 'Number', [NumberV('pos', Int(x, 'u64'))])
    if isinstance(x, float): return mk_enum('Variable', 'Number', [NumberV('float', F64(x))])
    if isinstance(x, str): return mk_enum('Variable', 'String', [rstr(x)])
    if isinstance(x, list): return mk_enum('Variable', 'Array', [VecV([Cell(Ptr(Cell(py_to_variable(i)), 'rc')) for i in x])])
    if isinstance(x, dict):
        mp = MapV()
        for k, v in x.items(): mp.d[k] = Cell(Ptr(Cell(py_to_variable(v)), 'rc'))
        return mk_enum('Variable', 'Object', [mp])
    raise Unsupported(f'json {x!r}')
def variable_to_py(ex, v, model=None):
    v = deref_all(v)
    if v.lazy is not None: ex.materialize(v)
    t = v.variant
    if t == 'Null': return None
    if t == 'Bool': return cval(v.fields[0].v, model)
    if t == 'String': return v.fields[0].v.concrete()
    if t == 'Number':
        n = v.fields[0].v
        if n.kind == 'float': return cval(n.val, model)
        return cval(n.val, model)
    if t == 'Array': return [variable_to_py(ex, c.v, model) for c in v.fields[0].v.items]
    if t == 'Object': return {k: variable_to_py(ex, v.fields[0].v.d[k].v, model) for k in v.fields[0].v.keys()}
    if t == 'Expref': return '<expref>'
def cval(x, model=None):
    if isinstance(x, Bool):
        c = x.concrete()
        if c is None and model is not None: c = z3.is_true(model.eval(x.b, model_completion=True))
        return c
    if isinstance(x, Int):
        c = x.concrete()
        if c is None and model is not None:
            r = model.eval(x.bv, model_completion=True); c = r.as_signed_long() if x.signed else r.as_long()
        return c
    if isinstance(x, F64):
        f = z3.simplify(x.f) if model is None else model.eval(x.f, model_completion=True)
        bits = z3.simplify(z3.fpToIEEEBV(f))
        if z3.is_bv_value(bits):
            import struct
            return struct.unpack('<d', struct.pack('<Q', bits.as_long()))[0]
        return None
@model_rx(r'^serde_json::from_str$')
def m_from_str(ex, a, m):
    from . import jsonmodel
    sv = as_str(a[0])
    txt = sv.concrete()
    if txt is not None and os.environ.get('VERIF_JSON_PY'):          # (debug aid) Python's json instead of the model
        try:
            def bad(x): raise ValueError(x)
            return ok(py_to_variable(json.loads(txt, parse_constant=bad)))
        except Exception as e:
            return err(Agg('struct', 'SerdeJsonError', None, [Cell(rstr(str(e)))]))
    k, v = jsonmodel.parse_tree(ex, sv.chars)
    if k == 'err': return err(Agg('struct', 'SerdeJsonError', None, [Cell(rstr(v))]))
    # the target type is deserialised by its OWN Deserialize impl (for Variable: the crate's visitor), driven the way serde_json drives it
    tm = re.search(r'from_str::<(.*)>$', ex.cur_callee or '')
    target = (tm.group(1) if tm else 'Variable').split(',')[-1].strip().split('::')[-1]
    f = ex.prog.by_key.get(('Deserialize', target, 'deserialize'))
    if f is None:
        if target == 'Variable': return ok(jsonmodel.build(v))
        raise Unsupported(f'serde_json::from_str::<{target}>')
    return ex.run_fn(f, [JsonDeV(v)])
class JsonDeV:
    """serde_json's deserializer positioned at one JSON value (model)"""
    __slots__ = ('tree',)
    def __init__(s, tree): s.tree = tree
    def __repr__(s): return f'<serde_json deserializer at {s.tree[0]}>'
class JsonStreamDeV:
    """serde_json::Deserializer<StrRead> (model): reads values from a position in the text; `end()` checks for trailing characters"""
    __slots__ = ('chars', 'i')
    def __init__(s, chars): s.chars, s.i = list(chars), 0
class SeqAccV:
    __slots__ = ('items', 'i')
    def __init__(s, items): s.items, s.i = items, 0
class MapAccV:
    __slots__ = ('pairs', 'i')
    def __init__(s, pairs): s.pairs, s.i = pairs, 0
def _visitor_fn(ex, visitor, meth):
    """the visit_* method of the visitor value (a unit struct declared inside a Deserialize impl of the crate)"""
    ty = visitor.ty if isinstance(visitor, Agg) else None
    cache = ex.prog.__dict__.setdefault('_visitor_fns', {})
    key = (ty, meth)
    if key not in cache:
        cands = [f for n, f in ex.prog.fns.items() if n.endswith('>::' + meth) and 'deserialize::<impl at' in n and f.params and ty and ty in f.locals[f.params[0]]]
        cache[key] = cands[0] if len(cands) == 1 else None
    return cache[key]
@model_override(r'^<.+ as (?:serde::)?(?:de::)?Deserializer(?:<.*>)?>::deserialize_any$')
def m_jsonde_any(ex, a, m):
    d = a[0]
    if isinstance(d, Ptr) and isinstance(d.cell.v, JsonStreamDeV): d = d.cell.v
    if isinstance(d, JsonStreamDeV):
        from . import jsonmodel
        r = jsonmodel.Reader(ex, d.chars); r.i = d.i
        try: tree = r.value()
        except jsonmodel.JsonErr as e: return err(Agg('struct', 'SerdeJsonError', None, [Cell(rstr(str(e)))]))
        d.i = r.i; d = JsonDeV(tree)
    if not isinstance(d, JsonDeV): return NotImplemented
    vis = a[1]; t = d.tree; k = t[0]
    def call(meth, args):
        f = _visitor_fn(ex, vis, meth)
        if f is None: raise Unsupported(f'visitor method {meth} not found (default serde method?)')
        return ex.run_fn(f, [vis] + args)
    if k == 'null': return call('visit_unit', [])
    if k == 'bool': return call('visit_bool', [Bool(t[1])])
    if k == 'str': return call('visit_str', [Ptr(Cell(StrV(t[1])), 'ref')])
    if k == 'num':
        n = t[1]
        if n.kind == 'pos': return call('visit_u64', [n.val])
        if n.kind == 'neg': return call('visit_i64', [n.val])
        return call('visit_f64', [n.val])
    if k == 'arr': return call('visit_seq', [SeqAccV(t[1])])
    return call('visit_map', [MapAccV(t[1])])
def _de_rc_variable(ex, tree):
    f = ex.prog.by_key.get(('Deserialize', 'Variable', 'deserialize'))
    r = ex.run_fn(f, [JsonDeV(tree)])
    if r.variant != 'Ok': return r
    return ok(Ptr(Cell(r.fields[0].v), 'rc'))          # serde's impl Deserialize for Rc<T>: T::deserialize then Rc::new
@model_override(r'^<.+ as (?:serde::)?(?:de::)?SeqAccess(?:<.*>)?>::next_element$')
def m_seqacc_next(ex, a, m):
    acc = a[0].cell.v if isinstance(a[0], Ptr) else a[0]
    if not isinstance(acc, SeqAccV): return NotImplemented
    if acc.i >= len(acc.items): return ok(none())
    t = acc.items[acc.i]; acc.i += 1
    r = _de_rc_variable(ex, t)
    return ok(some(r.fields[0].v)) if r.variant == 'Ok' else r
@model_override(r'^<.+ as (?:serde::)?(?:de::)?(?:MapAccess|SeqAccess)(?:<.*>)?>::size_hint$')
def m_acc_size_hint(ex, a, m):
    acc = a[0].cell.v if isinstance(a[0], Ptr) else a[0]
    if not isinstance(acc, (MapAccV, SeqAccV)): return NotImplemented
    return none()                # serde_json's text reader does not know the length in advance
@model_override(r'^<.+ as (?:serde::)?(?:de::)?MapAccess(?:<.*>)?>::next_entry$')
def m_mapacc_next(ex, a, m):
    acc = a[0].cell.v if isinstance(a[0], Ptr) else a[0]
    if not isinstance(acc, MapAccV): return NotImplemented
    if acc.i >= len(acc.pairs): return ok(none())
    k, t = acc.pairs[acc.i]; acc.i += 1
    r = _de_rc_variable(ex, t)
    if r.variant != 'Ok': return r
    return ok(some(Agg('tuple', None, None, [Cell(rstr(k)), Cell(r.fields[0].v)])))
@model_rx(r'^<(i64|u64|i32|u32|u8|i8|u16|i16|usize|isize) as Into<serde_json::Number>>::into$')
def m_int_into_number(ex, a, m):
    v = a[0]; ty = m.group(1)
    if ty[0] == 'u': return NumberV('pos', Int(z3.ZeroExt(64 - v.bv.size(), v.bv) if v.bv.size() < 64 else v.bv, 'u64') if v.concrete() is None else Int(v.concrete(), 'u64'))
    c = v.concrete()
    if c is not None: return NumberV('neg', Int(c, 'i64')) if c < 0 else NumberV('pos', Int(c, 'u64'))
    w = Int(z3.SignExt(64 - v.bv.size(), v.bv) if v.bv.size() < 64 else v.bv, 'i64')
    return NumberV('neg', w) if ex.branch_bool(Bool(w.bv < 0)) else NumberV('pos', Int(w.bv, 'u64'))
@model('<serde_json::Error as ToString>::to_string')
def m_sj_err_to_string(ex, a): return StrV(deref_all(a[0]).fields[0].v.chars)

# ------------------------------------------------------------------------------------------ fmt (minimal): format! produces an opaque-but-concrete string where possible
@model_rx(r'^core::fmt::rt::Argument::new_(display|debug)$')
def m_fmt_arg(ex, a, m): return Agg('struct', 'FmtArg', None, [Cell(a[0]), Cell(Opaque(m.group(1)))])
@model_rx(r'^Arguments::(new|from_str)$')
def m_fmt_arguments(ex, a, m): return Agg('struct', 'FmtArguments', None, [Cell(x) for x in a])
def debug_str_chars(ex, sv):
    """`{:?}` of a str (char::escape_debug with grapheme-extend escaping, no single-quote escaping): exact for ASCII; non-ASCII concrete characters use
    Python's printable/combining classification; a symbolic non-ASCII character is unsupported"""
    import unicodedata
    out = ['"']
    simple = {'"': '\\"', '\\': '\\\\', '\n': '\\n', '\r': '\\r', '\t': '\\t', '\0': '\\0'}
    for c in sv.chars:
        if not isinstance(c, str) and c.concrete() is not None: c = chr(c.concrete())
        if isinstance(c, str):
            if c in simple: out.extend(simple[c])
            elif ord(c) < 0x20 or ord(c) == 0x7f or (ord(c) >= 0x80 and (not c.isprintable() or unicodedata.category(c) in ('Mn', 'Me'))): out.extend('\\u{%x}' % ord(c))
            else: out.append(c)
            continue
        b = c.bv
        cls = ex.choose([(k, b == ord(k)) for k in simple] + [('ctl', z3.And(z3.Or(z3.ULT(b, 0x20), b == 0x7f), *[b != ord(k) for k in simple if ord(k) < 0x20])),
                        ('print', z3.And(z3.UGE(b, 0x20), z3.ULT(b, 0x7f), b != ord('"'), b != ord('\\'))), ('other', z3.UGE(b, 0x80))])
        if cls in simple: out.extend(simple[cls])
        elif cls == 'print': out.append(c)
        elif cls == 'ctl':
            out.extend('\\u{')
            hexd = lambda n: Int(z3.If(z3.ULT(n, 10), n + 48, n + 87), 'char')
            if ex.choose([(True, z3.UGE(b, 0x10)), (False, z3.ULT(b, 0x10))]): out.append(hexd(z3.LShR(b, 4)))
            out.append(hexd(b & 0xF)); out.append('}')
        else:
            # beyond ASCII: escaped iff not printable or grapheme-extending -- decided with the host's Unicode tables (a model of core::unicode::printable)
            # code points the host's Unicode tables do not know (unassigned there, possibly assigned in the toolchain's newer tables) are outside the claim
            ex.assume(z3.Not(z3.Or(*[z3.And(z3.UGE(b, lo), z3.ULE(b, hi)) for lo, hi in category_ranges(['Cn']) if hi >= 0x80])))
            esc = z3.Or(*[z3.And(z3.UGE(b, lo), z3.ULE(b, hi)) for lo, hi in debug_escaped_ranges()])
            if ex.choose([(True, esc), (False, z3.Not(esc))]):
                nd = ex.choose([(n, z3.And(z3.UGE(b, 1 << (4 * (n - 1))), z3.ULT(b, 1 << (4 * n)))) for n in (2, 3, 4, 5)] + [(6, z3.UGE(b, 1 << 20))])
                hexd = lambda n: Int(z3.If(z3.ULT(n, 10), n + 48, n + 87), 'char')
                out.extend('\\u{'); out.extend(hexd(z3.LShR(b, 4 * i) & 0xF) for i in range(nd - 1, -1, -1)); out.append('}')
            else: out.append(c)
    out.append('"')
    return out
_DBG_ESC = None
def debug_escaped_ranges():
    global _DBG_ESC
    if _DBG_ESC is None:
        import unicodedata
        out = []; start = None
        for cp in range(0x80, 0x110000):
            if 0xD800 <= cp <= 0xDFFF: hit = False
            else:
                ch = chr(cp); hit = (not ch.isprintable()) or unicodedata.category(ch) in ('Mn', 'Me')
            if hit and start is None: start = cp
            if not hit and start is not None: out.append((start, cp - 1)); start = None
        if start is not None: out.append((start, 0x10FFFF))
        _DBG_ESC = out
    return _DBG_ESC
def render_arg(ex, arg):
    v = deref_all(arg.fields[0].v); mode = arg.fields[1].v.tag
    if isinstance(v, StrV):
        c = v.concrete()
        return c if c is not None and mode == 'display' else (repr(c) if c is not None else '<symstr>')
    if isinstance(v, Int):
        c = v.concrete()
        if v.ty == 'char': return chr(c) if c is not None else '<symchar>'
        return str(c) if c is not None else '<symint>'
    if isinstance(v, Agg):
        return f'<{v.ty}::{v.variant}>' if v.kind == 'enum' else f'<{v.ty}>'
    return '<?>'
@model('format', 'std::fmt::format', 'alloc::fmt::format')
def m_format(ex, a):
    args = a[0]
    tpl = deref_all(args.fields[0].v)
    if isinstance(tpl, StrV): return StrV(tpl.chars)
    data = tpl.tag[1]
    fa = deref_all(args.fields[1].v)
    fargs = fa.fields if isinstance(fa, Agg) else fa.items
    out, i, k = [], 0, 0
    while i < len(data):
        b = ord(data[i])
        if b == 0: break
        if b < 0x80:
            out.append(data[i + 1:i + 1 + b].encode('latin-1').decode('utf-8', 'replace')); i += 1 + b
        elif b == 0xC0:
            out.append(render_arg(ex, fargs[k].v)); k += 1; i += 1
        else:
            # placeholder with options: 0xC0|flags followed by option bytes -- render the argument, skip conservatively
            out.append(render_arg(ex, fargs[k].v)); k += 1; i += 1
            # option payload sizes are not decoded in the prototype
            while i < len(data) and ord(data[i]) >= 0x80 and ord(data[i]) != 0xC0: i += 1
    return rstr(''.join(out))

# ------------------------------------------------------------------------------------------ dyn dispatch
@model_rx(r'^<dyn (?:\w+::)*(\w+) as (?:\w+::)*(\w+)>::(\w+)$')
def m_dyn(ex, a, m):
    trait, meth = m.group(2), m.group(3)
    obj = a[0].cell.v
    if isinstance(obj, Agg) and obj.kind == 'struct':
        f = ex.prog.by_key.get((trait, obj.ty, meth))
        if f is None: raise Unsupported(f'no impl of {trait}::{meth} for {obj.ty}')
        return ex.run_fn(f, a)
    if isinstance(obj, Agg) and obj.kind == 'closure' or isinstance(obj, (FnItem, PyFn)):
        f = ex.prog.by_key.get((trait, 'F', meth))
        if f is None: raise Unsupported(f'no blanket impl of {trait}::{meth}')
        return ex.run_fn(f, a)
    raise Unsupported(f'dyn dispatch on {obj!r}')

# ------------------------------------------------------------------------------------------ Display / Debug / Formatter
class FormatterV:
    def __init__(s): s.buf = []; s.chars = []
def f64_concrete(v):
    t = z3.simplify(v.f)
    if not z3.is_fp_value(t): return None
    if t.isNaN(): return float('nan')
    if t.isInf(): return float('-inf') if t.isNegative() else float('inf')
    import struct as _st
    bits = z3.simplify(z3.fpToIEEEBV(t))
    return _st.unpack('<d', _st.pack('<Q', bits.as_long()))[0] if z3.is_bv_value(bits) else None
def rust_float_display(x, is_f32=False):
    """`{}` of a float: the shortest digits that round-trip (in the value's own precision), positional notation, no trailing `.0`"""
    import math, struct as _st
    from decimal import Decimal
    if math.isnan(x): return 'NaN'
    if math.isinf(x): return '-inf' if x < 0 else 'inf'
    if is_f32:
        r = None
        for p in range(1, 10):
            r = '%.*e' % (p - 1, x)
            if _st.unpack('<f', _st.pack('<f', float(r)))[0] == x: break
    else: r = repr(x)
    t = format(Decimal(r), 'f')
    if '.' in t: t = t.rstrip('0').rstrip('.')
    if t in ('', '-'): t += '0'
    if x == 0 and math.copysign(1, x) < 0 and not t.startswith('-'): t = '-' + t
    return t
FLOAT_REPRESENTATIVES = [0.1, 0.5, 1.0, -2.5, 3.140000104904175, 0.30000001192092896, 16777216.0, 1e10, 0.0, 1.5e-5, 123456.7890625]
def float_display_concretised(ex, v):
    """Display of a float is decided on concrete values only: a symbolic float is concretised to one of a few representatives consistent with the
    path (each a separate path); the remaining values are an unsupported path (stated bound)"""
    x = f64_concrete(v)
    is32 = hasattr(v, 'g')
    if x is None:
        import struct as _st
        conds = [(c, z3.fpToIEEEBV(v.f) == z3.BitVecVal(_st.unpack('<Q', _st.pack('<d', c))[0], 64)) for c in FLOAT_REPRESENTATIVES + [-0.0]]
        conds.append((None, z3.And(*[z3.Not(c[1]) for c in conds])))
        x = ex.choose(conds)
        if x is None: raise Unsupported('Display of a symbolic float outside the representatives')
    return rust_float_display(x, is32)
def fmt_display(ex, v):
    v = deref_all(v)
    if isinstance(v, F64): return float_display_concretised(ex, v)
    if isinstance(v, Bool):
        c = v.concrete()
        if c is None: c = ex.branch_bool(v)
        return 'true' if c else 'false'
    if isinstance(v, StrV):
        c = v.concrete(); return c if c is not None else '<symstr>'
    if isinstance(v, Int):
        c = v.concrete()
        if c is None: return '<symint>'
        return chr(c) if v.ty == 'char' else str(c)
    if isinstance(v, Agg) and v.ty == 'SerdeJsonError': return v.fields[0].v.concrete()
    if isinstance(v, Opaque): return f'<{v.tag if isinstance(v.tag, str) else v.tag[0]}>'
    if isinstance(v, Agg):
        f = ex.prog.by_key.get(('Display', v.ty, 'fmt'))
        if f is None: raise Unsupported(f'Display for {v.ty}')
        fm = FormatterV()
        ex.run_fn(f, [Ptr(Cell(v)), Ptr(Cell(fm))])
        return ''.join(fm.buf)
    raise Unsupported(f'display of {v!r}')
def fmt_display_chars(ex, v):
    """like fmt_display but keeps symbolic characters"""
    v = deref_all(v)
    if isinstance(v, StrV): return list(v.chars)
    if isinstance(v, Agg) and ex.prog.by_key.get(('Display', v.ty, 'fmt')):
        fm = FormatterV(); ex.run_fn(ex.prog.by_key[('Display', v.ty, 'fmt')], [Ptr(Cell(v)), Ptr(Cell(fm))])
        return list(fm.chars)
    return list(fmt_display(ex, v))
class DNode:
    """structured Debug output: atom | struct | tuple | list | map, rendered compactly ({:?}) or prettily ({:#?})"""
    __slots__ = ('kind', 'name', 'items')
    def __init__(s, kind, name, items=None): s.kind, s.name, s.items = kind, name, items or []
def dbg_render(n, pretty=False, ind=0):
    if isinstance(n, str): return n
    if n.kind == 'atom': return n.name
    pad = '    ' * (ind + 1); end = '    ' * ind
    if n.kind == 'struct':
        if not n.items: return n.name
        if pretty: return n.name + ' {\n' + ''.join(f'{pad}{k}: {dbg_render(v, True, ind + 1)},\n' for k, v in n.items) + end + '}'
        return n.name + ' { ' + ', '.join(f'{k}: {dbg_render(v)}' for k, v in n.items) + ' }'
    if n.kind == 'tuple':
        if not n.items: return n.name
        if pretty: return n.name + '(\n' + ''.join(f'{pad}{dbg_render(v, True, ind + 1)},\n' for v in n.items) + end + ')'
        return n.name + '(' + ', '.join(dbg_render(v) for v in n.items) + ')'
    if n.kind == 'list':
        if not n.items: return '[]'
        if pretty: return '[\n' + ''.join(f'{pad}{dbg_render(v, True, ind + 1)},\n' for v in n.items) + end + ']'
        return '[' + ', '.join(dbg_render(v) for v in n.items) + ']'
    if n.kind == 'map':
        if not n.items: return '{}'
        if pretty: return '{\n' + ''.join(f'{pad}{dbg_render(k, True, ind + 1)}: {dbg_render(v, True, ind + 1)},\n' for k, v in n.items) + end + '}'
        return '{' + ', '.join(f'{dbg_render(k)}: {dbg_render(v)}' for k, v in n.items) + '}'
    return '<?>'
def _placeholder(ex, c):
    ph = ex.__dict__.setdefault('u_ph', {})
    for k, x in ph.items():
        if x is c: return k
    k = chr(0xF0000 + len(ph)); ph[k] = c; return k
def _restore(ex, text):
    ph = getattr(ex, 'u_ph', None)
    return list(text) if not ph else [ph.get(ch, ch) for ch in text]
def dbg_tree(ex, v):
    while isinstance(v, Ptr): v = v.cell.v          # &T, Box<T>, Rc<T> are transparent in Debug
    if isinstance(v, Agg) and v.lazy is not None: return DNode('atom', f'<symbolic {v.ty}>')
    if isinstance(v, StrV):
        # symbolic characters travel through the (string-based) renderer as private-use placeholders and are restored by render_chars
        return DNode('atom', ''.join(ch if isinstance(ch, str) else _placeholder(ex, ch) for ch in debug_str_chars(ex, v)))
    if isinstance(v, Bool): return DNode('atom', fmt_display(ex, v))
    if isinstance(v, Int): return DNode('atom', fmt_display(ex, v) if v.ty != 'char' or v.concrete() is None else repr(chr(v.concrete())))
    if isinstance(v, F64):
        x = f64_concrete(v)
        return DNode('atom', '<symfloat>' if x is None else (fmt_f64(x) if x == x and abs(x) != float('inf') else rust_float_display(x)))
    if isinstance(v, NumberV):
        c = cval(v.val)
        return DNode('atom', 'Number(' + ('<symnum>' if c is None else (fmt_f64(c) if v.kind == 'float' else str(c))) + ')')          # serde_json: write!(f, "Number({})", self)
    if isinstance(v, (VecV, SliceRef)): return DNode('list', None, [dbg_tree(ex, c.v) for c in v.items])
    if isinstance(v, MapV): return DNode('map', None, [(DNode('atom', ''.join(debug_str_chars(ex, rstr(k)))), dbg_tree(ex, v.d[k].v)) for k in v.keys()])
    if isinstance(v, Agg):
        if v.ty == 'Option': return DNode('tuple', 'Some', [dbg_tree(ex, v.fields[0].v)]) if v.variant == 'Some' else DNode('atom', 'None')
        if v.kind == 'tuple': return DNode('tuple', '', [dbg_tree(ex, c.v) for c in v.fields])
        f = ex.prog.by_key.get(('Debug', v.ty, 'fmt'))
        if f is None: return DNode('atom', f'<{v.ty}>')
        fm = FormatterV(); fm.parts = []
        ex.run_fn(f, [Ptr(Cell(v)), Ptr(Cell(fm))])
        if len(fm.parts) == 1 and isinstance(fm.parts[0], DNode): return fm.parts[0]
        return DNode('atom', ''.join(fm.buf))
    return DNode('atom', f'<{type(v).__name__}>')
def fmt_debug(ex, v, pretty=False):
    return dbg_render(dbg_tree(ex, v), pretty)
def render_arg(ex, arg, alternate=False):
    return fmt_display(ex, arg.fields[0].v) if arg.fields[1].v.tag == 'display' else fmt_debug(ex, arg.fields[0].v, alternate)
def render_chars(ex, args):
    """fmt::Arguments -> list of characters (python str of length 1, or symbolic Int(char)); symbolic strings/chars shown with
    {} keep their symbolic characters, everything else is rendered concretely (symbolic scalars as placeholders)."""
    tpl = deref_all(args.fields[0].v)
    if isinstance(tpl, StrV): return list(tpl.chars)
    data = tpl.tag[1]
    fa = deref_all(args.fields[1].v)
    fargs = fa.fields if isinstance(fa, Agg) else fa.items
    out, i, k = [], 0, 0
    flags_seen = []
    while i < len(data):
        b = ord(data[i])
        if b == 0: break
        if b < 0x80:
            out.extend(data[i + 1:i + 1 + b].encode('latin-1').decode('utf-8', 'replace')); i += 1 + b
        elif b == 0x80:                      # long literal: u16 length follows
            n = ord(data[i + 1]) | (ord(data[i + 2]) << 8)
            out.extend(data[i + 3:i + 3 + n].encode('latin-1').decode('utf-8', 'replace')); i += 3 + n
        else:
            # placeholder 0xC0 | bits: 1 = u32 flags follow, 2 = u16 width, 4 = u16 precision, 8 = u16 argument index
            i += 1; fl = 0; idx = k
            if b & 1: fl = sum(ord(data[i + j]) << (8 * j) for j in range(4)); i += 4
            if b & 2: i += 2
            if b & 4: i += 2
            if b & 8: idx = ord(data[i]) | (ord(data[i + 1]) << 8); i += 2
            arg = fargs[idx].v; v = deref_all(arg.fields[0].v); mode = arg.fields[1].v.tag
            flags_seen.append((mode, bool(fl & (1 << 23))))          # bit 23: alternate (`#`)
            if mode == 'display' and isinstance(v, StrV): out.extend(v.chars)
            elif mode == 'debug' and isinstance(v, StrV) and v.concrete() is None: out.extend(debug_str_chars(ex, v))
            elif mode == 'display' and isinstance(v, Int) and v.ty == 'char' and v.concrete() is None: out.append(v)
            else: out.extend(_restore(ex, render_arg(ex, arg, bool(fl & (1 << 23)))))
            k = idx + 1
    ex.u_fmt_flags = flags_seen
    return out
def render_arguments(ex, args):
    return ''.join(c if isinstance(c, str) else (chr(c.concrete()) if c.concrete() is not None else '\ufffd') for c in render_chars(ex, args))
MODELS['format'] = MODELS['std::fmt::format'] = MODELS['alloc::fmt::format'] = lambda ex, a: StrV(render_chars(ex, a[0]))
@model_rx(r'^<.* as ToString>::to_string$')
def m_to_string(ex, a, m):
    v = deref_all(a[0])
    return StrV(fmt_display_chars(ex, v))
@model('std::fmt::Formatter::write_str')
def m_write_str(ex, a):
    f = a[0].cell.v; sv = as_str(a[1]); f.chars.extend(sv.chars)
    f.buf.append(sv.concrete() if sv.concrete() is not None else '\ufffd' * len(sv.chars))
    if hasattr(f, 'parts'): f.parts.append(f.buf[-1])
    return ok(UNIT)
@model('std::fmt::Formatter::write_fmt')
def m_write_fmt(ex, a):
    f = a[0].cell.v; cs = render_chars(ex, a[1]); f.chars.extend(cs)
    f.buf.append(''.join(c if isinstance(c, str) else (chr(c.concrete()) if c.concrete() is not None else '\ufffd') for c in cs))
    if hasattr(f, 'parts'): f.parts.append(f.buf[-1])
    return ok(UNIT)
@model_rx(r'^std::fmt::Formatter::debug_tuple_field(\d)_finish$')
def m_debug_tuple(ex, a, m):
    f = a[0].cell.v; name = conc(ex, as_str(a[1]))
    n = DNode('tuple', name, [dbg_tree(ex, x) for x in a[2:]])
    if hasattr(f, 'parts'): f.parts.append(n)
    f.buf.append(dbg_render(n)); return ok(UNIT)
@model_rx(r'^std::fmt::Formatter::debug_struct_field(\d)_finish$')
def m_debug_struct(ex, a, m):
    f = a[0].cell.v; name = conc(ex, as_str(a[1])); rest = a[2:]
    n = DNode('struct', name, [(conc(ex, as_str(rest[i])), dbg_tree(ex, rest[i + 1])) for i in range(0, len(rest), 2)])
    if hasattr(f, 'parts'): f.parts.append(n)
    f.buf.append(dbg_render(n)); return ok(UNIT)
def fmt_f64(x):
    """serde_json's number printing (1.0.151 with zmij: shortest round-trip digits; positional notation for 1e-5 <= |x| < 1e16, otherwise an exponent,
    written with an explicit '+' when positive) -- calibrated against the native binary"""
    import math
    from decimal import Decimal
    if x == 0: return '-0.0' if math.copysign(1, x) < 0 else '0.0'
    sign, digs, exp = Decimal(repr(float(x))).as_tuple()
    digs = list(digs)
    while len(digs) > 1 and digs[-1] == 0: digs.pop(); exp += 1
    d = ''.join(map(str, digs)); n = len(d); kk = n + exp
    if 0 <= exp and kk <= 16: r = d + '0' * exp + '.0'
    elif 0 < kk <= 16: r = d[:kk] + '.' + d[kk:]
    elif -5 < kk <= 0: r = '0.' + '0' * (-kk) + d
    elif n == 1: r = d + 'e' + ('+' if kk - 1 > 0 else '') + str(kk - 1)
    else: r = d[0] + '.' + d[1:] + 'e' + ('+' if kk - 1 > 0 else '') + str(kk - 1)
    return ('-' if sign else '') + r
def variable_json(ex, v):
    v = deref_all(v)
    if v.lazy is not None: ex.materialize(v)
    t = v.variant
    if t == 'Null': return 'null'
    if t == 'Bool':
        c = v.fields[0].v.concrete()
        if c is None: c = ex.branch_bool(v.fields[0].v)
        return 'true' if c else 'false'
    if t == 'String': return json.dumps(conc(ex, v.fields[0].v), ensure_ascii=False)
    if t == 'Number':
        n = v.fields[0].v
        c = cval(n.val)
        if c is None: raise Unsupported('symbolic number to JSON text')
        return fmt_f64(c) if n.kind == 'float' else str(c)
    if t == 'Array': return '[' + ','.join(variable_json(ex, c.v) for c in v.fields[0].v.items) + ']'
    if t == 'Object':
        mp = v.fields[0].v
        return '{' + ','.join(json.dumps(k, ensure_ascii=False) + ':' + variable_json(ex, mp.d[k].v) for k in mp.keys()) + '}'
    if t == 'Expref': return json.dumps('<expression: ' + fmt_debug(ex, v.fields[0].v) + '>')

# ------------------------------------------------------------------------------------------ sort / join / contains / PartialOrd on Rc
def cmp_values(ex, f, x, y):
    """call comparator closure f(&x,&y) -> Ordering"""
    r = ex.call_value(f, [Ptr(Cell(x)), Ptr(Cell(y))])
    return r.variant
def stable_sort(ex, cells, less_or_equal):
    vals = [c.v for c in cells]
    out = []
    for v in vals:               # insertion sort, stable
        i = len(out)
        while i > 0 and not less_or_equal(out[i - 1], v): i -= 1
        out.insert(i, v)
    for c, v in zip(cells, out): c.v = v
@model_rx(r'^(?:core::|alloc::|std::)?slice::<impl \[.*\]>::sort$')
def m_sort(ex, a, m):
    v = deref_all(a[0])
    stable_sort(ex, v.items, lambda x, y: generic_cmp(ex, x, y) != 'Greater'); return UNIT
@model_rx(r'^(?:core::|alloc::|std::)?slice::<impl \[.*\]>::sort_by$')
def m_sort_by(ex, a, m):
    v = deref_all(a[0]); f = a[1]
    stable_sort(ex, v.items, lambda x, y: cmp_values(ex, f, x, y) != 'Greater'); return UNIT
@model_rx(r'^(?:core::|alloc::|std::)?slice::<impl \[.*\]>::join$')
def m_join(ex, a, m):
    v = deref_all(a[0]); sep = as_str(a[1]).chars; out = []
    for i, c in enumerate(v.items):
        if i: out.extend(sep)
        out.extend(as_str(c.v).chars)
    return StrV(out)
@model_rx(r'^(?:core::|alloc::|std::)?slice::<impl \[.*\]>::contains$')
def m_contains(ex, a, m):
    v = deref_all(a[0])
    for c in v.items:
        if pybool(ex, generic_eq(ex, c.v, a[1])): return Bool(True)
    return Bool(False)
@model_rx(r'^<(Rc|Arc)<(\w+)> as PartialOrd>::(lt|le|gt|ge)$')
def m_rc_partial_ord(ex, a, m):
    f = ex.prog.by_key[('PartialOrd', m.group(2), m.group(3))]
    return ex.run_fn(f, [Ptr(deref_ptr(a[0]).cell), Ptr(deref_ptr(a[1]).cell)])
@model_rx(r'^<(Rc|Arc)<(\w+)> as Ord>::cmp$')
def m_rc_ord(ex, a, m):
    f = ex.prog.by_key[('Ord', m.group(2), 'cmp')]
    return ex.run_fn(f, [Ptr(deref_ptr(a[0]).cell), Ptr(deref_ptr(a[1]).cell)])
@model_rx(r'^<(?:BTreeMap|HashMap)<.*> as Extend<.*>>::extend$')
def m_map_extend(ex, a, m):
    mp = a[0].cell.v; src = a[1]
    if isinstance(src, MapV):
        for k in src.keys(): mp.d[k] = Cell(src.d[k].v)
        return UNIT
    # any iterator / collection of (key, value) pairs: inserted in order (a later pair replaces an earlier one with the same key)
    it = src if isinstance(src, IterV) else make_iter(ex, src)
    while True:
        x = iter_next(ex, it)
        if x is None: return UNIT
        x = deref_all(x) if isinstance(x, Ptr) else x
        k = x.fields[0].v; v = x.fields[1].v
        mp.d[map_key(ex, mp, deref_all(k) if isinstance(k, Ptr) else k)] = Cell(v)

# ------------------------------------------------------------------------------------------ integer methods (core::num)
def _ovf(op, x, y, sg):
    if op == 'add': return z3.Not(z3.And(z3.BVAddNoOverflow(x, y, sg), z3.BVAddNoUnderflow(x, y))) if sg else z3.Not(z3.BVAddNoOverflow(x, y, False))
    if op == 'sub': return z3.Not(z3.And(z3.BVSubNoOverflow(x, y), z3.BVSubNoUnderflow(x, y, True))) if sg else z3.Not(z3.BVSubNoUnderflow(x, y, False))
    if op == 'mul': return z3.Not(z3.And(z3.BVMulNoOverflow(x, y, sg), z3.BVMulNoUnderflow(x, y))) if sg else z3.Not(z3.BVMulNoOverflow(x, y, False))
def _arith(op, x, y): return {'add': x + y, 'sub': x - y, 'mul': x * y}[op]
def _minmax(ty):
    nb = INT_BITS[ty]
    if ty[0] == 'i': return z3.BitVecVal(-(1 << (nb - 1)), nb), z3.BitVecVal((1 << (nb - 1)) - 1, nb)
    return z3.BitVecVal(0, nb), z3.BitVecVal((1 << nb) - 1, nb)
@model_rx(r'^core::num::<impl (\w+)>::(checked|wrapping|saturating|overflowing)_(add|sub|mul)$')
def m_int_arith(ex, a, m):
    ty, mode, op = m.groups(); x, y = a[0].bv, a[1].bv; sg = ty[0] == 'i'
    r = _arith(op, x, y); ov = _ovf(op, x, y, sg)
    if mode == 'wrapping': return Int(r, ty)
    if mode == 'overflowing': return Agg('tuple', None, None, [Cell(Int(r, ty)), Cell(Bool(ov))])
    if mode == 'checked':
        return none() if MM_branch(ex, Bool(ov)) else some(Int(r, ty))
    lo, hi = _minmax(ty)
    if sg:
        # saturate towards the sign of the true result
        if op == 'add': sat = z3.If(y < 0, lo, hi)
        elif op == 'sub': sat = z3.If(y < 0, hi, lo)
        else: sat = z3.If((x < 0) != (y < 0), lo, hi)
    else: sat = hi if op != 'sub' else lo
    return Int(z3.If(ov, sat, r), ty)
@model_rx(r'^core::num::<impl (\w+)>::(checked|wrapping|saturating|overflowing)_neg$')
def m_int_neg(ex, a, m):
    ty, mode = m.groups(); x = a[0].bv; lo, hi = _minmax(ty); sg = ty[0] == 'i'
    ov = (x == lo) if sg else (x != 0)
    if mode == 'wrapping': return Int(-x, ty)
    if mode == 'overflowing': return Agg('tuple', None, None, [Cell(Int(-x, ty)), Cell(Bool(ov))])
    if mode == 'checked': return none() if MM_branch(ex, Bool(ov)) else some(Int(-x, ty))
    return Int(z3.If(ov, hi if sg else lo, -x), ty)
@model_rx(r'^core::num::<impl (i\w+)>::(abs|wrapping_abs|unsigned_abs|checked_abs|signum|is_negative|is_positive)$')
def m_int_abs(ex, a, m):
    ty, meth = m.groups(); x = a[0].bv; lo, hi = _minmax(ty)
    ab = z3.If(x < 0, -x, x)
    if meth == 'abs':
        if MM_branch(ex, Bool(x == lo)): raise Panic('attempt to negate with overflow (abs)')
        return Int(ab, ty)
    if meth == 'wrapping_abs': return Int(ab, ty)
    if meth == 'unsigned_abs': return Int(ab, 'u' + ty[1:])
    if meth == 'checked_abs': return none() if MM_branch(ex, Bool(x == lo)) else some(Int(ab, ty))
    if meth == 'signum': return Int(z3.If(x < 0, z3.BitVecVal(-1, x.size()), z3.If(x == 0, z3.BitVecVal(0, x.size()), z3.BitVecVal(1, x.size()))), ty)
    return Bool(x < 0) if meth == 'is_negative' else Bool(x > 0)
@model_rx(r'^core::num::<impl (\w+)>::(min_value|max_value)$')
def m_int_minmax(ex, a, m):
    lo, hi = _minmax(m.group(1)); return Int(lo if m.group(2) == 'min_value' else hi, m.group(1))
@model_rx(r'^core::num::<impl (\w+)>::(checked|wrapping)_(div|rem|div_euclid|rem_euclid)$|^core::num::<impl (\w+)>::(div_euclid|rem_euclid)$')
def m_int_div(ex, a, m):
    raise Unsupported('integer division helpers')
@model_rx(r'^<(\w+) as Ord>::(min|max)$|^std::cmp::Ord::(min|max)$|^core::cmp::Ord::(min|max)$')
def m_ord_minmax(ex, a, m):
    x, y = a
    if isinstance(x, Int):
        which = m.group(2) or m.group(3) or m.group(4)
        gt = z3.UGT(x.bv, y.bv) if not x.signed else x.bv > y.bv
        return Int(z3.If(gt, x.bv, y.bv) if which == 'max' else z3.If(gt, y.bv, x.bv), x.ty)
    raise Unsupported('Ord::min/max on non-integers')
@model_rx(r'^<(\w+) as (?:std::convert::)?(TryFrom|TryInto)<(\w+)>>::(try_from|try_into)$')
def m_int_tryfrom(ex, a, m):
    t1, tr, t2, _ = m.groups()
    dst, src = (t1, t2) if tr == 'TryFrom' else (t2, t1)
    if dst not in INT_BITS or src not in INT_BITS: raise Unsupported(f'try_from {src}->{dst}')
    v = a[0]; nb, ob = INT_BITS[dst], INT_BITS[src]; sgs, sgd = src[0] == 'i', dst[0] == 'i'
    wide = 130
    xs = z3.SignExt(wide - ob, v.bv) if sgs else z3.ZeroExt(wide - ob, v.bv)
    lo = -(1 << (nb - 1)) if sgd else 0; hi = (1 << (nb - 1)) - 1 if sgd else (1 << nb) - 1
    fits = z3.And(xs >= z3.BitVecVal(lo, wide), xs <= z3.BitVecVal(hi, wide))
    if MM_branch(ex, Bool(fits)): return ok(Int(z3.Extract(nb - 1, 0, xs), dst))
    return err(Opaque('TryFromIntError'))
@model_rx(r'^<(\w+) as (?:std::convert::)?(From|Into)<(\w+)>>::(from|into)$')
def m_int_from(ex, a, m):
    t1, tr, t2, _ = m.groups()
    dst, src = (t1, t2) if tr == 'From' else (t2, t1)
    if dst in INT_BITS and src in INT_BITS: return ex.cast(a[0], dst, 'IntToInt')
    if dst == 'f64' and src in INT_BITS: return ex.cast(a[0], 'f64', 'IntToFloat')
    if dst == src: return a[0]
    raise Unsupported(f'From<{src}> for {dst}')
@model_rx(r'^<(i8|i16|i32|i64|isize|u8|u16|u32|u64|usize|char) as (PartialOrd|Ord)>::(lt|le|gt|ge|cmp|partial_cmp)$')
def m_int_cmp(ex, a, m):
    ty, _, meth = m.groups(); x, y = deref_all(a[0]), deref_all(a[1]); sg = ty[0] == 'i'
    lt = (x.bv < y.bv) if sg else z3.ULT(x.bv, y.bv); eq = x.bv == y.bv
    if meth == 'lt': return Bool(lt)
    if meth == 'le': return Bool(z3.Or(lt, eq))
    if meth == 'gt': return Bool(z3.Not(z3.Or(lt, eq)))
    if meth == 'ge': return Bool(z3.Not(lt))
    lab = ex.choose([('Less', lt), ('Equal', eq), ('Greater', z3.Not(z3.Or(lt, eq)))])
    o = mk_enum('Ordering', lab, [])
    return o if meth == 'cmp' else some(o)

# ------------------------------------------------------------------------------------------ more iterator adaptors
@model_rx(r'^<.* as Iterator>::(take_while|skip_while|filter)$')
def m_iter_pred(ex, a, m):
    src, f, kind = a[0], a[1], m.group(1)
    def gen():
        skipping = kind == 'skip_while'; done = False
        while True:
            x = iter_next(ex, src)
            if x is None: return
            if kind == 'filter' or kind == 'take_while' or skipping:
                r = pybool(ex, ex.call_value(f, [Ptr(Cell(x), 'ref')]))
                if kind == 'take_while':
                    if not r: return
                elif kind == 'filter':
                    if not r: continue
                else:
                    if r: continue
                    skipping = False
            yield x
    return IterV(gen())
@model_rx(r'^<.* as Iterator>::filter_map$')
def m_filter_map(ex, a, m):
    src, f = a[0], a[1]
    def gen():
        while True:
            x = iter_next(ex, src)
            if x is None: return
            r = ex.call_value(f, [x])
            if is_variant(ex, r, 'Some'): yield r.fields[0].v
    return IterV(gen())
@model_rx(r'^<.* as Iterator>::(zip|chain)$')
def m_zip_chain(ex, a, m):
    x, y = a[0], a[1]
    if not isinstance(y, IterV): y = make_iter(ex, y)
    def gz():
        while True:
            p = iter_next(ex, x)
            if p is None: return
            q = iter_next(ex, y)
            if q is None: return
            yield Agg('tuple', None, None, [Cell(p), Cell(q)])
    def gc():
        while True:
            p = iter_next(ex, x)
            if p is None: break
            yield p
        while True:
            q = iter_next(ex, y)
            if q is None: return
            yield q
    return IterV(gz() if m.group(1) == 'zip' else gc())
@model_rx(r'^<.* as Iterator>::(last|nth)$')
def m_last_nth(ex, a, m):
    src = a[0] if isinstance(a[0], IterV) else a[0].cell.v
    if m.group(1) == 'last':
        last = None
        while True:
            x = iter_next(ex, src)
            if x is None: return opt(last)
            last = x
    n = pyint(ex, a[1])
    for _ in range(n):
        if iter_next(ex, src) is None: return none()
    return opt(iter_next(ex, src))
@model_rx(r'^<.* as Iterator>::(find|position)$')
def m_find(ex, a, m):
    src, f = a[0].cell.v, a[1]; k = 0
    while True:
        x = iter_next(ex, src)
        if x is None: return none()
        arg = Ptr(Cell(x), 'ref') if m.group(1) == 'find' else x
        if pybool(ex, ex.call_value(f, [arg])): return some(x) if m.group(1) == 'find' else some(Int(k, 'usize'))
        k += 1
@model_rx(r'^<.* as Iterator>::for_each$')
def m_for_each(ex, a, m):
    while True:
        x = iter_next(ex, a[0])
        if x is None: return UNIT
        ex.call_value(a[1], [x])
@model_rx(r'^<.* as Iterator>::step_by$')
def m_step_by(ex, a, m):
    src, n = a[0], pyint(ex, a[1])
    def gen():
        while True:
            x = iter_next(ex, src)
            if x is None: return
            yield x
            for _ in range(n - 1):
                if iter_next(ex, src) is None: return
    return IterV(gen())
@model_rx(r'^<.* as DoubleEndedIterator>::next_back$')
def m_next_back(ex, a, m):
    it = a[0].cell.v
    if not isinstance(it, IterV): raise Unsupported('next_back')
    items = []
    while True:
        x = iter_next(ex, it)
        if x is None: break
        items.append(x)
    if not items: return none()
    last = items.pop(); it.it = iter(items); it.peeked = []
    return some(last)

# ------------------------------------------------------------------------------------------ more f64 methods
@model_rx(r'^(?:core::|std::)?f64::<impl f64>::(min|max|is_nan|is_finite|is_infinite|trunc|round|signum|is_sign_negative|is_sign_positive|to_bits|from_bits|copysign|sqrt|fract|clamp)$')
def m_f64_more(ex, a, m):
    op = m.group(1)
    if op == 'from_bits': return F64(z3.fpBVToFP(a[0].bv, z3.Float64()))
    x = a[0].f
    if op in ('min', 'max'):
        y = a[1].f
        # IEEE minNum/maxNum: a NaN operand yields the other operand
        r = z3.If(z3.fpIsNaN(x), y, z3.If(z3.fpIsNaN(y), x, z3.If((z3.fpLT(x, y) if op == 'min' else z3.fpGT(x, y)), x, y)))
        return F64(r)
    if op == 'is_nan': return Bool(z3.fpIsNaN(x))
    if op == 'is_finite': return Bool(z3.Not(z3.Or(z3.fpIsNaN(x), z3.fpIsInf(x))))
    if op == 'is_infinite': return Bool(z3.fpIsInf(x))
    if op == 'trunc': return F64(z3.fpRoundToIntegral(z3.RTZ(), x))
    if op == 'round': return F64(z3.fpRoundToIntegral(z3.RNA(), x))
    if op == 'is_sign_negative': return Bool(z3.fpIsNegative(x))
    if op == 'is_sign_positive': return Bool(z3.fpIsPositive(x))
    if op == 'to_bits': return Int(z3.fpToIEEEBV(x), 'u64')
    if op == 'sqrt': return F64(z3.fpSqrt(z3.RNE(), x))
    if op == 'signum': return F64(z3.If(z3.fpIsNaN(x), x, z3.If(z3.fpIsNegative(x), z3.FPVal(-1.0, z3.Float64()), z3.FPVal(1.0, z3.Float64()))))
    if op == 'copysign': return F64(z3.If(z3.fpIsNegative(a[1].f) == z3.fpIsNegative(x), x, z3.fpNeg(x)))
    if op == 'fract': return F64(z3.fpSub(z3.RNE(), x, z3.fpRoundToIntegral(z3.RTZ(), x)))
    if op == 'clamp':
        lo, hi = a[1].f, a[2].f
        return F64(z3.If(z3.fpLT(x, lo), lo, z3.If(z3.fpGT(x, hi), hi, x)))
@model_rx(r'^<f64 as PartialOrd>::(lt|le|gt|ge)$')
def m_f64_ord(ex, a, m):
    x, y = deref_all(a[0]).f, deref_all(a[1]).f
    return Bool({'lt': z3.fpLT, 'le': z3.fpLEQ, 'gt': z3.fpGT, 'ge': z3.fpGEQ}[m.group(1)](x, y))
@model_rx(r'^<f64 as PartialEq>::(eq|ne)$')
def m_f64_eq(ex, a, m):
    x, y = deref_all(a[0]).f, deref_all(a[1]).f
    return Bool(z3.fpEQ(x, y) if m.group(1) == 'eq' else z3.Not(z3.fpEQ(x, y)))

# ------------------------------------------------------------------------------------------ more Option / Result combinators
def _optv(a):
    v = a[0]
    return deref_all(v) if isinstance(v, Ptr) else v
@model_rx(r'^(std::option::)?Option::(filter|and_then|or|or_else|xor|and|unwrap_or_else|unwrap_or_default|map_or_else|ok_or|is_some_and|is_none_or|zip|as_ref|as_mut|as_deref|replace|insert|get_or_insert_with|iter|into_iter|flatten|unwrap_unchecked)$')
def m_opt_more(ex, a, m):
    op = m.group(2); v = _optv(a)
    if v.lazy is not None: ex.materialize(v)
    is_some = v.variant == 'Some'
    x = v.fields[0].v if is_some else None
    if op == 'filter':
        if not is_some: return none()
        return some(x) if pybool(ex, ex.call_value(a[1], [Ptr(Cell(x), 'ref')])) else none()
    if op == 'and_then': return ex.call_value(a[1], [x]) if is_some else none()
    if op == 'or': return v if is_some else a[1]
    if op == 'or_else': return v if is_some else ex.call_value(a[1], [])
    if op == 'and': return a[1] if is_some else none()
    if op == 'xor':
        w = a[1]; ws = is_variant(ex, w, 'Some')
        return v if (is_some and not ws) else (w if (ws and not is_some) else none())
    if op == 'unwrap_or_else': return x if is_some else ex.call_value(a[1], [])
    if op == 'unwrap_or_default':
        if is_some: return x
        t = callee_generic(ex)
        if t is None: raise Unsupported('Option::unwrap_or_default on None (Default of unknown type)')
        return default_of_type(ex, t)
    if op == 'map_or_else': return ex.call_value(a[2], [x]) if is_some else ex.call_value(a[1], [])
    if op == 'ok_or': return ok(x) if is_some else err(a[1])
    if op == 'is_some_and': return Bool(False) if not is_some else ex.call_value(a[1], [x])
    if op == 'is_none_or': return Bool(True) if not is_some else ex.call_value(a[1], [x])
    if op == 'zip':
        w = a[1]
        return some(Agg('tuple', None, None, [Cell(x), Cell(w.fields[0].v)])) if (is_some and is_variant(ex, w, 'Some')) else none()
    if op in ('as_ref', 'as_mut'): return some(Ptr(v.fields[0], 'ref')) if is_some else none()
    if op == 'as_deref':
        if not is_some: return none()
        t = x
        return some(Ptr(Cell(deref_all(t)), 'ref') if isinstance(t, Ptr) else Ptr(v.fields[0], 'ref'))
    if op == 'replace':
        c = a[0].cell; old = c.v; c.v = some(a[1]); return old
    if op == 'insert':
        c = a[0].cell; c.v = some(a[1]); return Ptr(c.v.fields[0], 'ref')
    if op == 'get_or_insert_with':
        c = a[0].cell
        if not is_some: c.v = some(ex.call_value(a[1], []))
        return Ptr(c.v.fields[0], 'ref')
    if op in ('iter', 'into_iter'):
        byref = op == 'iter' or isinstance(a[0], Ptr)
        return IterV(iter(([Ptr(v.fields[0], 'ref')] if byref else [x]) if is_some else []))
    if op == 'flatten': return x if is_some else none()
    if op == 'unwrap_unchecked': return x
@model_rx(r'^(std::result::)?Result::(unwrap_or|unwrap_or_else|unwrap_or_default|is_ok|is_err|err|or_else|or|and|map_or|map_or_else|as_ref|ok_or|is_ok_and|is_err_and|unwrap_err|expect_err|iter|into_iter|inspect_err|inspect)$')
def m_res_more(ex, a, m):
    op = m.group(2); v = _optv(a)
    if v.lazy is not None: ex.materialize(v)
    isok = v.variant == 'Ok'; x = v.fields[0].v
    if op == 'unwrap_or': return x if isok else a[1]
    if op == 'unwrap_or_else': return x if isok else ex.call_value(a[1], [x])
    if op == 'unwrap_or_default':
        if isok: return x
        raise Unsupported('Result::unwrap_or_default on Err')
    if op == 'is_ok': return Bool(isok)
    if op == 'is_err': return Bool(not isok)
    if op == 'err': return none() if isok else some(x)
    if op == 'or_else': return v if isok else ex.call_value(a[1], [x])
    if op == 'or': return v if isok else a[1]
    if op == 'and': return a[1] if isok else v
    if op == 'map_or': return ex.call_value(a[2], [x]) if isok else a[1]
    if op == 'map_or_else': return ex.call_value(a[2], [x]) if isok else ex.call_value(a[1], [x])
    if op == 'as_ref': return mk_enum('Result', v.variant, [Ptr(v.fields[0], 'ref')])
    if op == 'is_ok_and': return ex.call_value(a[1], [x]) if isok else Bool(False)
    if op == 'is_err_and': return ex.call_value(a[1], [x]) if not isok else Bool(False)
    if op in ('unwrap_err', 'expect_err'):
        if isok: raise Panic('called `Result::unwrap_err()` on an `Ok` value')
        return x
    if op in ('iter', 'into_iter'): return IterV(iter([x] if isok else []))
    if op in ('inspect', 'inspect_err'):
        if isok == (op == 'inspect'): ex.call_value(a[1], [Ptr(v.fields[0], 'ref')])
        return v
def default_of_type(ex, ty):
    """`T::default()` for the std types that occur in the crate, or the crate's own Default impl"""
    ty = re.sub(r"^(std|core|alloc)::(\w+::)*", '', ty.strip())
    base = re.sub(r"<.*", '', ty).split('::')[-1]
    if base == 'Vec' or base == 'VecDeque': return VecV()
    if base == 'String': return StrV([])
    if base == 'Option': return none()
    if base in ('BTreeMap', 'HashMap', 'BTreeSet', 'HashSet'): return MapV(base.startswith('BTree'))
    if base == 'bool': return Bool(False)
    if base in INT_BITS: return Int(0, base)
    if base in ('f64', 'f32'): return F64(0.0)
    if base == '()': return UNIT
    f = ex.prog.by_key.get(('Default', base, 'default'))
    if f is not None: return ex.run_fn(f, [])
    raise Unsupported(f'Default of {ty}')
def callee_generic(ex, pos=0):
    """the pos-th top-level generic argument of the first `::<...>` of the current callee"""
    c = ex.cur_callee or ''
    i = c.find('::<')
    if i < 0: return None
    j = i + 3; d = 1; args = ['']
    while j < len(c) and d:
        ch = c[j]
        if ch == '<': d += 1
        elif ch == '>':
            d -= 1
            if d == 0: break
        if ch == ',' and d == 1: args.append('')
        else: args[-1] += ch
        j += 1
    return args[pos].strip() if pos < len(args) else None
@model_rx(r'^<.* as (?:std::default::)?Default>::default$')
def m_default_any(ex, a, m):
    mm = re.match(r'^<(.*) as ', ex.cur_callee or '')
    return default_of_type(ex, mm.group(1) if mm else '?')

@model_rx(r'^(std::mem|core::mem)::(swap|replace|take)$')
def m_mem(ex, a, m):
    op = m.group(2)
    if op == 'swap':
        x, y = a[0].cell, a[1].cell; x.v, y.v = y.v, x.v; return UNIT
    if op == 'replace':
        c = a[0].cell; old = c.v; c.v = a[1]; return old
    c = a[0].cell; old = c.v
    if isinstance(old, VecV): c.v = VecV()
    elif isinstance(old, StrV): c.v = StrV([])
    elif isinstance(old, MapV): c.v = MapV(old.ordered)
    elif isinstance(old, Agg) and old.ty == 'Option': c.v = none()
    else:
        t = callee_generic(ex)
        if t is None: raise Unsupported('mem::take of ' + type(old).__name__)
        c.v = default_of_type(ex, t)
    return old

# ------------------------------------------------------------------------------------------ Rc / Arc identity and misc
@model_rx(r'^(Rc|Arc|std::rc::Rc|std::sync::Arc)::ptr_eq$')
def m_rc_ptr_eq(ex, a, m):
    x, y = deref_ptr(a[0]), deref_ptr(a[1])
    return Bool(x.cell is y.cell)
@model_rx(r'^(std::ptr|core::ptr)::eq$')
def m_ptr_eq(ex, a, m): return Bool(a[0].cell is a[1].cell)
@model_rx(r'^(Rc|Arc)::(strong_count|weak_count)$')
def m_rc_count(ex, a, m): raise Unsupported('reference counts are not modelled')
@model_rx(r'^(Rc|Arc)::(make_mut|get_mut|try_unwrap|into_inner|unwrap_or_clone)$')
def m_rc_mut(ex, a, m): raise Unsupported('Rc mutation/unwrapping is not modelled (reference counts are not tracked)')
@model_rx(r'^(Rc|Arc)::as_ptr$')
def m_rc_as_ptr(ex, a, m): return Ptr(deref_ptr(a[0]).cell, 'raw')
@model_rx(r'^<(Rc|Arc)<.*> as From<.*>>::from$')
def m_rc_from(ex, a, m): return Ptr(Cell(a[0]), 'rc')

# ------------------------------------------------------------------------------------------ more map / vec / slice / string API
def _mapof(v):
    t = deref_all(v)
    if not isinstance(t, MapV): raise Unsupported(f'not a map: {t!r}')
    return t
@model_rx(r'^(BTreeMap|HashMap|serde_json::Map|Map)::(iter|iter_mut)$')
def m_map_iter(ex, a, m):
    mp = _mapof(a[0])
    if not mp.ordered and len(mp.d) > 1: raise Unsupported('iteration order of a HashMap is unspecified')
    return IterV(iter([Agg('tuple', None, None, [Cell(Ptr(Cell(rstr(k)), 'ref')), Cell(Ptr(mp.d[k], 'ref'))]) for k in mp.keys()]))
@model_rx(r'^(BTreeMap|HashMap|serde_json::Map|Map)::(contains_key|get_mut|clear|len|is_empty|values_mut|into_values|into_keys|first_key_value|last_key_value|pop_first|pop_last|append|retain)$')
def m_map_more(ex, a, m):
    op = m.group(2); mp = _mapof(a[0])
    if op == 'contains_key': return Bool(map_key(ex, mp, a[1]) in mp.d)
    if op == 'get_mut':
        c = mp.d.get(map_key(ex, mp, a[1])); return some(Ptr(c, 'ref')) if c is not None else none()
    if op == 'clear': mp.d.clear(); return UNIT
    if op == 'len': return Int(len(mp.d), 'usize')
    if op == 'is_empty': return Bool(len(mp.d) == 0)
    if not mp.ordered and len(mp.d) > 1 and op != 'append': raise Unsupported('iteration order of a HashMap is unspecified')
    ks = mp.keys()
    if op == 'values_mut': return IterV(iter([Ptr(mp.d[k], 'ref') for k in ks]))
    if op == 'into_values': return IterV(iter([mp.d[k].v for k in ks]))
    if op == 'into_keys': return IterV(iter([rstr(k) for k in ks]))
    if op in ('first_key_value', 'last_key_value'):
        if not ks: return none()
        k = ks[0] if op[0] == 'f' else ks[-1]
        return some(Agg('tuple', None, None, [Cell(Ptr(Cell(rstr(k)), 'ref')), Cell(Ptr(mp.d[k], 'ref'))]))
    if op in ('pop_first', 'pop_last'):
        if not ks: return none()
        k = ks[0] if op == 'pop_first' else ks[-1]; c = mp.d.pop(k)
        return some(Agg('tuple', None, None, [Cell(rstr(k)), Cell(c.v)]))
    if op == 'append':
        other = _mapof(a[1])
        for k in list(other.d): mp.d[k] = other.d.pop(k)
        return UNIT
    if op == 'retain':
        for k in ks:
            if not pybool(ex, ex.call_value(a[1], [Ptr(Cell(rstr(k)), 'ref'), Ptr(mp.d[k], 'ref')])): del mp.d[k]
        return UNIT
@model_rx(r'^<(BTreeMap|HashMap)<.*> as (?:std::ops::)?Index<.*>>::index$')
def m_map_index(ex, a, m):
    mp = _mapof(a[0]); c = mp.d.get(map_key(ex, mp, a[1]))
    if c is None: raise Panic('key not found in map (Index)')
    return Ptr(c, 'ref')
@model_rx(r'^<(BTreeMap|HashMap)<.*> as FromIterator<.*>>::from_iter$')
def m_map_from_iter(ex, a, m):
    mp = MapV(ordered=m.group(1) == 'BTreeMap'); it = a[0] if isinstance(a[0], IterV) else make_iter(ex, a[0])
    while True:
        x = iter_next(ex, it)
        if x is None: return mp
        mp.d[conc(ex, as_str(x.fields[0].v), 'map key')] = Cell(x.fields[1].v)
def _vecof(v):
    t = deref_all(v)
    if not isinstance(t, (VecV, SliceRef)): raise Unsupported(f'not a vec/slice: {t!r}')
    return t
@model_rx(r'^(Vec|VecDeque)::(pop|pop_back|insert|remove|truncate|clear|push_front|swap_remove|reserve|shrink_to_fit|as_slice|as_mut_slice|append|extend_from_slice|dedup|dedup_by|dedup_by_key|retain|drain|split_off|back|front|get_mut|capacity)$')
def m_vec_more(ex, a, m):
    op = m.group(2); v = _vecof(a[0]); items = v.items
    if op in ('pop', 'pop_back'): return some(items.pop().v) if items else none()
    if op == 'insert':
        i = pyint(ex, a[1], 'index')
        if i > len(items): raise Panic('insertion index out of bounds')
        items.insert(i, Cell(a[2])); return UNIT
    if op in ('remove', 'swap_remove'):
        i = ex.index_or_oob(a[1], len(items))
        if i is None:
            if m.group(1) == 'VecDeque': return none()
            raise Panic('removal index out of bounds')
        if op == 'swap_remove': items[i], items[-1] = items[-1], items[i]; x = items.pop().v
        else: x = items.pop(i).v
        return some(x) if m.group(1) == 'VecDeque' else x
    if op == 'truncate': del items[pyint(ex, a[1]):]; return UNIT
    if op == 'clear': del items[:]; return UNIT
    if op == 'push_front': items.insert(0, Cell(a[1])); return UNIT
    if op in ('reserve', 'shrink_to_fit'): return UNIT
    if op in ('as_slice', 'as_mut_slice'): return Ptr(Cell(SliceRef(items)), 'ref')
    if op == 'append':
        o = _vecof(a[1]); items.extend(o.items); del o.items[:]; return UNIT
    if op == 'extend_from_slice':
        o = _vecof(a[1]); items.extend(Cell(clone_value(ex, c.v)) for c in o.items); return UNIT
    if op == 'dedup':
        out = []
        for c in items:
            if out and pybool(ex, generic_eq(ex, out[-1].v, c.v)): continue
            out.append(c)
        items[:] = out; return UNIT
    if op in ('dedup_by', 'dedup_by_key'):
        out = []
        for c in items:
            if out:
                if op == 'dedup_by': same = pybool(ex, ex.call_value(a[1], [Ptr(c, 'ref'), Ptr(out[-1], 'ref')]))        # same_bucket(current, previous retained)
                else: same = pybool(ex, generic_eq(ex, ex.call_value(a[1], [Ptr(out[-1], 'ref')]), ex.call_value(a[1], [Ptr(c, 'ref')])))
                if same: continue
            out.append(c)
        items[:] = out; return UNIT
    if op == 'retain':
        items[:] = [c for c in items if pybool(ex, ex.call_value(a[1], [Ptr(c, 'ref')]))]; return UNIT
    if op == 'drain':
        r = a[1]
        if (isinstance(r, Agg) and (r.ty in ('RangeFull',) or not r.fields)) or isinstance(r, FnItem) or (isinstance(r, Agg) and r.kind == 'struct' and r.ty is None):
            out = [c.v for c in items]; del items[:]; return IterV(iter(out))
        raise Unsupported('Vec::drain with a bounded range')
    if op == 'split_off':
        i = pyint(ex, a[1]); tail = items[i:]; del items[i:]; return VecV(tail)
    if op in ('back', 'front'):
        if not items: return none()
        return some(Ptr(items[-1] if op == 'back' else items[0], 'ref'))
    if op == 'get_mut':
        i = ex.index_or_oob(a[1], len(items)); return some(Ptr(items[i], 'ref')) if i is not None else none()
    if op == 'capacity': return Int(len(items), 'usize')
@model_rx(r'^(?:core::|alloc::|std::)?slice::<impl \[.*\]>::(first|last|first_mut|last_mut|split_first|split_last|swap|to_vec|iter_mut|concat|into_vec|starts_with|ends_with|sort_unstable|sort_unstable_by|sort_by_key|sort_by_cached_key|sort_unstable_by_key|binary_search|get_unchecked|windows|chunks|rev|fill|is_sorted|repeat|get_mut)$')
def m_slice_more(ex, a, m):
    op = m.group(1); v = _vecof(a[0]); items = v.items
    if op in ('first', 'first_mut'): return some(Ptr(items[0], 'ref')) if items else none()
    if op in ('last', 'last_mut'): return some(Ptr(items[-1], 'ref')) if items else none()
    if op in ('split_first', 'split_last'):
        if not items: return none()
        h, t = (items[0], items[1:]) if op == 'split_first' else (items[-1], items[:-1])
        return some(Agg('tuple', None, None, [Cell(Ptr(h, 'ref')), Cell(Ptr(Cell(SliceRef(t)), 'ref'))]))
    if op == 'swap':
        i, j = ex.index_or_oob(a[1], len(items)), ex.index_or_oob(a[2], len(items))
        if i is None or j is None: raise Panic('index out of bounds (swap)')
        items[i].v, items[j].v = items[j].v, items[i].v; return UNIT
    if op in ('to_vec', 'into_vec'): return VecV([Cell(clone_value(ex, c.v)) for c in items])
    if op == 'iter_mut': return IterV(iter([Ptr(c, 'ref') for c in items]))
    if op == 'get_mut':
        i = ex.index_or_oob(a[1], len(items)); return some(Ptr(items[i], 'ref')) if i is not None else none()
    if op == 'concat':
        out = []
        for c in items:
            t = deref_all(c.v)
            if isinstance(t, StrV): out.extend(t.chars)
            else: out.extend(Cell(clone_value(ex, x.v)) for x in t.items)
        return StrV(out) if items and isinstance(deref_all(items[0].v), StrV) else VecV(out)
    if op in ('starts_with', 'ends_with'):
        o = _vecof(a[1]).items
        if len(o) > len(items): return Bool(False)
        seg = items[:len(o)] if op == 'starts_with' else items[len(items) - len(o):]
        return Bool(all(pybool(ex, generic_eq(ex, x.v, y.v)) for x, y in zip(seg, o)))
    if op in ('sort_unstable', 'sort_unstable_by', 'sort_unstable_by_key'):
        # an unstable sort may order equal elements arbitrarily: modelled as the stable result when no two elements compare Equal,
        # otherwise the engine reports it as unsupported nondeterminism for this path
        if op == 'sort_unstable': cmpf = lambda x, y: generic_cmp(ex, x, y)
        elif op == 'sort_unstable_by': cmpf = lambda x, y: cmp_values(ex, a[1], x, y)
        else: cmpf = lambda x, y: generic_cmp(ex, ex.call_value(a[1], [Ptr(Cell(x), 'ref')]), ex.call_value(a[1], [Ptr(Cell(y), 'ref')]))
        ties = [False]
        def le(x, y):
            o = cmpf(x, y)
            if o == 'Equal': ties[0] = True
            return o != 'Greater'
        stable_sort(ex, items, le)
        if ties[0] and len(items) > 1: raise NondetTie('sort_unstable with equal keys: order of ties is unspecified')
        return UNIT
    if op in ('sort_by_key', 'sort_by_cached_key'):
        f = a[1]
        stable_sort(ex, items, lambda x, y: generic_cmp(ex, ex.call_value(f, [Ptr(Cell(x), 'ref')]), ex.call_value(f, [Ptr(Cell(y), 'ref')])) != 'Greater'); return UNIT
    if op == 'fill':
        for c in items: c.v = clone_value(ex, a[1])
        return UNIT
    raise Unsupported(f'slice::{op}')
class NondetTie(Unsupported): pass
@model_rx(r'^(?:core::|alloc::|std::)?str::<impl str>::(trim|trim_start|trim_end|to_string|to_owned|chars|bytes|as_bytes|to_uppercase|to_lowercase|to_ascii_uppercase|to_ascii_lowercase|find|rfind|split_at|is_char_boundary|get|repeat|eq_ignore_ascii_case|lines|split_whitespace|char_indices|strip_prefix|strip_suffix|trim_matches|trim_start_matches|trim_end_matches)$')
def m_str_more(ex, a, m):
    op = m.group(1); sv = as_str(a[0])
    if op in ('to_string', 'to_owned'): return StrV(sv.chars)
    if op == 'chars': return IterV(iter([char_val(c) for c in sv.chars]))
    if op == 'char_indices': return m_char_indices(ex, a)
    txt = conc(ex, sv, f'string for str::{op}')
    if op == 'trim': return Ptr(Cell(rstr(txt.strip(' \t\n\r\x0b\x0c\x85\xa0                　'))), 'ref')
    if op == 'trim_start': return Ptr(Cell(rstr(txt.lstrip())), 'ref')
    if op == 'trim_end': return Ptr(Cell(rstr(txt.rstrip())), 'ref')
    if op in ('bytes',): return IterV(iter([Int(b, 'u8') for b in txt.encode('utf-8')]))
    if op == 'as_bytes': return Ptr(Cell(SliceRef([Cell(Int(b, 'u8')) for b in txt.encode('utf-8')])), 'ref')
    if op in ('to_uppercase', 'to_ascii_uppercase'): return rstr(txt.upper() if op == 'to_uppercase' else ''.join(c.upper() if c.isascii() else c for c in txt))
    if op in ('to_lowercase', 'to_ascii_lowercase'): return rstr(txt.lower() if op == 'to_lowercase' else ''.join(c.lower() if c.isascii() else c for c in txt))
    if op in ('find', 'rfind'):
        p = deref_all(a[1])
        pat = conc(ex, p) if isinstance(p, StrV) else chr(p.concrete()) if isinstance(p, Int) and p.concrete() is not None else None
        if pat is None: raise Unsupported('str::find with a predicate / symbolic pattern')
        i = txt.find(pat) if op == 'find' else txt.rfind(pat)
        return none() if i < 0 else some(Int(len(txt[:i].encode('utf-8')), 'usize'))
    if op == 'is_char_boundary':
        i = pyint(ex, a[1]); b = txt.encode('utf-8')
        return Bool(i == len(b) or (i < len(b) and (b[i] & 0xC0) != 0x80))
    if op == 'split_at':
        i = pyint(ex, a[1]); b = txt.encode('utf-8')
        try: l, r = b[:i].decode('utf-8'), b[i:].decode('utf-8')
        except UnicodeDecodeError: raise Panic('byte index is not a char boundary')
        if i > len(b): raise Panic('byte index out of range')
        return Agg('tuple', None, None, [Cell(Ptr(Cell(rstr(l)), 'ref')), Cell(Ptr(Cell(rstr(r)), 'ref'))])
    if op == 'repeat': return rstr(txt * pyint(ex, a[1]))
    if op == 'eq_ignore_ascii_case': return Bool(txt.lower() == conc(ex, as_str(a[1])).lower())
    if op == 'lines': return IterV(iter([Ptr(Cell(rstr(l)), 'ref') for l in txt.split('\n')[:-1] + ([txt.split('\n')[-1]] if txt.split('\n')[-1] else [])]))
    if op == 'split_whitespace': return IterV(iter([Ptr(Cell(rstr(l)), 'ref') for l in txt.split()]))
    if op in ('strip_prefix', 'strip_suffix'):
        p = conc(ex, as_str(a[1]))
        if op == 'strip_prefix': return some(Ptr(Cell(rstr(txt[len(p):])), 'ref')) if txt.startswith(p) else none()
        return some(Ptr(Cell(rstr(txt[:len(txt) - len(p)])), 'ref')) if txt.endswith(p) else none()
    raise Unsupported(f'str::{op}')
@model_rx(r'^<std::ops::Range(?:Inclusive)?<usize> as (?:std::slice::)?SliceIndex<(str|\[.*\])>>::(index|get)$|^<(str|\[.*\]|std::string::String|Vec<.*>) as (?:std::ops::)?Index<(?:std::ops::)?Range(To|From|Full|Inclusive|ToInclusive)?(?:<usize>)?>>::index$')
def m_range_index(ex, a, m):
    # both argument orders occur: SliceIndex::index(range, slice) and Index::index(slice, range)
    rng, tgt = (a[0], a[1]) if m.group(2) else (a[1], a[0])
    t = deref_all(tgt)
    rf = {k: None for k in ('start', 'end')}
    if isinstance(rng, Agg):
        nm = rng.ty or ''
        vals = [c.v for c in rng.fields]
        if 'RangeFull' in nm or not vals: pass
        elif 'RangeTo' in nm: rf['end'] = vals[0]
        elif 'RangeFrom' in nm: rf['start'] = vals[0]
        else: rf['start'], rf['end'] = vals[0], vals[1] if len(vals) > 1 else None
    if isinstance(t, StrV):
        txt = conc(ex, t, 'string to slice').encode('utf-8')
        lo = pyint(ex, rf['start']) if rf['start'] is not None else 0
        hi = pyint(ex, rf['end']) if rf['end'] is not None else len(txt)
        if lo > hi or hi > len(txt): raise Panic('byte index out of range for string slice')
        try: return Ptr(Cell(rstr(txt[lo:hi].decode('utf-8'))), 'ref') if (m.group(2) or '') != 'get' else some(Ptr(Cell(rstr(txt[lo:hi].decode('utf-8'))), 'ref'))
        except UnicodeDecodeError: raise Panic('byte index is not a char boundary')
    items = _vecof(tgt).items
    lo = pyint(ex, rf['start']) if rf['start'] is not None else 0
    hi = pyint(ex, rf['end']) if rf['end'] is not None else len(items)
    if lo > hi or hi > len(items): raise Panic('range end index out of range for slice')
    return Ptr(Cell(SliceRef(items[lo:hi])), 'ref')

# ------------------------------------------------------------------------------------------ statics, interior mutability, ToJmespath
@model_rx(r'^lazy_static::lazy::Lazy::get$')
def m_lazy_get(ex, a, m):
    cell = a[0].cell                      # &'static Lazy<T>: the static's cell (persistent on this path)
    v = cell.v
    if not (isinstance(v, Agg) and v.ty == 'LazyInit'):
        cell.v = Agg('struct', 'LazyInit', None, [Cell(ex.call_value(a[1], []))])
    return Ptr(cell.v.fields[0], 'ref')
@model_rx(r'^lazy_static::lazy::Lazy::INIT$')
def m_lazy_init_const(ex, a, m): return Agg('struct', 'LazyUninit', None, [])
@model_rx(r'^(?:std::sync::atomic::|core::sync::atomic::)?Atomic(Usize|Isize|U64|I64|U32|I32|Bool)::(new|load|store|fetch_add|fetch_sub|swap|into_inner|get_mut|compare_exchange)$')
def m_atomic(ex, a, m):
    op = m.group(2)
    if op == 'new': return Agg('struct', 'Atomic', None, [Cell(a[0])])
    cell = a[0].cell.v.fields[0]
    if op == 'load': return cell.v
    if op == 'store': cell.v = a[1]; return UNIT
    if op == 'swap': old = cell.v; cell.v = a[1]; return old
    if op in ('fetch_add', 'fetch_sub'):
        old = cell.v; cell.v = Int(z3.simplify(old.bv + a[1].bv if op == 'fetch_add' else old.bv - a[1].bv), old.ty); return old
    raise Unsupported('atomic ' + op)
@model_rx(r'^(?:std::cell::|core::cell::)?(Cell|RefCell)::(new|get|set|replace|take|borrow|borrow_mut|into_inner|get_mut)$')
def m_cell(ex, a, m):
    kind, op = m.groups()
    if op == 'new': return Agg('struct', kind, None, [Cell(a[0])])
    obj = deref_all(a[0]) if isinstance(a[0], Ptr) else a[0]
    c = obj.fields[0]
    if op == 'get': return c.v
    if op == 'set': c.v = a[1]; return UNIT
    if op == 'replace': old = c.v; c.v = a[1]; return old
    if op in ('borrow', 'borrow_mut', 'get_mut'): return Ptr(c, 'ref')
    if op == 'into_inner': return c.v
    raise Unsupported(f'{kind}::{op}')
@model_rx(r'^<(?:std::cell::)?(Ref|RefMut)<.*> as (Deref|DerefMut)>::(deref|deref_mut)$')
def m_ref_deref(ex, a, m): return a[0].cell.v if isinstance(a[0].cell.v, Ptr) else a[0]
@model_rx(r'^(?:std::sync::)?(Mutex|RwLock)::(new|lock|read|write|into_inner)$')
def m_mutex(ex, a, m):
    kind, op = m.groups()
    if op == 'new': return Agg('struct', kind, None, [Cell(a[0])])
    obj = deref_all(a[0]) if isinstance(a[0], Ptr) else a[0]
    if op == 'into_inner': return ok(obj.fields[0].v)
    return ok(Ptr(obj.fields[0], 'ref'))
@model_rx(r'^<(?:std::sync::)?(MutexGuard|RwLockReadGuard|RwLockWriteGuard)<.*> as (Deref|DerefMut)>::(deref|deref_mut)$')
def m_guard_deref(ex, a, m): return a[0].cell.v if isinstance(a[0].cell.v, Ptr) else a[0]
@model_rx(r'^<(.+) as ToJmespath>::to_jmespath$')
def m_to_jmespath(ex, a, m):
    """ToJmespath on a value whose impl rustc resolved through a reference / generic parameter: dispatch on the engine value to the crate impl
    that applies (a specialised one when the crate was built with `specialized`, else the generic serde path)"""
    v = a[0]
    inner = v
    isref = isinstance(v, Ptr) and v.kind != 'rc'
    while isinstance(inner, Ptr) and inner.kind != 'rc': inner = inner.cell.v
    tyname = None
    if isinstance(inner, Agg) and inner.ty in ('Value', 'Variable'): tyname = inner.ty
    elif isinstance(inner, Ptr) and inner.kind == 'rc': tyname = 'Rc<Variable>'
    elif isinstance(inner, StrV): tyname = 'str' if isref else 'std::string::String'
    if tyname:
        want = ('&' + tyname) if isref else tyname
        cands = [f for n, f in ex.prog.fns.items() if n.endswith('>::to_jmespath') and f.params and f.locals[f.params[0]].replace('serde_json::', '').replace('std::rc::', '').replace('variable::', '') == want]
        if len(cands) == 1: return ex.run_fn(cands[0], [v])
    g = ex.prog.by_key.get(('ToJmespath', 'T', 'to_jmespath'))
    if g is None: raise Unsupported('ToJmespath: no generic impl found')
    return ex.run_fn(g, [v])
@model_rx(r'^<\w+ as Into<std::string::String>>::into$|^<std::string::String as From<.*>>::from$')
def m_generic_into_string(ex, a, m): return StrV(as_str(a[0]).chars)

@model_override(r'^<.+ as ToJmespath>::to_jmespath$')
def m_to_jmespath_rc(ex, a, m):
    """an Rc<Variable> / Variable handed to search(): the generic serde path re-serialises it into an equal Variable (C14/C17 decide that
    equivalence); here the value itself is used.  Other argument types decline (crate MIR / unsupported)."""
    v = a[0]
    if isinstance(v, Ptr) and v.kind == 'rc' and isinstance(v.cell.v, Agg) and v.cell.v.ty == 'Variable': return ok(v)
    return NotImplemented

# ------------------------------------------------------------------------------------------ symbolic-aware string slicing / scanning
def _byte_positions(ex, sv):
    pos = [Int(0, 'usize')]
    for c in sv.chars:
        w = ex.str_byte_len(StrV([c])); p = pos[-1]
        pc_, wc = p.concrete(), w.concrete()
        pos.append(Int(pc_ + wc, 'usize') if pc_ is not None and wc is not None else Int(z3.simplify(p.bv + w.bv), 'usize'))
    return pos
def _boundary_index(ex, sv, off, what):
    """fork over the character boundary k with byte position == off; None when off is no boundary / out of range"""
    pos = _byte_positions(ex, sv)
    oc = off.concrete()
    conds = []
    for k, p in enumerate(pos):
        pc_ = p.concrete()
        if oc is not None and pc_ is not None:
            if oc == pc_: return k
            continue
        conds.append((k, p.bv == off.bv))
    if not conds: return None
    conds.append((None, z3.And(*[z3.Not(c) for _, c in conds])))
    return ex.choose(conds)
def str_slice(ex, sv, lo, hi):
    i = 0 if lo is None else _boundary_index(ex, sv, lo, 'start')
    j = len(sv.chars) if hi is None else _boundary_index(ex, sv, hi, 'end')
    if i is None or j is None or i > j: return None
    return StrV(sv.chars[i:j])
def _range_parts(rng):
    lo = hi = None
    if isinstance(rng, Agg):
        nm = rng.ty or ''; vals = [c.v for c in rng.fields]
        if 'RangeFull' in nm or not vals: pass
        elif 'RangeTo' in nm: hi = vals[0]
        elif 'RangeFrom' in nm: lo = vals[0]
        else: lo, hi = vals[0], (vals[1] if len(vals) > 1 else None)
    return lo, hi
@model_override(r'^(?:core::|alloc::|std::)?str::<impl str>::get(::<.*>)?$|^<std::ops::Range\w*(?:<usize>)? as (?:std::slice::)?SliceIndex<str>>::(index|get)$|^<(str|std::string::String) as (?:std::ops::)?Index<(?:std::ops::)?Range\w*(?:<usize>)?>>::index$')
def m_str_slice_sym(ex, a, m):
    if m.group(2): rng, tgt, is_get = a[0], a[1], m.group(2) == 'get'
    elif m.group(3): rng, tgt, is_get = a[1], a[0], False
    else: rng, tgt, is_get = a[1], a[0], True
    sv = deref_all(tgt)
    if not isinstance(sv, StrV): return NotImplemented
    lo, hi = _range_parts(rng)
    if isinstance(rng, Agg) and 'Inclusive' in (rng.ty or ''): return NotImplemented
    r = str_slice(ex, sv, lo, hi)
    if is_get: return none() if r is None else some(Ptr(Cell(r), 'ref'))
    if r is None: raise Panic('byte index is out of range or not a char boundary (str slice)')
    return Ptr(Cell(r), 'ref')
def _is_nl(ex, c):
    from .jsonmodel import is_ch
    return is_ch(ex, c, '\n')
@model_override(r'^(?:core::|alloc::|std::)?str::<impl str>::(trim|trim_start|trim_end)$')
def m_str_trim_sym(ex, a, m):
    """str::trim* on strings with symbolic characters: Unicode White_Space is stripped from the ends (decided per character by forks)"""
    sv = as_str(a[0])
    if sv.concrete() is not None: return NotImplemented
    WS = [(9, 13), (32, 32), (0x85, 0x85), (0xA0, 0xA0), (0x1680, 0x1680), (0x2000, 0x200A), (0x2028, 0x2029), (0x202F, 0x202F), (0x205F, 0x205F), (0x3000, 0x3000)]
    def is_ws(c):
        if isinstance(c, str): return c.isspace() and (ord(c) in (0x85, 0xA0, 0x1680, 0x2028, 0x2029, 0x202F, 0x205F, 0x3000) or 9 <= ord(c) <= 13 or ord(c) == 32 or 0x2000 <= ord(c) <= 0x200A)
        k = c.concrete()
        if k is not None: return any(lo <= k <= hi for lo, hi in WS)
        from .jsonmodel import _memo
        return _memo(ex, (c.bv.get_id(), 'unicode-ws'), lambda: z3.Or(*[z3.And(z3.UGE(c.bv, lo), z3.ULE(c.bv, hi)) for lo, hi in WS]))
    chars = list(sv.chars); op = m.group(1)
    if op in ('trim', 'trim_start'):
        while chars and is_ws(chars[0]): chars.pop(0)
    if op in ('trim', 'trim_end'):
        while chars and is_ws(chars[-1]): chars.pop()
    return Ptr(Cell(StrV(chars)), 'ref')
@model_override(r'^(?:core::|alloc::|std::)?str::<impl str>::(lines|split|rsplit|split_terminator|matches|rfind|find|split_once|rsplit_once)(::<.*>)?$')
def m_str_scan_sym(ex, a, m):
    """scanning for a single (concrete) character in a string with symbolic characters; everything else declines to the concrete models"""
    from .jsonmodel import is_ch
    op = m.group(1); sv = as_str(a[0])
    if sv.concrete() is not None and op != 'lines': return NotImplemented
    if op == 'lines': pat = '\n'
    else:
        p = deref_all(a[1]) if isinstance(a[1], Ptr) else a[1]
        if isinstance(p, StrV) and p.concrete() is not None and len(p.concrete()) == 1: pat = p.concrete()
        elif isinstance(p, Int) and p.concrete() is not None: pat = chr(p.concrete())
        else: return NotImplemented
    chars = sv.chars; hits = [i for i, c in enumerate(chars) if is_ch(ex, c, pat)]
    pos = _byte_positions(ex, sv)
    mk = lambda cs: Ptr(Cell(StrV(cs)), 'ref')
    if op in ('find', 'rfind'):
        if not hits: return none()
        return some(pos[hits[0] if op == 'find' else hits[-1]])
    if op == 'matches': return IterV(iter([mk([chars[i]]) for i in hits]))
    if op in ('split_once', 'rsplit_once'):
        if not hits: return none()
        i = hits[0] if op == 'split_once' else hits[-1]
        return some(Agg('tuple', None, None, [Cell(mk(chars[:i])), Cell(mk(chars[i + 1:]))]))
    pieces = []; start = 0
    for i in hits: pieces.append(chars[start:i]); start = i + 1
    pieces.append(chars[start:])
    if op in ('lines', 'split_terminator'):
        terminated = [True] * (len(pieces) - 1) + [False]           # every piece but the last was ended by the pattern
        if not pieces[-1]: pieces.pop(); terminated.pop()
        if op == 'lines': pieces = [p[:-1] if (t_ and p and is_ch(ex, p[-1], '\r')) else p for p, t_ in zip(pieces, terminated)]
    if op == 'rsplit': pieces = pieces[::-1]
    return IterV(iter([mk(p) for p in pieces]))

# ------------------------------------------------------------------------------------------ serde_json as a Serializer (model): the crate's `impl Serialize for Variable` runs from its MIR
class JsonSerV:
    """serde_json's serializer (to_string / to_value): collects the JSON tree the Serialize impl emits"""
    __slots__ = ('mode',)
    def __init__(s, mode='text'): s.mode = mode
def _ser_value(ex, v, ser):
    """serialise an engine value the way serde / serde_json's own impls do for std types, calling back into crate MIR for crate types"""
    v0 = v
    while isinstance(v, Ptr): v = v.cell.v
    if isinstance(v, Agg) and v.ty == 'Variable':
        f = ex.prog.by_key.get(('Serialize', 'Variable', 'serialize'))
        r = ex.run_fn(f, [Ptr(Cell(v), 'ref'), ser])
        if r.variant != 'Ok': raise JsonSerErr(r)
        return r.fields[0].v.tree
    if isinstance(v, VecV): return ('arr', [_ser_value(ex, c.v, ser) for c in v.items])
    if isinstance(v, MapV):
        if not v.ordered and len(v.d) > 1: raise Unsupported('serialising a HashMap: iteration order unspecified')
        return ('obj', [(k, _ser_value(ex, v.d[k].v, ser)) for k in v.keys()])
    if isinstance(v, NumberV): return ('num', v)
    if isinstance(v, StrV): return ('str', list(v.chars))
    if isinstance(v, Bool): return ('bool', v)
    raise Unsupported(f'serde_json serialisation of {type(v).__name__}')
class JsonSerErr(Exception):
    def __init__(s, r): s.r = r
class JsonTreeV:
    __slots__ = ('tree',)
    def __init__(s, tree): s.tree = tree
@model_override(r'^<.+ as (?:serde::)?(?:ser::)?Serializer>::serialize_(unit|bool|str|none)$')
def m_jsonser_scalar(ex, a, m):
    if not isinstance(a[0], JsonSerV): return NotImplemented
    k = m.group(1)
    if k in ('unit', 'none'): return ok(JsonTreeV(('null',)))
    if k == 'bool': return ok(JsonTreeV(('bool', a[1])))
    return ok(JsonTreeV(('str', list(as_str(a[1]).chars))))
@model_override(r'^<.+ as (?:serde::)?(?:ser::)?Serialize>::serialize$')
def m_jsonser_std(ex, a, m):
    """Vec<Rc<Variable>>, BTreeMap<String, Rc<Variable>>, serde_json::Number, Rc<Variable> into the serde_json serializer"""
    if len(a) < 2 or not isinstance(a[1], JsonSerV): return NotImplemented
    try: return ok(JsonTreeV(_ser_value(ex, a[0], a[1])))
    except JsonSerErr as e: return e.r
def tree_text(ex, t):
    """JSON tree -> characters (serde_json's compact printing; numbers need concrete payloads)"""
    k = t[0]
    if k == 'null': return list('null')
    if k == 'bool':
        b = t[1]; c = b.concrete() if isinstance(b, Bool) else b
        if c is None: c = ex.branch_bool(b)
        return list('true' if c else 'false')
    if k == 'num':
        n = t[1]; c = cval(n.val)
        if c is None: raise Unsupported('symbolic number to JSON text')
        return list(fmt_f64(c) if n.kind == 'float' else str(c))
    if k == 'str':
        out = ['"']
        for ch in t[1]:
            if isinstance(ch, str): out.extend(json.dumps(ch, ensure_ascii=False)[1:-1])
            else:
                x = ch.bv
                if ex.branch_bool(Bool(z3.Or(x == 34, x == 92, z3.ULT(x, 32)))):
                    kx = ex.concretize_int(ch, 'char to escape'); out.extend(json.dumps(chr(kx), ensure_ascii=False)[1:-1])
                else: out.append(ch)
        out.append('"'); return out
    if k == 'arr':
        out = ['[']
        for i, x in enumerate(t[1]):
            if i: out.append(',')
            out.extend(tree_text(ex, x))
        out.append(']'); return out
    out = ['{']
    for i, (kk, x) in enumerate(t[1]):
        if i: out.append(',')
        out.extend(json.dumps(kk, ensure_ascii=False)); out.append(':'); out.extend(tree_text(ex, x))
    out.append('}'); return out
@model_rx(r'^serde_json::to_string$')
def m_sj_to_string(ex, a, m):
    try: t = _ser_value(ex, a[0], JsonSerV('text'))
    except JsonSerErr as e: return e.r
    return ok(StrV(tree_text(ex, t)))

@model_rx(r'^(?:core::|alloc::|std::)?slice::<impl \[.*\]>::(binary_search_by|binary_search_by_key|partition_point)$|^(Vec|VecDeque)::(binary_search_by|binary_search_by_key|partition_point)$')
def m_binary_search_by(ex, a, m):
    """core::slice::binary_search_by as implemented since Rust 1.82 (branch-free halving): on an unsorted slice the answer depends on the algorithm, so it is reproduced step by step"""
    op = m.group(1) or m.group(3)
    v = deref_all(a[0]); items = v.items
    def cmp(i):
        if op == 'binary_search_by': r = ex.call_value(a[1], [Ptr(items[i], 'ref')])
        elif op == 'binary_search_by_key': return generic_cmp(ex, ex.call_value(a[2], [Ptr(items[i], 'ref')]), deref_all(a[1]))
        else: return 'Less' if pybool(ex, ex.call_value(a[1], [Ptr(items[i], 'ref')])) else 'Greater'
        r = deref_all(r) if isinstance(r, Ptr) else r
        if r.lazy is not None: ex.materialize(r)
        return r.variant
    size = len(items)
    if size == 0: return Int(0, 'usize') if op == 'partition_point' else err(Int(0, 'usize'))
    base = 0
    while size > 1:
        half = size // 2; mid = base + half
        if cmp(mid) != 'Greater': base = mid
        size -= half
    c = cmp(base)
    if op == 'partition_point': return Int(base + (1 if c == 'Less' else 0), 'usize')
    if c == 'Equal': return ok(Int(base, 'usize'))
    return err(Int(base + (1 if c == 'Less' else 0), 'usize'))

@model_rx(r'^(?:std::ops::|core::ops::)?(?:range::)?(Range|RangeInclusive|RangeFrom|RangeTo|RangeToInclusive)::(new|contains|start|end|is_empty)$')
def m_range_api(ex, a, m):
    ty, op = m.group(1), m.group(2)
    if op == 'new': return Agg('struct', 'RangeInclusive', None, [Cell(a[0]), Cell(a[1])])
    r = deref_all(a[0]) if isinstance(a[0], Ptr) else a[0]
    if not isinstance(r, Agg): raise Unsupported(f'{ty}::{op} on {r!r}')
    lo = r.fields[0].v if ty in ('Range', 'RangeInclusive', 'RangeFrom') else None
    hi = r.fields[-1].v if ty in ('Range', 'RangeInclusive', 'RangeTo', 'RangeToInclusive') else None
    if op == 'start': return Ptr(r.fields[0], 'ref')
    if op == 'end': return Ptr(r.fields[-1], 'ref')
    incl = ty in ('RangeInclusive', 'RangeToInclusive')
    def le(x, y, strict):
        cx, cy = x.concrete(), y.concrete()
        if cx is not None and cy is not None: return z3.BoolVal(cx < cy if strict else cx <= cy)
        if x.signed: return (x.bv < y.bv) if strict else (x.bv <= y.bv)
        return z3.ULT(x.bv, y.bv) if strict else z3.ULE(x.bv, y.bv)
    if op == 'is_empty': return Bool(z3.simplify(z3.Not(le(lo, hi, not incl))))
    x = deref_all(a[1]) if isinstance(a[1], Ptr) else a[1]
    if isinstance(x, F64) or not isinstance(x, Int): raise Unsupported(f'{ty}::contains of a non-integer')
    cs = []
    if lo is not None: cs.append(le(lo, x, False))
    if hi is not None: cs.append(le(x, hi, not incl))
    return Bool(z3.simplify(z3.And(*cs)))

# ------------------------------------------------------------------------------------------ serde_json::Value inspection API
@model_rx(r'^(?:serde_json::)?(?:value::)?Value::(is_null|is_boolean|is_number|is_string|is_array|is_object|is_i64|is_u64|is_f64|as_null|as_bool|as_str|as_array|as_object|as_array_mut|as_object_mut|as_i64|as_u64|as_f64|as_number)$')
def m_value_api(ex, a, m):
    op = m.group(1); v = deref_all(a[0]) if isinstance(a[0], Ptr) else a[0]
    if not (isinstance(v, Agg) and v.ty == 'Value'): raise Unsupported('serde_json::Value API on a foreign value')
    if v.lazy is not None: ex.materialize(v)
    k = v.variant
    kinds = {'is_null': 'Null', 'is_boolean': 'Bool', 'is_number': 'Number', 'is_string': 'String', 'is_array': 'Array', 'is_object': 'Object'}
    if op in kinds: return Bool(k == kinds[op])
    if op == 'as_null': return some(UNIT) if k == 'Null' else none()
    if op == 'as_bool': return some(v.fields[0].v) if k == 'Bool' else none()
    if op == 'as_str': return some(Ptr(v.fields[0], 'ref')) if k == 'String' else none()
    if op in ('as_array', 'as_array_mut'): return some(Ptr(v.fields[0], 'ref')) if k == 'Array' else none()
    if op in ('as_object', 'as_object_mut'): return some(Ptr(v.fields[0], 'ref')) if k == 'Object' else none()
    if op == 'as_number': return some(Ptr(v.fields[0], 'ref')) if k == 'Number' else none()
    if k != 'Number': return Bool(False) if op.startswith('is_') else none()
    n = v.fields[0].v
    if op == 'is_f64': return Bool(n.kind == 'float')
    if op == 'is_u64': return Bool(n.kind == 'pos')
    if op == 'is_i64':
        if n.kind == 'neg': return Bool(True)
        if n.kind == 'float': return Bool(False)
        return Bool(z3.ULE(n.val.bv, z3.BitVecVal((1 << 63) - 1, 64))) if n.val.concrete() is None else Bool(n.val.concrete() <= (1 << 63) - 1)
    if op == 'as_f64':
        if n.kind == 'float': return some(n.val)
        return some(F64(z3.fpToFP(z3.RNE(), n.val.bv, z3.Float64()) if n.kind == 'neg' else z3.fpToFPUnsigned(z3.RNE(), n.val.bv, z3.Float64())) if n.val.concrete() is None else F64(float(n.val.concrete())))
    if op == 'as_u64': return some(Int(n.val.bv, 'u64') if n.val.concrete() is None else Int(n.val.concrete(), 'u64')) if n.kind == 'pos' else none()
    if op == 'as_i64':
        if n.kind == 'neg': return some(Int(n.val.bv, 'i64') if n.val.concrete() is None else Int(n.val.concrete(), 'i64'))
        if n.kind == 'float': return none()
        c = n.val.concrete()
        if c is not None: return some(Int(c, 'i64')) if c <= (1 << 63) - 1 else none()
        fits = ex.choose([(True, z3.ULE(n.val.bv, z3.BitVecVal((1 << 63) - 1, 64))), (False, z3.UGT(n.val.bv, z3.BitVecVal((1 << 63) - 1, 64)))])
        return some(Int(n.val.bv, 'i64')) if fits else none()
    raise Unsupported('Value::' + op)

# ------------------------------------------------------------------------------------------ OnceLock / OnceCell: a cell holding an Option
@model_rx(r'^(?:std::sync::|std::cell::|core::cell::|once_cell::\w+::)?(OnceLock|OnceCell)::(new|get|get_mut|set|get_or_init|into_inner|take|try_insert)$')
def m_once(ex, a, m):
    op = m.group(2)
    if op == 'new': return Agg('struct', 'OnceLock', None, [Cell(none())])
    o = deref_all(a[0]) if isinstance(a[0], Ptr) else a[0]; slot = o.fields[0]; cur = slot.v
    if op in ('get', 'get_mut'): return some(Ptr(cur.fields[0], 'ref')) if cur.variant == 'Some' else none()
    if op == 'set':
        if cur.variant == 'Some': return err(a[1])
        slot.v = some(a[1]); return ok(UNIT)
    if op == 'get_or_init':
        if cur.variant != 'Some': slot.v = some(ex.call_value(a[1], []))
        return Ptr(slot.v.fields[0], 'ref')
    if op == 'into_inner': return cur
    if op == 'take': slot.v = none(); return cur
    raise Unsupported('OnceLock::' + op)

# ------------------------------------------------------------------------------------------ thread_local!: one thread per path, storage persistent on the path
@model_rx(r'^(?:std::thread::)?LocalKey::new$')
def m_localkey_new(ex, a, m): return Agg('struct', 'LocalKey', None, [Cell(Opaque(('tls', (ex.cur_fn or '').split('::')[-1])))])
@model_rx(r'^(?:std::thread::)?LocalKey::(with|try_with|set|get|take|replace|with_borrow|with_borrow_mut)$')
def m_localkey_with(ex, a, m):
    key = deref_all(a[0]); name = key.fields[0].v.tag[1]
    tls = ex.__dict__.setdefault('tls', {})
    if name not in tls:
        init = ex.prog.fns.get('__rust_std_internal_init_fn@' + name)
        if init is None: raise Unsupported(f'thread_local {name}: initialiser not found')
        tls[name] = Cell(ex.run_fn(init, []))
    cell = tls[name]; op = m.group(1)
    if op == 'with': return ex.call_value(a[1], [Ptr(cell, 'ref')])
    if op == 'try_with': return ok(ex.call_value(a[1], [Ptr(cell, 'ref')]))
    inner = cell.v.fields[0] if isinstance(cell.v, Agg) and cell.v.ty in ('Cell', 'RefCell') else None
    if inner is None: raise Unsupported('LocalKey::' + op + ' on a non-cell')
    if op == 'set': inner.v = a[1]; return UNIT
    if op == 'get': return inner.v
    if op == 'replace': old = inner.v; inner.v = a[1]; return old
    if op in ('with_borrow', 'with_borrow_mut'): return ex.call_value(a[1], [Ptr(inner, 'ref')])
    raise Unsupported('LocalKey::' + op)

@model_rx(r'^(std::option::)?Option::Some$')
def m_some_ctor(ex, a, m): return some(a[0])
@model_rx(r'^(std::result::)?Result::(Ok|Err)$')
def m_result_ctor(ex, a, m): return ok(a[0]) if m.group(2) == 'Ok' else err(a[0])
@model('<serde_json::Number as Clone>::clone')
def m_number_clone(ex, a): return deref_all(a[0])
@model_rx(r'^<serde_json::Number as (?:serde::)?(?:de::)?Deserializer(?:<.*>)?>::deserialize_any$')
def m_number_deserialize_any(ex, a, m):
    n = a[0]; k = {'pos': 'u64', 'neg': 'i64', 'float': 'f64'}[n.kind]
    return ex.call(f'<V as Visitor>::visit_{k}', [a[1], n.val])

# ------------------------------------------------------------------------------------------ map Entry API
class EntryV:
    __slots__ = ('mp', 'key')
    def __init__(s, mp, key): s.mp, s.key = mp, key
@model_rx(r'^(BTreeMap|HashMap)::entry$')
def m_map_entry(ex, a, m):
    mp = _mapof(a[0]); return EntryV(mp, map_key(ex, mp, a[1]))
@model_rx(r'^(?:std::collections::)?(?:hash_map|btree_map|hash_map::|btree_map::)?(?:::)?Entry::(or_insert|or_insert_with|or_insert_with_key|or_default|and_modify|key)$|^(?:[\w:]*::)?Entry::<.*>::(or_insert|or_insert_with|or_default|and_modify|key)$')
def m_entry_ops(ex, a, m):
    op = m.group(1) or m.group(2); e = a[0]
    if not isinstance(e, EntryV): raise Unsupported('Entry value')
    if op == 'key': return Ptr(Cell(rstr(e.key)), 'ref')
    if op == 'and_modify':
        if e.key in e.mp.d: ex.call_value(a[1], [Ptr(e.mp.d[e.key], 'ref')])
        return e
    if e.key not in e.mp.d:
        if op == 'or_insert': e.mp.d[e.key] = Cell(a[1])
        elif op == 'or_insert_with': e.mp.d[e.key] = Cell(ex.call_value(a[1], []))
        elif op == 'or_insert_with_key': e.mp.d[e.key] = Cell(ex.call_value(a[1], [Ptr(Cell(rstr(e.key)), 'ref')]))
        else:
            t = callee_generic(ex, 1)
            if t is None: raise Unsupported('Entry::or_default (Default of an unknown type)')
            e.mp.d[e.key] = Cell(default_of_type(ex, t))
    return Ptr(e.mp.d[e.key], 'ref')

@model_rx(r'^(?:core::|alloc::|std::)?slice::<impl \[.*\]>::(split_at|split_at_mut|split_first_chunk|chunks|windows)$')
def m_slice_split(ex, a, m):
    op = m.group(1); v = _vecof(a[0]); items = v.items
    if op in ('split_at', 'split_at_mut'):
        i = pyint(ex, a[1], 'split index')
        if i > len(items): raise Panic('mid > len (split_at)')
        return Agg('tuple', None, None, [Cell(Ptr(Cell(SliceRef(items[:i])), 'ref')), Cell(Ptr(Cell(SliceRef(items[i:])), 'ref'))])
    n = pyint(ex, a[1])
    if n == 0: raise Panic('chunk/window size must be non-zero')
    if op == 'chunks': return IterV(iter([Ptr(Cell(SliceRef(items[i:i + n])), 'ref') for i in range(0, len(items), n)]))
    if op == 'windows': return IterV(iter([Ptr(Cell(SliceRef(items[i:i + n])), 'ref') for i in range(0, max(0, len(items) - n + 1))]))
    raise Unsupported('slice::' + op)

@model_rx(r'^(?:serde_json::)?(?:de::)?Deserializer::from_str$|^serde_json::Deserializer::<.*>::from_str$')
def m_sj_deserializer_from_str(ex, a, m): return JsonStreamDeV(as_str(a[0]).chars)
class JsonStreamIterV:
    """serde_json::StreamDeserializer (model): a sequence of whitespace-separated values read from one text"""
    __slots__ = ('de', 'failed')
    def __init__(s, de): s.de = de; s.failed = False
@model_rx(r'^(?:serde_json::)?(?:de::)?Deserializer::into_iter$')
def m_sj_into_iter(ex, a, m): return JsonStreamIterV(a[0].cell.v if isinstance(a[0], Ptr) else a[0])
@model_override(r'^<(?:serde_json::)?(?:de::)?StreamDeserializer<.*> as Iterator>::next$')
def m_sj_stream_next(ex, a, m):
    from . import jsonmodel
    it = a[0].cell.v if isinstance(a[0], Ptr) else a[0]
    if not isinstance(it, JsonStreamIterV): return NotImplemented
    d = it.de
    r = jsonmodel.Reader(ex, d.chars); r.i = d.i; r.skip_ws(); d.i = r.i
    if it.failed or r.eof(): return none()
    first = d.chars[d.i]
    if not isinstance(first, str): raise Unsupported('StreamDeserializer over a symbolic first character')
    f = ex.prog.by_key.get(('Deserialize', 'Variable', 'deserialize'))
    if f is None: raise Unsupported('StreamDeserializer item type other than Variable')
    res = ex.run_fn(f, [Ptr(Cell(d))])
    if res.variant != 'Ok': it.failed = True; return some(res)
    # a value that is not self-delimiting (number, true, false, null) must be followed by white space or the end of the text
    if first not in '[{"' and d.i < len(d.chars):
        nx = d.chars[d.i]
        if not isinstance(nx, str): raise Unsupported('StreamDeserializer: symbolic character after a scalar')
        if nx not in ' \t\n\r':
            it.failed = True; return some(err(Agg('struct', 'SerdeJsonError', None, [Cell(rstr('trailing characters'))])))
    return some(res)
@model_rx(r'^serde_json::(?:de::)?Deserializer::(?:<.*>::)?end$')
def m_sj_deserializer_end(ex, a, m):
    from . import jsonmodel
    d = a[0].cell.v if isinstance(a[0], Ptr) else a[0]
    r = jsonmodel.Reader(ex, d.chars); r.i = d.i; r.skip_ws()
    return ok(UNIT) if r.eof() else err(Agg('struct', 'SerdeJsonError', None, [Cell(rstr('trailing characters'))]))

# ------------------------------------------------------------------------------------------ panics reached through library calls
@model_rx(r'^(core::panicking::\w+|std::rt::panic_fmt|std::rt::begin_panic|core::panicking::panic_fmt|std::panicking::begin_panic|core::option::unwrap_failed|core::option::expect_failed|core::result::unwrap_failed|core::slice::index::\w+_fail|core::str::slice_error_fail|core::panicking::panic_bounds_check|core::cell::panic_already_(?:mutably_)?borrowed|std::process::abort|std::process::exit)$')
def m_panic_call(ex, a, m):
    msg = ''
    if a:
        v = deref_all(a[0]) if isinstance(a[0], Ptr) else a[0]
        if isinstance(v, StrV): msg = v.concrete() or ''
        elif isinstance(v, Agg) and v.ty == 'FmtArguments':
            try: msg = render_arguments(ex, v)
            except Exception: msg = ''
    raise Panic(f'{m.group(1).split("::")[-1]}: {msg}'[:200])

@model_override(r"^<(&?(?:'\\w+ )?(?:serde_json::)?Value) as (?:std::convert::)?TryInto<(?:variable::)?Variable>>::try_into$|^<(?:variable::)?Variable as (?:std::convert::)?TryFrom<(&?(?:'\\w+ )?(?:serde_json::)?Value)>>::try_from$")
def m_value_try_into(ex, a, m):
    src = (m.group(1) or m.group(2)).replace('serde_json::', '')
    want = '&Value' if src.startswith('&') else 'Value'
    cands = [f for n, f in ex.prog.fns.items() if n.endswith('>::try_from') and f.params and f.locals[f.params[0]].replace('serde_json::', '') == want]
    if len(cands) != 1: return NotImplemented
    return ex.run_fn(cands[0], [a[0]])
@model_rx(r'^<.* as Clone>::clone$')
def m_clone_any(ex, a, m):
    """structural Clone for std types without a dedicated model (RefCell, Cell, tuples, ...): fields are cloned recursively, Rc/refs are shared"""
    return clone_value(ex, a[0].cell.v if isinstance(a[0], Ptr) else a[0])
