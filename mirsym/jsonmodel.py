"""Model of serde_json::from_str::<Variable> over (possibly symbolic) code points: an RFC 8259 reader written independently of
serde_json, forking through the path executor on every character test.  Number classification follows serde_json's documented data
model (u64 -> PosInt, negative i64 -> NegInt, everything else incl. "-0", fractions, exponents, out-of-range integers -> f64)."""
import z3
from .core import *

class JsonErr(Exception): pass

def cbv(c): return c.bv if isinstance(c, Int) else z3.BitVecVal(ord(c), 32)
def _memo(ex, key, mk):
    """character-class facts decided earlier on this path stay true (the path condition only grows)"""
    mm = ex.__dict__.setdefault('u_memo', {})
    if key in mm: return mm[key]
    r = ex.branch_bool(Bool(mk())); mm[key] = r; return r
def is_ch(ex, c, ch):
    if isinstance(c, str): return c == ch
    k = c.concrete()
    if k is not None: return k == ord(ch)
    return _memo(ex, (c.bv.get_id(), ch), lambda: c.bv == ord(ch))
def in_range(ex, c, lo, hi):
    if isinstance(c, str): return lo <= c <= hi
    k = c.concrete()
    if k is not None: return ord(lo) <= k <= ord(hi)
    return _memo(ex, (c.bv.get_id(), lo, hi), lambda: z3.And(z3.UGE(c.bv, ord(lo)), z3.ULE(c.bv, ord(hi))))
def is_ws(ex, c):
    if isinstance(c, str): return c in ' \t\n\r'
    k = c.concrete()
    if k is not None: return chr(k) in ' \t\n\r'
    return _memo(ex, (c.bv.get_id(), 'ws'), lambda: z3.Or(c.bv == 32, c.bv == 9, c.bv == 10, c.bv == 13))
def digit_val(ex, c):
    """c is known to be a digit: returns python int (concrete) or z3 64-bit term"""
    if isinstance(c, str): return ord(c) - 48
    k = c.concrete()
    if k is not None: return k - 48
    return z3.ZeroExt(32, c.bv) - 48
def concrete_digit(ex, c):
    if isinstance(c, str): return ord(c) - 48
    return ex.concretize_int(c, 'digit') - 48

class Reader:
    def __init__(s, ex, chars): s.ex, s.c, s.i = ex, list(chars), 0
    def eof(s): return s.i >= len(s.c)
    def peek(s): return s.c[s.i]
    def skip_ws(s):
        while not s.eof() and is_ws(s.ex, s.peek()): s.i += 1
    def lit(s, word):
        for ch in word:
            if s.eof() or not is_ch(s.ex, s.peek(), ch): raise JsonErr(f'expected ident')
            s.i += 1
    def value(s, depth=0):
        ex = s.ex
        if depth > 100: raise Unsupported('json nesting')
        s.skip_ws()
        if s.eof(): raise JsonErr('EOF while parsing a value')
        c = s.peek()
        if is_ch(ex, c, 'n'): s.lit('null'); return ('null',)
        if is_ch(ex, c, 't'): s.lit('true'); return ('bool', True)
        if is_ch(ex, c, 'f'): s.lit('false'); return ('bool', False)
        if is_ch(ex, c, '"'): return ('str', s.string())
        if is_ch(ex, c, '['):
            s.i += 1; items = []
            s.skip_ws()
            if not s.eof() and is_ch(ex, s.peek(), ']'): s.i += 1; return ('arr', [])
            while True:
                items.append(s.value(depth + 1))
                s.skip_ws()
                if s.eof(): raise JsonErr('EOF while parsing a list')
                if is_ch(ex, s.peek(), ','): s.i += 1; continue
                if is_ch(ex, s.peek(), ']'): s.i += 1; return ('arr', items)
                raise JsonErr('expected `,` or `]`')
        if is_ch(ex, c, '{'):
            s.i += 1; pairs = []
            s.skip_ws()
            if not s.eof() and is_ch(ex, s.peek(), '}'): s.i += 1; return ('obj', pairs)
            while True:
                s.skip_ws()
                if s.eof() or not is_ch(ex, s.peek(), '"'): raise JsonErr('key must be a string')
                kchars = s.string()
                key = []
                for ch in kchars:
                    if isinstance(ch, str): key.append(ch)
                    else:
                        k = ch.concrete()
                        if k is None: raise Unsupported('symbolic object key in JSON text')
                        key.append(chr(k))
                s.skip_ws()
                if s.eof() or not is_ch(ex, s.peek(), ':'): raise JsonErr('expected `:`')
                s.i += 1
                pairs.append((''.join(key), s.value(depth + 1)))
                s.skip_ws()
                if s.eof(): raise JsonErr('EOF while parsing an object')
                if is_ch(ex, s.peek(), ','): s.i += 1; continue
                if is_ch(ex, s.peek(), '}'): s.i += 1; return ('obj', pairs)
                raise JsonErr('expected `,` or `}`')
        if is_ch(ex, c, '-') or in_range(ex, c, '0', '9'): return ('num', s.number())
        raise JsonErr('expected value')
    def hex4(s):
        v = 0
        for _ in range(4):
            if s.eof(): raise JsonErr('EOF in \\u escape')
            c = s.peek()
            if isinstance(c, Int) and c.concrete() is None:
                ishex = s.ex.branch_bool(Bool(z3.Or(z3.And(z3.UGE(c.bv, 48), z3.ULE(c.bv, 57)), z3.And(z3.UGE(c.bv, 65), z3.ULE(c.bv, 70)), z3.And(z3.UGE(c.bv, 97), z3.ULE(c.bv, 102)))))
                if not ishex: raise JsonErr('invalid escape')
                k = s.ex.concretize_int(c, 'hex digit')
            else: k = ord(c) if isinstance(c, str) else c.concrete()
            ch = chr(k)
            if ch not in '0123456789abcdefABCDEF': raise JsonErr('invalid escape')
            v = v * 16 + int(ch, 16); s.i += 1
        return v
    def string(s):
        ex = s.ex; s.i += 1; out = []
        while True:
            if s.eof(): raise JsonErr('EOF while parsing a string')
            c = s.peek()
            if is_ch(ex, c, '"'): s.i += 1; return out
            if is_ch(ex, c, '\\'):
                s.i += 1
                if s.eof(): raise JsonErr('EOF while parsing a string')
                e = s.peek(); s.i += 1
                simple = {'"': '"', '\\': '\\', '/': '/', 'b': '\b', 'f': '\f', 'n': '\n', 'r': '\r', 't': '\t'}
                done = False
                for k, v in simple.items():
                    if is_ch(ex, e, k): out.append(v); done = True; break
                if done: continue
                if is_ch(ex, e, 'u'):
                    v = s.hex4()
                    if 0xDC00 <= v <= 0xDFFF: raise JsonErr('lone trailing surrogate')
                    if 0xD800 <= v <= 0xDBFF:
                        if s.eof() or not is_ch(ex, s.peek(), '\\'): raise JsonErr('unexpected end of hex escape')
                        s.i += 1
                        if s.eof() or not is_ch(ex, s.peek(), 'u'): raise JsonErr('unexpected end of hex escape')
                        s.i += 1
                        w = s.hex4()
                        if not (0xDC00 <= w <= 0xDFFF): raise JsonErr('lone leading surrogate')
                        v = 0x10000 + ((v - 0xD800) << 10) + (w - 0xDC00)
                    out.append(chr(v)); continue
                raise JsonErr('invalid escape')
            # raw character: control characters are not allowed
            if isinstance(c, str):
                if ord(c) < 0x20: raise JsonErr('control character (\\u0000-\\u001F) found while parsing a string')
            else:
                k = c.concrete()
                if k is not None:
                    if k < 0x20: raise JsonErr('control character')
                elif ex.branch_bool(Bool(z3.ULT(c.bv, 0x20))): raise JsonErr('control character')
            out.append(c); s.i += 1
    def number(s):
        ex = s.ex; neg = False
        if is_ch(ex, s.peek(), '-'):
            neg = True; s.i += 1
            if s.eof(): raise JsonErr('EOF while parsing a value')
        c = s.peek()
        if not in_range(ex, c, '0', '9'): raise JsonErr('invalid number')
        digits = []
        if is_ch(ex, c, '0'):
            digits.append(c); s.i += 1
            if not s.eof() and in_range(ex, s.peek(), '0', '9'): raise JsonErr('invalid number')      # leading zero
        else:
            while not s.eof() and in_range(ex, s.peek(), '0', '9'): digits.append(s.peek()); s.i += 1
        frac, exp, expneg, isfloat = [], [], False, False
        if not s.eof() and is_ch(ex, s.peek(), '.'):
            isfloat = True; s.i += 1
            if s.eof() or not in_range(ex, s.peek(), '0', '9'): raise JsonErr('invalid number')
            while not s.eof() and in_range(ex, s.peek(), '0', '9'): frac.append(s.peek()); s.i += 1
        if not s.eof() and (is_ch(ex, s.peek(), 'e') or is_ch(ex, s.peek(), 'E')):
            isfloat = True; s.i += 1
            if not s.eof() and is_ch(ex, s.peek(), '+'): s.i += 1
            elif not s.eof() and is_ch(ex, s.peek(), '-'): expneg = True; s.i += 1
            if s.eof() or not in_range(ex, s.peek(), '0', '9'): raise JsonErr('invalid number')
            while not s.eof() and in_range(ex, s.peek(), '0', '9'): exp.append(s.peek()); s.i += 1
        if isfloat or len(digits) > 20:
            txt = ('-' if neg else '') + ''.join(str(concrete_digit(ex, d)) for d in digits)
            if frac: txt += '.' + ''.join(str(concrete_digit(ex, d)) for d in frac)
            if exp: txt += 'e' + ('-' if expneg else '') + ''.join(str(concrete_digit(ex, d)) for d in exp)
            f = float(txt)
            if f in (float('inf'), float('-inf')): raise JsonErr('number out of range')
            return NumberV('float', F64(f))
        vals = [digit_val(ex, d) for d in digits]
        if all(isinstance(v, int) for v in vals):
            n = int(''.join(str(v) for v in vals))
            if neg:
                if n == 0: return NumberV('float', F64(-0.0))
                if n <= (1 << 63): return NumberV('neg', Int(-n, 'i64'))
                return NumberV('float', F64(float(-n)))
            if n < (1 << 64): return NumberV('pos', Int(n, 'u64'))
            return NumberV('float', F64(float(n)))
        if len(digits) > 18: raise Unsupported('symbolic integer text longer than 18 digits')
        acc = z3.BitVecVal(0, 64)
        for v in vals: acc = acc * 10 + (z3.BitVecVal(v, 64) if isinstance(v, int) else v)
        acc = z3.simplify(acc)
        if neg:
            if ex.branch_bool(Bool(acc == 0)): return NumberV('float', F64(-0.0))
            return NumberV('neg', Int(z3.simplify(-acc), 'i64'))
        return NumberV('pos', Int(acc, 'u64'))

def build(t):
    """JSON tree -> Variable value, directly (RFC 8259 object semantics with the last duplicate key winning, as serde_json documents for maps)"""
    k = t[0]
    if k == 'null': return mk_enum('Variable', 'Null', [])
    if k == 'bool': return mk_enum('Variable', 'Bool', [Bool(t[1])])
    if k == 'str': return mk_enum('Variable', 'String', [StrV(t[1])])
    if k == 'num': return mk_enum('Variable', 'Number', [t[1]])
    if k == 'arr': return mk_enum('Variable', 'Array', [VecV([Cell(Ptr(Cell(build(x)), 'rc')) for x in t[1]])])
    mp = MapV()
    for kk, vv in t[1]: mp.d[kk] = Cell(Ptr(Cell(build(vv)), 'rc'))
    return mk_enum('Variable', 'Object', [mp])
def parse_tree(ex, chars):
    """returns ('ok', tree) or ('err', message); trees keep duplicate object keys in text order"""
    r = Reader(ex, chars)
    try:
        v = r.value()
        r.skip_ws()
        if not r.eof(): raise JsonErr('trailing characters')
        return ('ok', v)
    except JsonErr as e:
        return ('err', str(e))
def parse_json(ex, chars):
    """returns ('ok', Variable Agg) or ('err', message) -- the value the JSON text denotes (reference side)"""
    k, v = parse_tree(ex, chars)
    return (k, build(v)) if k == 'ok' else (k, v)


def decimal_value(ex, chars, width=64):
    """the number a run of (symbolic) decimal digits denotes, as ONE shared z3 term per digit run and path: the lexer model and the reference
    lexer both use it, so that "same digits => same value" is syntactic and no multiplier-equivalence query reaches the solver"""
    cache = ex.__dict__.setdefault('u_decimal', {})
    key = (tuple(c if isinstance(c, str) else c.bv.get_id() for c in chars), width)
    if key not in cache:
        acc = z3.BitVecVal(0, width)
        for c in chars:
            d = z3.BitVecVal(ord(c) - 48, width) if isinstance(c, str) else z3.ZeroExt(width - 32, c.bv) - 48
            acc = acc * 10 + d
        cache[key] = z3.simplify(acc)
        # lemma (true because every character of the run is a decimal digit on this path): the value of n digits is below 10^n.
        # Without it the solver has to derive the bound through the multiplier chain, which can take minutes.
        if len(chars) * 4 < width: ex.assume(z3.ULE(cache[key], z3.BitVecVal(10 ** len(chars) - 1, width)))
    return cache[key]
