"""Lazily initialised symbolic inputs (documents, numbers, strings, tokens) and their concretisation under a model."""
import struct
import z3
from .core import *
from . import models as MM

VIDX = {'Null': 0, 'String': 1, 'Bool': 2, 'Number': 3, 'Array': 4, 'Object': 5, 'Expref': 6}
DEFAULT_NUMS = [0, 1, 2, -1, 1.5]
BIG_NUMS = [0, 1, 2, -1, 1.5, 2**53 + 1, -2**63, 1e308]

class DocSpec:
    """bounds of a symbolic document"""
    def __init__(s, depth=2, A=2, keys=('a', 'b'), strs=('', 'a', 'b'), nums=DEFAULT_NUMS, tags=None, leaf_tags=None):
        s.depth, s.A, s.keys, s.strs, s.nums = depth, A, tuple(keys), tuple(strs), nums
        s.tags = tags or ['Null', 'String', 'Bool', 'Number', 'Array', 'Object']
        s.leaf_tags = leaf_tags or [t for t in s.tags if t not in ('Array', 'Object')]
    def describe(s):
        return {'depth': s.depth, 'max_array_len': s.A, 'object_keys': list(s.keys), 'strings': list(s.strs),
                'numbers': 'fully symbolic serde_json::Number' if s.nums is None else [repr(n) for n in s.nums]}

def py_number(x):
    return MM.py_to_variable(x).fields[0].v

class LazyVar:
    def __init__(s, ex, spec, depth):
        s.spec, s.depth = spec, depth
        s.tags = list(spec.tags if depth > 0 else spec.leaf_tags)
        s.tagvar = ex.fresh('tag', 64)
        ex.assume(z3.Or(*[s.tagvar == VIDX[t] for t in s.tags]))
    def __call__(s, ex, me, want=None):
        spec, depth = s.spec, s.depth
        if want is None:
            lab = ex.choose([(nm, s.tagvar == VIDX[nm]) for nm in s.tags])
        else:
            if want not in s.tags: raise PathAbort('infeasible downcast')
            lab = want; ex.assume(s.tagvar == VIDX[want])
        me.lazy = None; me.variant = lab
        if lab == 'Null': me.fields = []
        elif lab == 'Bool':
            ex.nfresh += 1
            me.fields = [Cell(Bool(z3.Bool(f'b!{len(ex.decisions)}_{ex.nfresh}')))]
        elif lab == 'String':
            sv = ex.fresh('str', 8); k = ex.choose([(i, sv == i) for i in range(len(spec.strs))])
            me.fields = [Cell(rstr(spec.strs[k]))]
        elif lab == 'Number':
            me.fields = [Cell(sym_number(ex, spec.nums))]
        elif lab == 'Array':
            lv = ex.fresh('len', 8); n = ex.choose([(i, lv == i) for i in range(spec.A + 1)])
            me.fields = [Cell(VecV([Cell(Ptr(Cell(sym_variable(ex, spec, depth - 1)), 'rc')) for _ in range(n)]))]
        elif lab == 'Object':
            mp = MapV()
            for k in spec.keys:
                pv = ex.fresh('has_' + k, 8)
                if ex.choose([(1, pv == 1), (0, pv == 0)]): mp.d[k] = Cell(Ptr(Cell(sym_variable(ex, spec, depth - 1)), 'rc'))
            me.fields = [Cell(mp)]

def sym_number(ex, nums, kinds=('pos', 'neg', 'float')):
    if nums is not None:
        nv = ex.fresh('num', 8); k = ex.choose([(i, nv == i) for i in range(len(nums))])
        return py_number(nums[k])
    kv = ex.fresh('nk', 8); kind = ex.choose([(kk, kv == i) for i, kk in enumerate(list(kinds))])
    if kind == 'pos': return NumberV('pos', Int(ex.fresh('u', 64), 'u64'))
    if kind == 'neg':
        x = ex.fresh('i', 64); ex.assume(x < 0); return NumberV('neg', Int(x, 'i64'))
    ex.nfresh += 1; f = z3.FP(f'f!{len(ex.decisions)}_{ex.nfresh}', z3.Float64())
    ex.assume(z3.Not(z3.Or(z3.fpIsNaN(f), z3.fpIsInf(f)))); return NumberV('float', F64(f))

def sym_variable(ex, spec, depth=None):
    return Agg('enum', 'Variable', None, [], lazy=LazyVar(ex, spec, spec.depth if depth is None else depth))

def rc(v): return Ptr(Cell(v), 'rc')
def NULL(): return mk_enum('Variable', 'Null', [])

# ---------------------------------------------------------------- concretisation
def pin_tag(lz, prefer='Null'):
    if prefer in lz.tags: return prefer
    return 'Null' if 'Null' in lz.tags else lz.tags[0]
def lazy_null_constraints(v, acc, prefer='Null'):
    """constraints that pin every still-unmaterialised part of v to `prefer` (default Null) so the model is a complete document"""
    v = MM.deref_all(v)
    if not isinstance(v, Agg): return
    if v.lazy is not None:
        acc.append(v.lazy.tagvar == VIDX[pin_tag(v.lazy, prefer)])
        return
    if v.variant == 'Array':
        for c in v.fields[0].v.items: lazy_null_constraints(c.v, acc, prefer)
    elif v.variant == 'Object':
        for k in v.fields[0].v.d: lazy_null_constraints(v.fields[0].v.d[k].v, acc, prefer)

def check_pinned(eng, pc, pins, extra=()):
    """satisfiability of pc (+extra) with as many of the completion pins as are consistent with it: a lazy part whose tag the path has only partly
    constrained (e.g. tested non-null through its discriminant, never materialised) cannot take the preferred pin; dropping a pin never drops the path"""
    extra = list(extra); pc = list(pc) + extra
    sat, m = eng.check(pc + list(pins))
    if sat or not pins: return sat, m
    sat0, m0 = eng.check(pc)
    if not sat0:
        if not extra: eng.no_model = getattr(eng, 'no_model', 0) + 1   # a completed path without a model: surfaced as inconclusive by Summary.absorb_engine
        return sat0, m0
    keep = []
    for c in pins:
        ok, _ = eng.check(pc + keep + [c])
        if ok: keep.append(c)
    return eng.check(pc + keep)

def model_tag(lz, model, prefer='Null'):
    """the tag an unmaterialised lazy part has under the model (falls back to the pin)"""
    if model is not None:
        try:
            tv = model.eval(lz.tagvar, model_completion=True).as_long()
            for t in lz.tags:
                if VIDX[t] == tv: return t
        except Exception: pass
    return pin_tag(lz, prefer)

def fval(x, model):
    f = model.eval(x.f, model_completion=True) if model is not None else z3.simplify(x.f)
    try:
        if z3.is_fprm_value(f) is False and hasattr(f, 'isNaN') and f.isNaN(): return float('nan')
        if hasattr(f, 'isInf') and f.isInf(): return float('-inf') if f.isNegative() else float('inf')
    except Exception: pass
    bits = z3.simplify(z3.fpToIEEEBV(f))
    if z3.is_bv_value(bits): return struct.unpack('<d', struct.pack('<Q', bits.as_long()))[0]
    return None

def tagged(ex, v, model, prefer='Null'):
    """engine Variable value -> tagged JSON (exact numbers) under the model; unmaterialised lazy parts -> their pinned tag"""
    from vf.native import tag_num
    v = MM.deref_all(v)
    if v.lazy is not None:
        t = model_tag(v.lazy, model, prefer)
        if t == 'Bool': return False
        return {'Null': None, 'String': v.lazy.spec.strs[0], 'Number': tag_num('pos', 0), 'Array': [], 'Object': {}}.get(t)
    t = v.variant
    if t == 'Null': return None
    if t == 'Bool': return MM.cval(v.fields[0].v, model)
    if t == 'String': return str_conc(v.fields[0].v, model)
    if t == 'Number':
        n = v.fields[0].v
        if n.kind == 'float': return tag_num('float', fval(n.val, model))
        return tag_num(n.kind, MM.cval(n.val, model))
    if t == 'Array': return [tagged(ex, c.v, model, prefer) for c in v.fields[0].v.items]
    if t == 'Object': return {k: tagged(ex, v.fields[0].v.d[k].v, model, prefer) for k in v.fields[0].v.keys()}
    if t == 'Expref': return {'$expref': '?'}

def str_conc(sv, model):
    out = []
    for c in sv.chars:
        if isinstance(c, str): out.append(c)
        else:
            x = MM.cval(c, model); out.append(chr(x) if x is not None else '?')
    return ''.join(out)

# ---------------------------------------------------------------- symbolic strings
def sym_chars(ex, n, name='ch', exclude_surrogates=True):
    out = []
    for i in range(n):
        c = ex.fresh(name, 32)
        ex.assume(z3.ULE(c, 0x10FFFF))
        if exclude_surrogates: ex.assume(z3.Or(z3.ULT(c, 0xD800), z3.UGT(c, 0xDFFF)))
        out.append(Int(c, 'char'))
    return out
