//! C10 kernels: Variable::compare / PartialEq (-> float_eq) over all pairs of serde_json::Number.
use crate::stubs::*;
use jmespath::ast::Comparator;
use jmespath::{Rcvar, Variable};
use serde_json::Number;

fn any_num() -> Number {
    match kani::any::<u8>() % 3 {
        0 => Number::from(kani::any::<u64>()),
        1 => Number::from(kani::any::<i64>()),
        _ => { let f: f64 = kani::any(); kani::assume(f.is_finite()); match Number::from_f64(f) { Some(n) => n, None => { kani::assume(false); Number::from(0u64) } } }
    }
}
fn six(a: &Variable, b: &Variable) -> [Option<bool>; 6] {
    [a.compare(&Comparator::Equal, b), a.compare(&Comparator::NotEqual, b), a.compare(&Comparator::LessThan, b),
     a.compare(&Comparator::LessThanEqual, b), a.compare(&Comparator::GreaterThan, b), a.compare(&Comparator::GreaterThanEqual, b)]
}
fn b(x: Option<bool>) -> bool { match x { Some(v) => v, None => { kani::assert(false, "comparison of two numbers is Some"); false } } }

/// `!=` is the negation of `==`; `==` is symmetric and reflexive; numerically equal values are ==
#[kani::proof]
fn c10_numbers_eq_algebra() {
    let a = Variable::Number(any_num());
    let c = Variable::Number(any_num());
    let eq = b(a.compare(&Comparator::Equal, &c)); let ne = b(a.compare(&Comparator::NotEqual, &c));
    kani::assert(eq == !ne, "!= is the negation of ==");
    kani::assert(eq == b(c.compare(&Comparator::Equal, &a)), "== is symmetric");
    kani::assert(b(a.compare(&Comparator::Equal, &a)), "== is reflexive");
    match (a.as_number(), c.as_number()) {
        (Some(x), Some(y)) => { if x == y { kani::assert(eq, "numerically equal values are =="); } kani::cover!(x == y && eq, "eq reached"); kani::cover!(x != y && !eq, "ne reached"); }
        _ => kani::assert(false, "numbers convert to f64"),
    }
    std::mem::forget(a); std::mem::forget(c);
}

/// ordering operators follow the f64 order of the operands; a<b iff b>a; irreflexive
#[kani::proof]
fn c10_numbers_order() {
    let a = Variable::Number(any_num());
    let c = Variable::Number(any_num());
    let lt = b(a.compare(&Comparator::LessThan, &c)); let gt = b(a.compare(&Comparator::GreaterThan, &c));
    kani::assert(!b(a.compare(&Comparator::LessThan, &a)) && !b(a.compare(&Comparator::GreaterThan, &a)), "a < a and a > a are false");
    match (a.as_number(), c.as_number()) {
        (Some(x), Some(y)) => {
            kani::assert(lt == (x < y), "< is the numeric order");
            kani::assert(gt == (x > y), "> is the numeric order");
            kani::assert(lt == b(c.compare(&Comparator::GreaterThan, &a)), "a<b iff b>a");
            kani::cover!(x < y, "lt reached");
        }
        _ => kani::assert(false, "numbers convert to f64"),
    }
    std::mem::forget(a); std::mem::forget(c);
}

/// a<=b iff a<b or a==b ; a>=b iff a>b or a==b   (stated by the property for all pairs)
#[kani::proof]
fn c10_le_is_lt_or_eq() {
    let a = Variable::Number(any_num());
    let c = Variable::Number(any_num());
    let r = six(&a, &c);
    let (eq, lt, le, gt, ge) = (b(r[0]), b(r[2]), b(r[3]), b(r[4]), b(r[5]));
    kani::assert(le == (lt || eq), "a<=b iff a<b or a==b");
    kani::assert(ge == (gt || eq), "a>=b iff a>b or a==b");
    kani::cover!(le && !lt, "le by equality reached");
    std::mem::forget(a); std::mem::forget(c);
}

/// trichotomy for well-separated numbers: relative distance >= 2^-40 => exactly one of <, ==, >
#[kani::proof]
fn c10_trichotomy_well_separated() {
    let a = Variable::Number(any_num());
    let c = Variable::Number(any_num());
    match (a.as_number(), c.as_number()) {
        (Some(x), Some(y)) => {
            let d = (x - y).abs();
            let m = if x.abs() > y.abs() { x.abs() } else { y.abs() };
            // well separated: |x-y| >= 2^-40 * max(|x|,|y|)   (and not both tiny)
            kani::assume(d.is_finite() && d >= m * 9.094947017729282e-13 && d > 0.0);
            let r = six(&a, &c);
            let (eq, lt, gt) = (b(r[0]), b(r[2]), b(r[4]));
            kani::assert(!eq, "well-separated numbers are not ==");
            kani::assert(lt != gt, "exactly one of < and > holds");
            kani::cover!(x > 1.0e300 && y > 1.0e300, "huge operands reached");
        }
        _ => kani::assert(false, "numbers convert to f64"),
    }
    std::mem::forget(a); std::mem::forget(c);
}

/// ordering yields a boolean exactly for two numbers and null otherwise (equality of mixed types is decided by the mirsym harness:
/// Variable::eq can reach Ast::eq, whose recursion CBMC cannot bound here)
#[kani::proof]
#[kani::unwind(3)]
fn c10_mixed_types() {
    fn any_scalar() -> Variable {
        match kani::any::<u8>() % 6 {
            0 => Variable::Null, 1 => Variable::Bool(kani::any()), 2 => Variable::Number(any_num()),
            3 => Variable::String(String::new()), 4 => Variable::Array(Vec::new()), _ => Variable::Object(std::collections::BTreeMap::new()),
        }
    }
    let a = any_scalar(); let c = any_scalar();
    let both_num = a.is_number() && c.is_number();
    // only < and > here: <= and >= are defined through ==, whose Expref arm reaches the recursive Ast::eq
    let r = [a.compare(&Comparator::LessThan, &c), a.compare(&Comparator::GreaterThan, &c), a.compare(&Comparator::GreaterThan, &c)];
    kani::assert(r[0].is_some() == both_num && r[1].is_some() == both_num, "ordering yields a boolean exactly for two numbers");
    kani::cover!(both_num, "two numbers reached"); kani::cover!(!both_num && r[2].is_none(), "null ordering reached");
    std::mem::forget(a); std::mem::forget(c);
}
