//! Kani proof harnesses over the public API of the jmespath crate (path dependency on /repo/jmespath, so every run
//! verifies the current working tree).  Written in the "lean" style: every Variable/Rcvar/Result is `mem::forget`-ed,
//! `Rc::drop_slow` and `fmt::format` are stubbed, assertions are `kani::assert` on matched values (never unwrap/assert_eq on Results).
#![cfg_attr(kani, feature(allocator_api))]
#![allow(unused)]

#[cfg(kani)]
mod stubs {
    pub fn rc_drop_slow_stub<T: ?Sized, A: std::alloc::Allocator>(_rc: &mut std::rc::Rc<T, A>) {}
    pub fn fmt_stub(_a: std::fmt::Arguments<'_>) -> String { String::new() }
}
#[cfg(kani)]
mod c07;
#[cfg(kani)]
mod c10;
#[cfg(kani)]
mod c12;
#[cfg(kani)]
mod c14;
#[cfg(all(kani, feature = "specialized"))]
mod c17;
