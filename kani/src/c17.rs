//! C17: with the `specialized` feature the fast-path ToJmespath conversions equal the generic serde path (Variable::from_serializable).
//! Built only with `--features specialized` (needs the nightly toolchain Kani runs on).
use crate::stubs::*;
use jmespath::{Rcvar, ToJmespath, Variable};
use serde_json::Number;

fn same_number(a: &Number, b: &Number) -> bool {
    a.is_u64() == b.is_u64() && a.is_i64() == b.is_i64() && a.is_f64() == b.is_f64() && a.as_u64() == b.as_u64() && a.as_i64() == b.as_i64()
        && (match (a.as_f64(), b.as_f64()) { (Some(x), Some(y)) => x.to_bits() == y.to_bits(), (None, None) => true, _ => false })
}
macro_rules! spec_num { ($name:ident, $t:ty) => {
    #[kani::proof]
    #[kani::stub(std::rc::Rc::drop_slow, rc_drop_slow_stub)]
    #[kani::stub(alloc::fmt::format, fmt_stub)]
    fn $name() {
        let x: $t = kani::any();
        let s = x.to_jmespath();
        let g = Variable::from_serializable(x);
        match (&s, &g) {
            (Ok(a), Ok(Variable::Number(b))) => match &**a { Variable::Number(n) => kani::assert(same_number(n, b), "specialised conversion equals the generic serde path"), _ => kani::assert(false, "number expected") },
            _ => kani::assert(false, "both conversions succeed"),
        }
        kani::cover!(true, "reached");
        std::mem::forget(s); std::mem::forget(g);
    }
}}
spec_num!(c17_spec_i8, i8); spec_num!(c17_spec_i16, i16); spec_num!(c17_spec_i32, i32); spec_num!(c17_spec_i64, i64); spec_num!(c17_spec_isize, isize);
spec_num!(c17_spec_u8, u8); spec_num!(c17_spec_u16, u16); spec_num!(c17_spec_u32, u32); spec_num!(c17_spec_u64, u64); spec_num!(c17_spec_usize, usize);

macro_rules! spec_float { ($name:ident, $t:ty) => {
    #[kani::proof]
    #[kani::stub(std::rc::Rc::drop_slow, rc_drop_slow_stub)]
    #[kani::stub(alloc::fmt::format, fmt_stub)]
    fn $name() {
        let x: $t = kani::any();
        kani::assume(x.is_finite());          // non-finite values are not JSON-representable: the two paths differ there by design (error vs null)
        let s = x.to_jmespath();
        let g = Variable::from_serializable(x);
        match (&s, &g) {
            (Ok(a), Ok(Variable::Number(b))) => match &**a { Variable::Number(n) => kani::assert(same_number(n, b), "specialised conversion equals the generic serde path"), _ => kani::assert(false, "number expected") },
            _ => kani::assert(false, "both conversions succeed"),
        }
        kani::cover!(x < 0.0, "negative reached");
        std::mem::forget(s); std::mem::forget(g);
    }
}}
spec_float!(c17_spec_f32, f32); spec_float!(c17_spec_f64, f64);

#[kani::proof]
#[kani::unwind(6)]
#[kani::stub(std::rc::Rc::drop_slow, rc_drop_slow_stub)]
#[kani::stub(alloc::fmt::format, fmt_stub)]
fn c17_spec_bool_unit_str() {
    let b: bool = kani::any();
    let s = b.to_jmespath();
    match &s { Ok(a) => match &**a { Variable::Bool(y) => kani::assert(*y == b, "bool"), _ => kani::assert(false, "bool expected") }, _ => kani::assert(false, "ok") }
    let u = ().to_jmespath();
    match &u { Ok(a) => kani::assert(a.is_null(), "unit is null"), _ => kani::assert(false, "ok") }
    let bytes: [u8; 2] = kani::any();
    kani::assume(bytes[0] < 128 && bytes[1] < 128);
    let n: usize = kani::any(); kani::assume(n <= 2);
    if let Ok(t) = std::str::from_utf8(&bytes[..n]) {
        let r = t.to_jmespath();
        let g = Variable::from_serializable(t);
        match (&r, &g) { (Ok(a), Ok(Variable::String(y))) => match &**a { Variable::String(x) => kani::assert(x.len() == y.len() && x.as_bytes() == y.as_bytes(), "&str conversion equals the generic path"), _ => kani::assert(false, "string") }, _ => kani::assert(false, "ok") }
        std::mem::forget(r); std::mem::forget(g);
    }
    kani::cover!(n == 2, "two chars reached");
    std::mem::forget(s); std::mem::forget(u);
}
