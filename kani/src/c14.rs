//! C14 / C08 scalar kernels: the crate's serde bridge on every value of the primitive types, real serde / serde_json code in the formula.
use crate::stubs::*;
use jmespath::{Rcvar, Variable};
use serde::Deserialize;
use serde_json::{Number, Value};

macro_rules! ser_uint { ($name:ident, $t:ty) => {
    /// Variable::from_serializable(x) == the JSON number serde_json produces (PosInt x), for every x
    #[kani::proof]
    #[kani::stub(std::rc::Rc::drop_slow, rc_drop_slow_stub)]
    #[kani::stub(alloc::fmt::format, fmt_stub)]
    fn $name() {
        let x: $t = kani::any();
        let v = Variable::from_serializable(x);
        match v {
            Ok(Variable::Number(ref n)) => { kani::assert(n.as_u64() == Some(x as u64), "unsigned integer kept exactly"); kani::assert(n.is_u64() && !n.is_f64(), "stays an integer"); }
            Ok(_) => kani::assert(false, "number expected"),
            Err(_) => kani::assert(false, "no error"),
        }
        kani::cover!(x > 0, "positive reached");
        std::mem::forget(v);
    }
}}
macro_rules! ser_int { ($name:ident, $t:ty) => {
    #[kani::proof]
    #[kani::stub(std::rc::Rc::drop_slow, rc_drop_slow_stub)]
    #[kani::stub(alloc::fmt::format, fmt_stub)]
    fn $name() {
        let x: $t = kani::any();
        let v = Variable::from_serializable(x);
        match v {
            Ok(Variable::Number(ref n)) => {
                kani::assert(n.as_i64() == Some(x as i64), "signed integer kept exactly");
                kani::assert(!n.is_f64(), "stays an integer");
                kani::assert(n.is_u64() == (x >= 0), "non-negative values are unsigned integers, as serde_json represents them");
            }
            Ok(_) => kani::assert(false, "number expected"),
            Err(_) => kani::assert(false, "no error"),
        }
        kani::cover!(x < 0, "negative reached");
        std::mem::forget(v);
    }
}}
ser_uint!(c14_ser_u8, u8); ser_uint!(c14_ser_u16, u16); ser_uint!(c14_ser_u32, u32); ser_uint!(c14_ser_u64, u64); ser_uint!(c14_ser_usize, usize);
ser_int!(c14_ser_i8, i8); ser_int!(c14_ser_i16, i16); ser_int!(c14_ser_i32, i32); ser_int!(c14_ser_i64, i64); ser_int!(c14_ser_isize, isize);

#[kani::proof]
#[kani::stub(std::rc::Rc::drop_slow, rc_drop_slow_stub)]
#[kani::stub(alloc::fmt::format, fmt_stub)]
fn c14_ser_f64() {
    let x: f64 = kani::any();
    let v = Variable::from_serializable(x);
    match v {
        Ok(Variable::Number(ref n)) => { kani::assert(x.is_finite(), "only finite doubles become numbers"); match n.as_f64() { Some(y) => kani::assert(y.to_bits() == x.to_bits() && n.is_f64(), "double kept bit-identical"), None => kani::assert(false, "f64") } }
        Ok(Variable::Null) => kani::assert(!x.is_finite(), "non-finite doubles map to null"),
        Ok(_) => kani::assert(false, "number or null expected"),
        Err(_) => kani::assert(false, "no error"),
    }
    kani::cover!(x.is_nan(), "NaN reached"); kani::cover!(x == 1.5, "finite reached");
    std::mem::forget(v);
}
#[kani::proof]
#[kani::stub(std::rc::Rc::drop_slow, rc_drop_slow_stub)]
#[kani::stub(alloc::fmt::format, fmt_stub)]
fn c14_ser_f32() {
    let x: f32 = kani::any();
    let v = Variable::from_serializable(x);
    match v {
        Ok(Variable::Number(ref n)) => { kani::assert(x.is_finite(), "only finite floats become numbers"); match n.as_f64() { Some(y) => kani::assert(y == x as f64, "float widened exactly"), None => kani::assert(false, "f64") } }
        Ok(Variable::Null) => kani::assert(!x.is_finite(), "non-finite floats map to null"),
        Ok(_) => kani::assert(false, "number or null expected"),
        Err(_) => kani::assert(false, "no error"),
    }
    kani::cover!(x.is_infinite(), "inf reached");
    std::mem::forget(v);
}
#[kani::proof]
#[kani::unwind(6)]
#[kani::stub(std::rc::Rc::drop_slow, rc_drop_slow_stub)]
#[kani::stub(alloc::fmt::format, fmt_stub)]
fn c14_ser_bool_unit_char_option() {
    let b: bool = kani::any();
    let v = Variable::from_serializable(b);
    match v { Ok(Variable::Bool(y)) => kani::assert(y == b, "bool kept"), _ => kani::assert(false, "bool expected") }
    let u = Variable::from_serializable(());
    match u { Ok(Variable::Null) => {}, _ => kani::assert(false, "unit is null") }
    let o: Option<u64> = kani::any();
    let w = Variable::from_serializable(o);
    match (&w, o) {
        (Ok(Variable::Null), None) => {},
        (Ok(Variable::Number(n)), Some(x)) => kani::assert(n.as_u64() == Some(x), "Some(x) is x"),
        _ => kani::assert(false, "option maps to null / value"),
    }
    let c: char = kani::any();
    let s = Variable::from_serializable(c);
    match s {
        Ok(Variable::String(ref t)) => { kani::assert(t.len() == c.len_utf8(), "char becomes a one-character string"); kani::assert(t.chars().next() == Some(c), "same character"); }
        _ => kani::assert(false, "string expected"),
    }
    kani::cover!(o.is_some(), "some reached"); kani::cover!(c.len_utf8() == 4, "astral char reached");
    std::mem::forget(v); std::mem::forget(u); std::mem::forget(w); std::mem::forget(s);
}

// ---- deserialisation of a search result into primitive Rust types: Variable as a serde Deserializer
macro_rules! de_uint { ($name:ident, $t:ty) => {
    #[kani::proof]
    #[kani::stub(std::rc::Rc::drop_slow, rc_drop_slow_stub)]
    #[kani::stub(alloc::fmt::format, fmt_stub)]
    fn $name() {
        let x: u64 = kani::any();
        let r = <$t>::deserialize(Variable::Number(Number::from(x)));
        match r { Ok(y) => kani::assert(x <= <$t>::MAX as u64 && y as u64 == x, "value kept when it fits"), Err(_) => kani::assert(x > <$t>::MAX as u64, "error only when out of range") }
        let i: i64 = kani::any();
        kani::assume(i < 0);
        let q = <$t>::deserialize(Variable::Number(Number::from(i)));
        kani::assert(q.is_err(), "negative numbers do not decode into unsigned types");
        kani::cover!(x > 255, "large reached");
        std::mem::forget(r); std::mem::forget(q);
    }
}}
macro_rules! de_int { ($name:ident, $t:ty) => {
    #[kani::proof]
    #[kani::stub(std::rc::Rc::drop_slow, rc_drop_slow_stub)]
    #[kani::stub(alloc::fmt::format, fmt_stub)]
    fn $name() {
        let x: i64 = kani::any();
        let r = <$t>::deserialize(Variable::Number(Number::from(x)));
        match r { Ok(y) => kani::assert(x >= <$t>::MIN as i64 && x <= <$t>::MAX as i64 && y as i64 == x, "value kept when it fits"), Err(_) => kani::assert(x < <$t>::MIN as i64 || x > <$t>::MAX as i64, "error only when out of range") }
        kani::cover!(x < -129, "small reached");
        std::mem::forget(r);
    }
}}
de_uint!(c14_de_u8, u8); de_uint!(c14_de_u32, u32); de_uint!(c14_de_u64, u64);
de_int!(c14_de_i8, i8); de_int!(c14_de_i32, i32); de_int!(c14_de_i64, i64);

#[kani::proof]
#[kani::stub(std::rc::Rc::drop_slow, rc_drop_slow_stub)]
#[kani::stub(alloc::fmt::format, fmt_stub)]
fn c14_de_f64_bool() {
    let x: f64 = kani::any();
    kani::assume(x.is_finite());
    match Number::from_f64(x) {
        Some(n) => { let r = f64::deserialize(Variable::Number(n)); match r { Ok(y) => kani::assert(y.to_bits() == x.to_bits(), "double decodes bit-identical"), Err(_) => kani::assert(false, "finite double decodes") }; std::mem::forget(r); }
        None => kani::assert(false, "finite double is a number"),
    }
    let b: bool = kani::any();
    let r = bool::deserialize(Variable::Bool(b));
    match r { Ok(y) => kani::assert(y == b, "bool decodes"), Err(_) => kani::assert(false, "bool decodes") }
    let u: u64 = kani::any();
    let f = f64::deserialize(Variable::Number(Number::from(u)));
    match f { Ok(y) => kani::assert(y == u as f64, "integer decodes into f64 as serde_json does"), Err(_) => kani::assert(false, "integer decodes into f64") }
    kani::cover!(x < 0.0, "negative reached");
    std::mem::forget(r); std::mem::forget(f);
}

// ---- C08: conversion to and from serde_json's generic Value keeps every scalar exactly
fn any_num() -> Number {
    match kani::any::<u8>() % 3 {
        0 => Number::from(kani::any::<u64>()),
        1 => Number::from(kani::any::<i64>()),
        _ => { let f: f64 = kani::any(); kani::assume(f.is_finite()); match Number::from_f64(f) { Some(n) => n, None => { kani::assume(false); Number::from(0u64) } } }
    }
}
fn same_number(a: &Number, b: &Number) -> bool {
    a.is_u64() == b.is_u64() && a.is_i64() == b.is_i64() && a.is_f64() == b.is_f64() && a.as_u64() == b.as_u64() && a.as_i64() == b.as_i64()
        && (match (a.as_f64(), b.as_f64()) { (Some(x), Some(y)) => x.to_bits() == y.to_bits(), (None, None) => true, _ => false })
}
#[kani::proof]
#[kani::unwind(4)]
#[kani::stub(std::rc::Rc::drop_slow, rc_drop_slow_stub)]
#[kani::stub(alloc::fmt::format, fmt_stub)]
fn c08_value_roundtrip_scalars() {
    use std::convert::TryFrom;
    let n = any_num();
    let val = Value::Number(n.clone());
    // Value -> Variable (borrowed and owned) keeps the exact Number
    let v1 = Variable::try_from(&val);
    match v1 { Ok(Variable::Number(ref m)) => kani::assert(same_number(m, &n), "TryFrom<&Value> keeps the exact number"), _ => kani::assert(false, "number expected") }
    let v2 = Variable::try_from(val);
    match v2 { Ok(Variable::Number(ref m)) => kani::assert(same_number(m, &n), "TryFrom<Value> keeps the exact number"), _ => kani::assert(false, "number expected") }
    // Variable -> Value through Serialize
    let var = Variable::Number(n.clone());
    let back = serde_json::to_value(&var);
    match back { Ok(Value::Number(ref m)) => kani::assert(same_number(m, &n), "Serialize keeps the exact number"), _ => kani::assert(false, "number expected") }
    // null / bool
    let b: bool = kani::any();
    let vb = Variable::try_from(Value::Bool(b));
    match vb { Ok(Variable::Bool(y)) => kani::assert(y == b, "bool kept"), _ => kani::assert(false, "bool expected") }
    let vn = Variable::try_from(Value::Null);
    match vn { Ok(Variable::Null) => {}, _ => kani::assert(false, "null expected") }
    kani::cover!(n.is_f64(), "float reached"); kani::cover!(n.is_u64() && n.as_u64() > Some(i64::MAX as u64), "large unsigned reached"); kani::cover!(n.is_i64() && !n.is_u64(), "negative reached");
    std::mem::forget(v1); std::mem::forget(v2); std::mem::forget(var); std::mem::forget(back); std::mem::forget(vb); std::mem::forget(vn); std::mem::forget(n);
}
#[kani::proof]
#[kani::unwind(4)]
#[kani::stub(std::rc::Rc::drop_slow, rc_drop_slow_stub)]
#[kani::stub(alloc::fmt::format, fmt_stub)]
fn c08_deserialize_visitor_scalars() {
    // the Deserialize visitor of Variable driven by serde_json::Value as the deserializer (from_value)
    let n = any_num();
    let r: Result<Variable, _> = serde_json::from_value(Value::Number(n.clone()));
    match r { Ok(Variable::Number(ref m)) => kani::assert(same_number(m, &n), "Deserialize keeps the exact number"), _ => kani::assert(false, "number expected") }
    kani::cover!(n.is_f64(), "float reached");
    std::mem::forget(r); std::mem::forget(n);
}
