//! C07 kernels: Variable::slice (-> slice, adjust_slice_endpoint) with the real std Vec/Rc code in the formula.
use crate::stubs::*;
use jmespath::{Rcvar, Variable};
use serde_json::Number;

/// Python's list[start:stop:step] positions, 64-bit arithmetic (reference).
fn py_positions(len: i64, start: Option<i32>, stop: Option<i32>, step: i32, out: &mut [i64; 8]) -> usize {
    let st = step as i64;
    let adj = |x: Option<i32>, dpos: i64, dneg: i64| -> i64 {
        match x {
            None => if st < 0 { dneg } else { dpos },
            Some(v) => {
                let mut v = v as i64;
                if v < 0 { v += len; if v < 0 { if st < 0 { -1 } else { 0 } } else { v } }
                else if v >= len { if st < 0 { len - 1 } else { len } } else { v }
            }
        }
    };
    let a = adj(start, 0, len - 1);
    let b = adj(stop, len, -1);
    let mut n = 0usize;
    let mut i = a;
    // at most len iterations
    while n < 8 && ((st > 0 && i < b) || (st < 0 && i > b)) {
        out[n] = i; n += 1; i += st;
    }
    n
}

fn mk_array(len: usize) -> Variable {
    let mut v: Vec<Rcvar> = Vec::with_capacity(len);
    let mut i = 0u64;
    while (i as usize) < len { v.push(Rcvar::new(Variable::Number(Number::from(i)))); i += 1; }
    Variable::Array(v)
}

fn check_slice(len: usize) {
    let v = mk_array(len);
    let start: Option<i32> = kani::any();
    let stop: Option<i32> = kani::any();
    let step: i32 = kani::any();
    kani::assume(step != 0);
    let r = v.slice(start, stop, step);
    let mut want = [0i64; 8];
    let n = py_positions(len as i64, start, stop, step, &mut want);
    match r {
        Some(ref got) => {
            kani::assert(got.len() == n, "slice length equals Python's");
            let mut k = 0usize;
            while k < got.len() && k < 8 {
                match &*got[k] {
                    Variable::Number(x) => kani::assert(x.as_u64() == Some(want[k] as u64), "slice element equals Python's"),
                    _ => kani::assert(false, "element is a number"),
                }
                k += 1;
            }
            kani::cover!(got.len() >= 2 && step < 0, "multi-element backwards slice reached");
            kani::cover!(got.len() == 0, "empty slice reached");
        }
        None => kani::assert(false, "slice of an array is Some"),
    }
    std::mem::forget(r);
    std::mem::forget(v);
}

#[kani::proof]
#[kani::unwind(6)]
#[kani::stub(std::rc::Rc::drop_slow, rc_drop_slow_stub)]
fn c07_slice_len0_to_3() {
    let len: usize = kani::any();
    kani::assume(len <= 3);
    check_slice(len);
}

#[kani::proof]
#[kani::unwind(7)]
#[kani::stub(std::rc::Rc::drop_slow, rc_drop_slow_stub)]
fn c07_slice_len4() { check_slice(4); }

#[kani::proof]
#[kani::unwind(9)]
#[kani::stub(std::rc::Rc::drop_slow, rc_drop_slow_stub)]
fn c07_slice_len6() { check_slice(6); }

#[kani::proof]
#[kani::unwind(5)]
#[kani::stub(std::rc::Rc::drop_slow, rc_drop_slow_stub)]
fn c07_slice_non_array_is_none() {
    let v = match kani::any::<u8>() % 4 { 0 => Variable::Null, 1 => Variable::Bool(kani::any()), 2 => Variable::Number(Number::from(kani::any::<u64>())), _ => Variable::String(String::new()) };
    let r = v.slice(kani::any(), kani::any(), kani::any());
    kani::assert(r.is_none(), "slicing a non-array yields None");
    kani::cover!(true, "reached");
    std::mem::forget(r); std::mem::forget(v);
}

#[kani::proof]
#[kani::unwind(6)]
#[kani::stub(std::rc::Rc::drop_slow, rc_drop_slow_stub)]
fn c07_negative_index() {
    let len: usize = kani::any();
    kani::assume(len <= 3);
    let v = mk_array(len);
    let idx: usize = kani::any();
    // get_negative_index(n) is called by the interpreter with n = -idx for idx < 0, i.e. n >= 1 (n = 0 is treated as 1)
    let r = v.get_negative_index(idx);
    let n = if idx == 0 { 1 } else { idx };
    match &*r {
        Variable::Number(x) => { kani::assert(n <= len && x.as_u64() == Some((len - n) as u64), "negative index selects length - n"); }
        Variable::Null => kani::assert(n > len, "null only when out of range"),
        _ => kani::assert(false, "unexpected value"),
    }
    let p: usize = kani::any();
    let q = v.get_index(p);
    match &*q {
        Variable::Number(x) => kani::assert(p < len && x.as_u64() == Some(p as u64), "index selects position"),
        Variable::Null => kani::assert(p >= len, "null only when out of range"),
        _ => kani::assert(false, "unexpected value"),
    }
    kani::cover!(n <= len && len == 3, "hit reached");
    std::mem::forget(r); std::mem::forget(q); std::mem::forget(v);
}
