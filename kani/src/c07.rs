//! C07 kernels: Variable::slice (-> slice, adjust_slice_endpoint) with the real std Vec/Rc code in the formula.
use crate::stubs::*;
use jmespath::{Rcvar, Variable};
use serde_json::Number;

/// Python's list[start:stop:step] positions, 64-bit arithmetic (reference).
fn py_positions(len: i64, start: Option<i32>, stop: Option<i32>, step: i32, out: &mut [i64; 8]) -> usize {
    let st = step as i64;
    let adj = |x: Option<i32>, dpos: i64, dneg: i64| -> i64 {
        match x {
            None => if st < 0 { dneg } else { dpos },
            Some(v) => {
                let mut v = v as i64;
                if v < 0 { v += len; if v < 0 { if st < 0 { -1 } else { 0 } } else { v } }
                else if v >= len { if st < 0 { len - 1 } else { len } } else { v }
            }
        }
    };
    let a = adj(start, 0, len - 1);
    let b = adj(stop, len, -1);
    let mut n = 0usize;
    let mut i = a;
    // at most len iterations
    while n < 8 && ((st > 0 && i < b) || (st < 0 && i > b)) {
        out[n] = i; n += 1; i += st;
    }
    n
}

/// Variable::slice on an array of exactly N elements (elements are distinct Rc cells, recognised by pointer identity) for all
/// Option<i32> start/stop and all non-zero i32 steps, against Python's rule.
macro_rules! slice_harness { ($name:ident, $n:expr, $unwind:expr) => {
    #[kani::proof]
    #[kani::unwind($unwind)]
    #[kani::stub(std::rc::Rc::drop_slow, rc_drop_slow_stub)]
    fn $name() {
        const N: usize = $n;
        let elems: [Rcvar; N] = std::array::from_fn(|_| Rcvar::new(Variable::Null));
        let v = Variable::Array(elems.to_vec());
        let start: Option<i32> = kani::any();
        let stop: Option<i32> = kani::any();
        let step: i32 = kani::any();
        kani::assume(step != 0);
        let r = v.slice(start, stop, step);
        let mut want = [0i64; 8];
        let n = py_positions(N as i64, start, stop, step, &mut want);
        match r {
            Some(ref got) => {
                kani::assert(got.len() == n, "slice length equals Python's");
                let mut k = 0usize;
                while k < got.len() && k < N {
                    let w = want[k] as usize;
                    kani::assert(w < N && Rcvar::ptr_eq(&got[k], &elems[w]), "slice element equals Python's");
                    k += 1;
                }
                kani::cover!(got.len() >= 2 && step < 0, "multi-element backwards slice reached");
                kani::cover!(got.len() == 0, "empty slice reached");
            }
            None => kani::assert(false, "slice of an array is Some"),
        }
        std::mem::forget(r); std::mem::forget(v); std::mem::forget(elems);
    }
}}
slice_harness!(c07_slice_len2, 2, 5);
slice_harness!(c07_slice_len3, 3, 6);
slice_harness!(c07_slice_len4, 4, 7);
slice_harness!(c07_slice_len6, 6, 9);

#[kani::proof]
#[kani::unwind(3)]
#[kani::stub(std::rc::Rc::drop_slow, rc_drop_slow_stub)]
fn c07_slice_len0() {
    let v = Variable::Array(Vec::new());
    let r = v.slice(kani::any(), kani::any(), kani::any());
    match r { Some(ref got) => kani::assert(got.is_empty(), "slice of an empty array is empty"), None => kani::assert(false, "Some") }
    kani::cover!(true, "reached");
    std::mem::forget(r); std::mem::forget(v);
}

#[kani::proof]
#[kani::unwind(5)]
#[kani::stub(std::rc::Rc::drop_slow, rc_drop_slow_stub)]
fn c07_slice_non_array_is_none() {
    let v = match kani::any::<u8>() % 4 { 0 => Variable::Null, 1 => Variable::Bool(kani::any()), 2 => Variable::Number(Number::from(kani::any::<u64>())), _ => Variable::String(String::new()) };
    let r = v.slice(kani::any(), kani::any(), kani::any());
    kani::assert(r.is_none(), "slicing a non-array yields None");
    kani::cover!(true, "reached");
    std::mem::forget(r); std::mem::forget(v);
}

#[kani::proof]
#[kani::unwind(5)]
#[kani::stub(std::rc::Rc::drop_slow, rc_drop_slow_stub)]
fn c07_negative_index() {
    const N: usize = 3;
    let elems: [Rcvar; N] = std::array::from_fn(|_| Rcvar::new(Variable::Bool(true)));
    let v = Variable::Array(elems.to_vec());
    let idx: usize = kani::any();
    // get_negative_index(n) is called by the interpreter with n = -idx for idx < 0, i.e. n >= 1 (n = 0 is treated as 1)
    let r = v.get_negative_index(idx);
    let n = if idx == 0 { 1 } else { idx };
    if n <= N { kani::assert(Rcvar::ptr_eq(&r, &elems[N - n]), "negative index selects length - n"); }
    else { kani::assert(r.is_null(), "null when out of range"); }
    let p: usize = kani::any();
    let q = v.get_index(p);
    if p < N { kani::assert(Rcvar::ptr_eq(&q, &elems[p]), "index selects position"); }
    else { kani::assert(q.is_null(), "null when out of range"); }
    kani::cover!(n == 3, "first element through a negative index reached");
    std::mem::forget(r); std::mem::forget(q); std::mem::forget(v); std::mem::forget(elems);
}
