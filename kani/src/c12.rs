//! C12 kernel: JmespathError::new line/column for every UTF-8 string of <= 4 bytes and every char-boundary offset.
use crate::stubs::*;
use jmespath::{ErrorReason, JmespathError};

#[kani::proof]
#[kani::unwind(6)]
#[kani::stub(std::rc::Rc::drop_slow, rc_drop_slow_stub)]
fn c12_line_column() {
    let bytes: [u8; 4] = kani::any();
    let n: usize = kani::any();
    kani::assume(n <= 4);
    let s = match std::str::from_utf8(&bytes[..n]) { Ok(s) => s, Err(_) => { kani::assume(false); return; } };
    let off: usize = kani::any();
    kani::assume(off <= n && s.is_char_boundary(off));
    let e = JmespathError::new(s, off, ErrorReason::Parse(String::new()));
    let mut line = 0usize; let mut col = 0usize;
    for (i, c) in s.char_indices() { if i >= off { break; } if c == '\n' { line += 1; col = 0; } else { col += 1; } }
    kani::assert(e.line == line, "line = number of newlines before the offset");
    kani::assert(e.column == col, "column = characters since the last newline before the offset");
    kani::assert(e.offset == off, "offset kept");
    kani::cover!(line == 1 && col == 1, "second line reached");
    kani::cover!(n == 4 && bytes[0] >= 0xC0 && off == 4, "multi-byte prefix reached");
    std::mem::forget(e);
}

/// the same claim on strings of <= 2 bytes: a cheap harness that still finishes when the implementation uses heavier std machinery
#[kani::proof]
#[kani::unwind(4)]
#[kani::stub(std::rc::Rc::drop_slow, rc_drop_slow_stub)]
fn c12_line_column_small() {
    let bytes: [u8; 2] = kani::any();
    let n: usize = kani::any();
    kani::assume(n <= 2);
    let s = match std::str::from_utf8(&bytes[..n]) { Ok(s) => s, Err(_) => { kani::assume(false); return; } };
    let off: usize = kani::any();
    kani::assume(off <= n && s.is_char_boundary(off));
    let e = JmespathError::new(s, off, ErrorReason::Parse(String::new()));
    let mut line = 0usize; let mut col = 0usize;
    for (i, c) in s.char_indices() { if i >= off { break; } if c == '\n' { line += 1; col = 0; } else { col += 1; } }
    kani::assert(e.line == line, "line = number of newlines before the offset");
    kani::assert(e.column == col, "column = characters since the last newline before the offset");
    kani::cover!(line == 1, "second line reached");
    std::mem::forget(e);
}
